# one claim(...) per property that has a working check; exec'd by gen_manifest.py

claim("C14", "proof",
      "For every enumerated configuration (operator, operand kinds, numeric kinds, n in [-4,4], "
      "unit choice) the real Measurement operators are executed on solver-backed numbers and z3 "
      "(nonlinear real arithmetic) proves, for ALL measurands and non-negative uncertainties, "
      "that the measurand equals the plain operation, the uncertainty is >= 0 and its square "
      "equals first-order propagation, and that exceptions occur only where the operation is "
      "mathematically undefined. The configuration set is finite and visited completely.",
      "Exact real arithmetic over the binary constants in the code (IEEE/Decimal-context rounding "
      "outside the claim); math.sqrt and x**(1/2) modelled as y>=0 and y*y==x; unit sizes for +/- "
      "from the independent declaration oracle; proxy semantics self-tested against CPython on every run.",
      "shadow-symbolic execution of real code + z3 NRA per path", "DESIGN.md 4/C14", "symnum")

claim("C12", "other",
      "The real comparison operators (Quantity.__eq__/__lt__ + total_ordering, Measurement.__eq__, "
      "approximately, Level.__eq__) run on solver-backed magnitudes/uncertainties; per path z3 proves "
      "for ALL reals that, away from a 1e-9 relative tie zone, exactly one of <,==,> holds in agreement "
      "with physical values from the independent declaration oracle, <=/>= mirror, == is reflexive and "
      "symmetric (Measurement/approximately/Level for all measurands and uncertainties), and searches "
      "for equal quantities whose hashed (magnitude, unit) tuples differ, replayed with the real hash(). "
      "Over ALL named units of a dimension, order is tied to physical values through C04's sizes query on the "
      "factors extracted from the real convert: where no consistent sizes exist, three quantities with "
      "a < b < c < a are built from the factors and replayed. "
      "Unit pairs and operand/numeric kinds are a finite enumerated family.",
      "Exact real arithmetic over the code's binary constants; tie zone excluded for different units; "
      "unit pairs limited to the family listed in props/c12.py; int magnitudes only on exact pairs; "
      "ln/exp uninterpreted with instance axioms.",
      "shadow-symbolic execution of real code + z3 (LRA/NRA) per path", "DESIGN.md 4/C12", "symnum")

claim("C04", "other",
      "For every enumerated (source, target) pair the real Quantity.in_unit runs once on a solver-backed "
      "magnitude; z3 confirms the extracted affine map c*m+d for all m and decides "
      "forall m |c*m+d - rho*m| <= tol*|rho*m| against unit sizes solved independently from the "
      "recorded declarations (exact Fractions). Families: all ordered pairs of named offset-free units "
      "(complete), a fixed compound family (<=3 factors, |e|<=3, registered prefixes, degree bound per "
      "tier), and a synthetic exactly-consistent system with redundant definition paths at tolerance 0.",
      "Planner control flow is concrete (depends on unit objects only; every run is checked to have one "
      "path); exact real arithmetic over the binary constants in _ratios; pairs downstream of "
      "declarations C09 finds inconsistent are accepted under any one consistent reading and counted "
      "as ambiguous_by_C09 in the per-pair comparison, and decided instead by the sizes-feasibility query: per "
      "dimension, do sizes s_u > 0 exist with every factor the library applies between named units within "
      "tolerance of s_a/s_b (one z3 LRA query; culprit units named by which removal restores feasibility); "
      "compound family is a bounded sample of the property's space.",
      "shadow-symbolic execution of real in_unit + z3 LRA per pair vs declaration oracle",
      "DESIGN.md 4/C04", "symnum")

claim("C05", "other",
      "The real in_unit is called once, twice or three times in a row on a solver-backed magnitude "
      "(and scale factor k); z3 decides for ALL m, k: conv(0)=0, sign preserved, conv(k*m)=k*conv(m), "
      "u->u identity, there-and-back within tolerance, via-intermediate equals direct within tolerance, "
      "for all ordered named offset-free pairs, a fixed compound family, fixed triples per dimension and "
      "a synthetic exactly-consistent system (1e-12); route independence additionally over ALL triples of "
      "shipped named units of a dimension (one query per ordered pair over the extracted factors, asking for a "
      "magnitude and an intermediate that differ beyond tolerance), and a family in which a pair is declared, "
      "used and declared again with another ratio.",
      "Planner concrete; exact reals over the code's binary constants; u->u exact for unprefixed units "
      "and 1e-12 relative for prefixed ones (float reciprocal constants); compound items touching units whose "
      "size is route dependent because of a C09 inconsistency are skipped and counted (named pairs and triples are not).",
      "shadow-symbolic execution of composed real conversions + z3 LRA/NRA", "DESIGN.md 4/C05", "symnum")

claim("C09", "other",
      "(a) One QF_LRA query over real log-size potentials with one guarded constraint per recorded "
      "declaration decides EVERY cycle of the definition graph at once (Farkas: feasible iff no "
      "cancelling integer combination of declarations has residual beyond its tolerances); unsat cores, "
      "minimised by deletion, name the disagreeing chains and are replayed by multiplying them out "
      "without a solver. (b) For every named unit of a physical dimension the real in_unit to and from "
      "the coherent SI unit runs on a symbolic magnitude and must return the oracle's value.",
      "Declarations are recorded by wrapping conversions.equate/translate before the unit modules are "
      "imported; ln r enclosed to 1e-12, most permissive end used; tolerance 1e-5 per exponent degree; "
      "dimensionless base units (radian) count as the number 1.",
      "SMT (QF_LRA) feasibility over all declarations + unsat cores; symbolic in_unit for connectivity",
      "DESIGN.md 4/C09", "oracle")

claim("C07", "other",
      "Every path of the real in_unit, +, -, ==, <, <=, >, >= run on symbolic magnitudes over the pair "
      "families (named pairs, compound family, and a fresh family of unconvertible / partially connected / "
      "product-defined units) must end in an allowed outcome for every magnitude on the path; the same runs "
      "in interpreters started with `python -O` must have the same outcome regions, and z3 decides "
      "forall x,y that returned values / truth values are equal in both modes.",
      "The planner's branching on unit structure is enumerated (pairs), not symbolic; exact reals over "
      "the code's binary constants; quick tier samples the named pairs (every 2nd / 16th).",
      "shadow-symbolic execution in two interpreter modes + z3 equivalence of shipped terms",
      "DESIGN.md 4/C07", "symnum")

claim("C10", "other",
      "For all 12 ordered pairs of {K, degC, degF, R} x prefix on source x prefix on target the real "
      "in_unit runs on a symbolic magnitude (int/float/Decimal); z3 decides for ALL m that the result "
      "equals the affine definition through kelvin (built from the recorded declarations) within 1e-9, "
      "absolute zero maps to absolute zero, differences scale by the degree ratio, there-and-back is the "
      "identity, and ==/< across scales agree with kelvin values away from ties.",
      "Exact reals over the binary constants 273.15, 459.67, 5/9 present in the source; quick tier uses "
      "5 prefixes (none, k, m, M, micro), thorough all registered SI prefixes.",
      "shadow-symbolic execution of real in_unit/==/< + z3 LRA vs affine oracle", "DESIGN.md 4/C10", "symnum")

claim("C06", "other",
      "The real Quantity operators + - * / ** == < run on symbolic magnitudes for ordered pairs inside "
      "groups of convertible spellings (other unit and/or prefix, incl. SI/IEC mixes) and cross-dimension "
      "pairs; z3 decides for ALL x,y that SI(a op b) equals the operation on SI(a), SI(b) within 1e-5 per "
      "degree, SI being magnitude times the unit size from the independent declaration oracle applied to "
      "the very unit object the library returned; ==/< agree with SI values away from ties; + - == < also on "
      "Decimal and int magnitudes for the spellings that differ by a prefix (SI, IEC, mixed) or a unit; over "
      "all named units of a dimension the verdict of < is tied to SI values through C04's sizes query (no "
      "consistent sizes => three quantities with a < b < c < a, replayed).",
      "Exact reals over the code's constants; groups listed in props/c06.py; n in [-3,3]; Decimal / int "
      "counterexamples are candidates confirmed by the replay.",
      "shadow-symbolic execution of real operators + z3 NRA vs size oracle", "DESIGN.md 4/C06", "symnum")

claim("C03", "other",
      "Real Quantity operators (+ - * / ** root neg pos abs == < <= > >= in_unit; Quantity/Unit/number on "
      "either side; int/float/Decimal kinds) run on symbolic magnitudes; the solver enumerates every "
      "feasible path and on each the result's dimension (oracle: exponent-tuple arithmetic), unit, numeric "
      "type and exception class are checked; arithmetic exceptions are confined by z3 to where the "
      "operation is undefined; incommensurable + - < <= > >= in_unit must raise TypeError/ConversionNotFound "
      "and == be False on every path.",
      "Unit family of 12-14 units / 8 dimensions, exponents and degrees in [-4,4] (concretised: "
      "Unit.__pow__ interns on them); Decimal context rounding outside.",
      "shadow-symbolic execution of real operators; z3 path enumeration + domain confinement",
      "DESIGN.md 4/C03", "symnum")

claim("C18", "other",
      "Real LogarithmicUnit.level / Level.quantify / == run on symbolic magnitudes with ln/exp uninterpreted "
      "(instance axioms exp(ln t)=t, ln(exp s)=s, strict monotonicity). For every logarithm family x reference "
      "x quantity unit z3 decides for ALL x>0 and l in [-200,200]: the logarithm's argument is quantity/"
      "reference, magnitude == (k/prefix)*ln(arg)/ln(base) with k from physics (not from "
      "ROOT_POWER_DIMENSIONS), strict monotonicity, both round trips in log space (factor within 2^-46), "
      "and that a level equals the quantity it denotes in both argument orders.",
      "ln/exp are uninterpreted: what is proved is the algebraic structure of the formulas, not the numeric "
      "accuracy of math.log/**; log-space to linear-space step is the calculus bound |e^d-1|<=2|d|; references "
      "are concrete (the library hashes them).",
      "shadow-symbolic execution with UF ln/exp + z3", "DESIGN.md 4/C18", "symnum")

claim("C01", "proof",
      "Inductive invariant Inv(u): dimension == product of factor dimensions. Every site that can reach the "
      "Unit constructor (found by an AST scan; an unharnessed site is a harness error) is run as REAL code on "
      "shadow operands satisfying Inv, with the intern tables replaced by a write-logging map model and with "
      "unbounded symbolic factor exponents, powers, root degrees, prefix exponents and base-unit dimension "
      "vectors; z3 proves that whatever is handed to the constructor satisfies Inv on every path, that equal "
      "keys imply equal dimensions (history independence), and the real __new__/__init__ of Unit, Dimension "
      "and Prefix are checked against the table model. One inductive step covers operation sequences of any length; "
      "the width invariant of the dimension table it relies on is re-established by one step of the real "
      "Dimension.define from an arbitrary table (symbolic derived dimensions).",
      "<= 3 base units per operand; base-unit dimension vectors symbolic at 3 of 9 positions at a time "
      "(rotated) or taken from registered base units; root degree symbolic for <= 2 factors and enumerated "
      "in [-3,4] for 3 factors; JSON documents not produced by __json__ outside; error-message formatting stubbed.",
      "symbolic execution of real operators on shadow instances with table models + z3 (NIA/LIA)",
      "DESIGN.md 4/C01", "internmodel")

claim("C02", "proof",
      "Identity of interned objects is equality of intern keys (the real __new__/__init__ of Unit, Dimension, "
      "Prefix are checked against the table model). Both sides of 19 unit laws, 19 dimension laws and 14 "
      "same-base prefix laws (commutativity, associativity, neutral elements, inverse, a/b = a*b**-1, "
      "x**a*x**b = x**(a+b), (x**a)**b = x**(a*b), (x**n).root(n) = x, mixed trees up to depth 3) are "
      "evaluated by the REAL operators on shadow operands with unbounded symbolic exponents in one run; z3 "
      "proves the key terms equal on every path. Different-base prefixes: same laws for the numeric scale "
      "in log space within 1e-9.",
      "Operands satisfy the representation invariant (no zero factor exponents, non-identity prefixes have "
      "non-zero exponents); <= 3 registered base units per set; (x**a)**b additionally bounded to [-6,6]; one "
      "doubly-nonlinear dimension law over 2 symbolic positions; mixed-base exponents in [-40,40].",
      "symbolic execution of real operators on shadow instances + z3 key-term equality (LIA/NIA)",
      "DESIGN.md 4/C02", "internmodel")

claim("C11", "other",
      "Key level: both sides of 18 prefix/unit identities ((p*u)**n = p**n*u**n, u/(p*v) carries p**-1, "
      "root inverts **, identity prefix neutral on either side, a prefix written on the right of a prefixed unit, "
      "operands sharing one prefix object, ...) are evaluated by the REAL operators on shadow operands "
      "with unbounded symbolic exponents and z3 proves the intern keys equal; same-base prefix product/"
      "quotient/power is proved to be exact integer exponent arithmetic. Value level: the real unprefixed / "
      "in_unit / ** / '/' / == run on a symbolic magnitude for every registered SI and IEC prefix and a "
      "family of their products, quotients, powers and roots on core and compound units; z3 decides for ALL "
      "m that the result is m times the exact prefix factor (1e-12; 1e-9 for SI x IEC mixes).",
      "value(p) = base**exponent as exact rational; prefix powers beyond double range skipped and counted; "
      "exact == only demanded for integer-exponent (same-base) combined prefixes.",
      "symbolic execution on shadow instances (keys) and on proxies (values) + z3", "DESIGN.md 4/C11",
      "internmodel")

claim("C19", "other",
      "(1) Unit.define/alias/derive, Dimension.unit/scale run as REAL code against registry models whose "
      "membership answers (absent / bound to this object / bound to another) are solver-chosen Booleans, so "
      "every registry pre-state is enumerated; a raising call must leave every write log (registries, _known, "
      "_base, _ratios/_offsets, names/symbols) empty and a returning call must bind and report every declared "
      "name and symbol without overwriting another object's. (2) Per class the naming life-cycle automaton, "
      "with transitions obtained by running the real constructors, is model-checked by z3 for operation "
      "orders of length <= 4 that leave a first-declared name unbound. (3) Every (name, symbol) literal in the "
      "shipped modules (AST) must resolve, under several import orders (finite audit). (4) Unit.equals / "
      "conversions.equate / translate and Dimension.scale run with symbolic magnitudes (and, for scale, the "
      "zero point's shape and the special values of its numeric type as solver-chosen selectors): a call that "
      "raises must leave registries and conversion tables as they were. (5) Unit.named / resolve_symbol run "
      "with the membership of the text in the name and the symbol registry chosen by solver variables: the "
      "answer must come from the registry the lookup is about.",
      "Strings are concrete (with/without a space); registry invariant 'no symbol with a space is registered' "
      "assumed for pre-states; re-declaring a second name through a constructor is outside; part (3) is an "
      "audit, not a solver claim.",
      "symbolic registry pre-states over real definition code + bounded model checking of an extracted automaton",
      "DESIGN.md 4/C19", "internmodel")

claim("C20", "model_checking",
      "The step system (one atomic step per traced source line) is regenerated on every run by executing the "
      "real constructor of Dimension, Prefix, Unit, Logarithm and LogarithmicUnit with its intern table "
      "replaced by a scripted stand-in and enumerating the table's possible answers by re-execution (every "
      "trace is one path of the program, whatever helpers, aliases or try/except it is written with); z3 "
      "decides over ALL line-level schedules of 2 (quick) / 3 (thorough) threads, each on one trace and a "
      "trace feasible only while the shared table gives the answers it assumed, whether all threads end "
      "with the table's single object; the AST-derived step system of engine/stepbmc.py is checked too where "
      "its statement forms apply and must agree; a reachability witness guards against vacuity and a "
      "schedule found is replayed on real threads stepped line by line through sys.settrace. Side conditions: "
      "the memoised operator helpers leave every shared container as found; and (engine/initbmc.py) no "
      "line-level schedule of a creating and a finding thread returns an object with an attribute unassigned "
      "or reads one before it is assigned -- the step system (attribute reads/writes, flag reads scripted, "
      "publish/obtain) is recorded from executions of the real constructor through descriptors. Iteration over "
      "the live table (items()/values() consumed by Python code) is modelled with a size-change counter: a "
      "schedule in which another thread inserts between two advances is an error (RuntimeError in CPython). "
      "Where the step system cannot be built because the constructor answers a repeated call without consulting "
      "the table (shared state of its own), every one-preemption schedule of two threads through the real "
      "constructor is swept instead; that fallback is an enumeration, not a solver verdict, and the check ends "
      "with a harness error if it finds nothing.",
      "Line granularity (a subset of CPython's preemption points); setdefault of a builtin dict and `with "
      "lock` taken as atomic / mutually exclusive, setdefault of any other table type split into look-up and "
      "store; one key per constructor call; table operations without a model (del, pop, iteration) are a "
      "harness error; free-threaded builds and races in alias on named definitions outside.",
      "execution-derived step system under a scripted table + z3 bounded model checking over symbolic schedules",
      "DESIGN.md 2/E4b, 4/C20", "tracebmc")

claim("C08", "model_checking",
      "The cache machine of conversions.py (which lru_cache'd functions or module-level memo tables "
      "transitively read _ratios/_offsets, which of them each writer clears -- through helpers too --, whether "
      "the query path itself stores into the tables; empty paths are cached, exceptions are not) is read from "
      "the AST on every run; any further cached reader gets a generic stale-row model whose histories are "
      "concretised on four shapes of units; z3 model-checks ALL histories of declare(i,j,ratio)/query(i,j) within the bound for a query "
      "that answers differently from the same declarations on empty caches; the abstraction 'empty caches = "
      "shortest declared path' is validated against the real in_unit on every declaration graph over 3 units; "
      "a history found is replayed in two fresh subprocesses. Memo-key soundness (engine/memokeys.py): every "
      "memoised function found in the source is either keyed by interned objects only, or is called through its "
      "real lru_cache wrapper with one symbolic value in two numeric types and must answer as its unmemoised body. "
      "Which caches a declaring call leaves filled is established by experiment for a new pair and for a pair "
      "declared before (a conditional clear becomes a re-declaration history, replayed); plain conversions must "
      "answer the same before and after 56 conversions of compound units built from the same pairs (finite audit). "
      "When a history found under the wholesale reading of 'not cleared' does not replay, the search is repeated "
      "under entry-by-entry invalidation (entries mentioning a declared unit and memoised successes go, memoised "
      "failures between other units stay) over 4 units, 5 operations and routes of up to 3 declared edges.",
      "N <= 3 units and L <= 5 operations (quick), N <= 4, L <= 7 (thorough); queries on named units of one "
      "dimension (the planner's compound-unit logic is abstracted to path search); lru_cache contract.",
      "AST-extracted cache machine + z3 bounded model checking over symbolic histories", "DESIGN.md 4/C08",
      "stepbmc")

claim("C16", "proof",
      "Tables, terminals, rules and options are loaded on every run from the shipped _parser.py and from a "
      "fresh artefact built from measured.lark by the Makefile's own command. z3 proves every terminal's "
      "regular language equal (regex equivalence), and finds a bijection between the two LALR automata that "
      "preserves start/end states, every action and goto and rule content: with equal terminals and the same "
      "deterministic driver this is identical accept/reject and identical trees for EVERY input, no length "
      "bound. Independently, z3 model-checks the synchronous product of the two automata for a reachable "
      "disagreeing state pair (paths up to twice the number of states); a disagreement is completed to a "
      "sentence and replayed through the real shipped parser and a real freshly generated parser.",
      "Lark's runtime classes embedded in _parser.py are trusted (only DATA/MEMO compared); lark 1.3.1 from "
      "/venv generates the fresh artefact; post-processing by black/isort/sed does not change data.",
      "z3 regex equivalence + automaton isomorphism (unbounded) + product-automaton BMC", "DESIGN.md 4/C16",
      "parsertables")

claim("C17", "model_checking",
      "z3 decides over the shipped terminal regexes that every token text (length <= 64) is in the domain of "
      "the callback it reaches (int, float, DIGITS map), finds texts beyond the interpreter's int digit limit "
      "on a length abstraction of the terminal (witness replayed on the real parser), and proves the "
      "character partition sound (no terminal character set splits a class), so two strings with the same "
      "class word lex identically; the real Unit.parse and Quantity.parse then run on one representative of "
      "EVERY class word of length <= 4 (quick) / 6 (thorough); each parse is checked for result type, "
      "magnitude type as written, allowed exceptions (ParseError/KeyError), determinism (a result that depends "
      "on earlier parses is replayed after a minimised history) and unchanged registries on rejection. Functions "
      "that parsing.py applies to characters besides the terminals (unicodedata.*, str.is*; read from its AST) "
      "refine the classes: one representative per (class, observer signature) in words of <= 2 and inside sentences. The "
      "unit arithmetic inside the term/unit_sequence/unit callbacks is executed symbolically for every "
      "exponent up to the digit limit with CPython's int->float range check modelled. AST side conditions: the lexer/driver raise only LarkError subclasses; every callback is "
      "fed the terminal it expects; anonymous unit construction writes no name/symbol registry (E2).",
      "Strings longer than the bound are not covered; which registered symbol a SYMBOL token spells is "
      "sampled by extra representatives (m, k, s, 1, K, ohm, micro); Python's int()/float() literal grammars "
      "are written out from the language reference.",
      "z3 regex inclusion + solver-checked character abstraction + exhaustive class words on the real parser",
      "DESIGN.md 4/C17", "parsertables")

claim("C13", "other",
      "(1) The real formatting._unit_to_magnitude_and_terms runs on shadow units with unbounded symbolic prefix "
      "and factor exponents; z3 proves on every path that the returned (magnitude, terms) denote the unit's "
      "scale and that a magnitude appears only when the prefix exponent is not divisible by the first factor's "
      "exponent. (2) z3 decides over the shipped terminal regexes that superscript/from_superscript are inverse "
      "character maps, that rendered exponents lie in the exponent terminals' languages and that every "
      "registered symbol, prefix+symbol concatenation and space-free name lies in L(SYMBOL). (3) For the finite "
      "family prefix x unit x exponent in [-3,3] (and two-term products) the real Unit.parse(str(u)) / "
      "Quantity.parse(str(q)) and alternative spellings are executed and compared by identity or by oracle "
      "scale and dimension.",
      "Layer 3 is an exhaustive concrete enumeration of a finite family (where symbol collisions are decided), "
      "not a proof; quick tier restricts the unit list; float repr round-trip outside; factor units carry the "
      "identity prefix (representation invariant).",
      "symbolic execution of rendering on shadow units + z3 regex membership/inclusion + exhaustive family on the real parser",
      "DESIGN.md 4/C13", "parsertables")

claim("C15", "other",
      "The library's side of the transports' contracts is decided symbolically on the real code: on shadow "
      "dimensions, prefixes and units with unbounded symbolic exponents the real __getnewargs_ex__ fed to the "
      "real __new__ (table model with symbolic membership) returns the object itself on the present path and "
      "registers exactly the object's own intern key on the absent path, and the real __json__ -> "
      "__from_json__ reproduces the intern key; Quantity.__json__ -> __from_json__ runs on symbolic int, float "
      "and Decimal magnitudes, a Decimal travelling as a symbolic text in the language of str(Decimal) whose "
      "decoding (Decimal(text), int(text), float(text)) is decided by z3 regex membership, so that every path "
      "must return a Decimal of the same value. The transports themselves (pickle, pickle protocol 2, copy, "
      "deepcopy, json codecs, codecs_installed) are exercised concretely on EVERY registered dimension, prefix "
      "and unit plus a compound family and int/float/Decimal quantities, checking identity, unchanged "
      "names/symbols, magnitude type and (for JSON quantities) physical equality.",
      "pickle/copy/json are stdlib C code taken by contract (validated concretely on every run); JSON "
      "quantities are compared physically within 1e-9 when the unit text deliberately reads back as an equal "
      "named unit (kg); pydantic/SQLAlchemy internals outside.",
      "symbolic execution of newargs/JSON re-entry on shadow instances + exhaustive concrete transports",
      "DESIGN.md 4/C15", "internmodel")
