#!/usr/bin/env python3
"""bin/gen_results.py <seeded outputs...> -- <benign cross outputs...>: write seeded/RESULTS.md from the
last regression (bin/run_seeded / bin/run_benign_cross, possibly split over worktrees by bin/run_par)."""
import json
import os
import re
import sys

ROOT = os.path.dirname(os.path.dirname(os.path.abspath(__file__)))
args = sys.argv[1:]
cut = args.index("--") if "--" in args else len(args)
seeded_files, benign_files = args[:cut], args[cut + 1:]

lines = []
for f in seeded_files:
    lines += [l.rstrip("\n") for l in open(f, errors="replace") if re.match(r"\S+: check C\d+ exit=", l)]
res = {}
for l in lines:
    m = re.match(r"(\S+): check (C\d+) exit=(\d+) violations=(\d+)", l)
    res.setdefault(m.group(1), {})[m.group(2)] = (int(m.group(3)), int(m.group(4)), l)

seeds = sorted(s for s in os.listdir(os.path.join(ROOT, "seeded"))
               if os.path.isdir(os.path.join(ROOT, "seeded", s)) and not s.startswith("benign"))
missed, notrun, exit3 = [], [], []
for s in seeds:
    meta = json.load(open(os.path.join(ROOT, "seeded", s, "meta.json")))
    r = res.get(s, {})
    if meta["property"] not in r:
        notrun.append(s)
    elif r[meta["property"]][0] != 1:
        missed.append(s)
    exit3 += [f"{s}/{c}" for c, (e, v, _) in r.items() if e not in (0, 1)]

blines = []
for f in benign_files:
    blines += [l.rstrip("\n") for l in open(f, errors="replace") if re.match(r"benign\S*: C\d\d=", l)]
bmerged = {}
for l in blines:
    # later files override earlier ones check by check (a regression may re-run only the checks that changed)
    name, rest = l.split(":", 1)
    for tok in rest.split():
        c, _, st = tok.partition("=")
        bmerged.setdefault(name, {})[c] = st
bres = {n: n + ": " + " ".join(f"{c}={st}" for c, st in sorted(d.items())) for n, d in bmerged.items()}
noisy = [n for n, l in bres.items() if "EXIT" in l or "VIOL" in l.split(":", 1)[1].replace("/V0", "")]
benign = sorted(s for s in os.listdir(os.path.join(ROOT, "seeded"))
                if os.path.isdir(os.path.join(ROOT, "seeded", s)) and s.startswith("benign"))

out = ["# Seeded changes: last regression (quick tier; bin/run_seeded and bin/run_benign_cross via bin/run_par)", ""]
out.append(f"{len(seeds)} breaking changes (round 1, `orig-*` reversed repairs, `r2-*` ... `r8-*`; lines of checks not re-run in the last regression are carried over from the previous one): "
           f"{len(seeds) - len(missed) - len(notrun)} detected (exit 1 with a VIOLATION line) by the check of the "
           f"property they were written against; missed: {missed or 'none'}; not run: {notrun or 'none'}; "
           f"checks that ended in a harness error on a seeded tree: {exit3 or 'none'}.")
out.append("")
out.append(f"{len(benign)} behaviour-preserving changes (`benign-*` ... `benign5-*`), every check against "
           f"every change (the fifth round: its own check and two neighbours, all twenty for benign5-C20): {len(bres)} run, not quiet: {sorted(noisy) or 'none'}.")
out += ["", "```"]
for s in seeds:
    for c, (e, v, l) in sorted(res.get(s, {}).items()):
        out.append(l[:260])
out += ["```", "", "```"]
for n in sorted(bres):
    out.append(bres[n])
out += ["```", ""]
open(os.path.join(ROOT, "seeded", "RESULTS.md"), "w").write("\n".join(out))
print(f"seeds {len(seeds)} missed {len(missed)} notrun {len(notrun)} exit3 {len(exit3)}; benign {len(benign)} run {len(bres)} noisy {len(noisy)}")
for x in missed:
    print("MISSED", x)
for x in exit3:
    print("EXIT3", x)
for x in noisy:
    print("NOISY", bres[x][:200])
