#!/usr/bin/env python3
"""Regenerates MANIFEST.json from the table below (kept valid at all times)."""
import json
import os

ROOT = os.path.dirname(os.path.dirname(os.path.abspath(__file__)))

BASELINE = ("cd /repo && /venv/bin/python -m pytest -ra -q -p no:cacheprovider --timeout=900 "
            "--continue-on-collection-errors")

CHECKS = {}
NA = {}


def claim(pid, category, text, note, technique, design_ref, engine):
    CHECKS[pid] = dict(category=category, text=text, note=note, technique=technique,
                       design_ref=design_ref, engine=engine)


exec(open(os.path.join(ROOT, "bin", "claims.py")).read())

ALL = [f"C{i:02d}" for i in range(1, 21)]
checks = []
for pid in ALL:
    if pid not in CHECKS:
        continue
    c = CHECKS[pid]
    checks.append({
        "property_id": pid,
        "quick_cmd": f"./check {pid} --tier quick",
        "thorough_cmd": f"./check {pid} --tier thorough",
        "evidence_file": f"/verif/evidence/{pid}.json",
        "replay_cmd_template": f"./check {pid} --replay {{path}}",
        "engine": c["engine"],
        "level_claimed": {"category": c["category"], "text": c["text"],
                          "design_ref": c["design_ref"]},
        "level_note": c["note"],
        "technique": c["technique"],
    })
na = [{"property_id": p, "reason": NA.get(p, "check not built yet in this session; see DESIGN.md "
                                          "section 4 for the planned encoding")}
      for p in ALL if p not in CHECKS]
manifest = {
    "version": 1,
    "setup_cmd": "bin/ensure_env",
    "hooks": {
        "guard": "MEASURED_VERIF",
        "enable": "none needed: proxies, table models and stubs are installed from the harness "
                  "process by rebinding module attributes; /repo carries no instrumentation",
        "baseline_off_cmd": BASELINE,
        "source_commits": [],
        "add_only": True,
    },
    "engines": [
        {"name": "symnum", "path": "engine/symnum.py",
         "serves_properties": ["C03", "C04", "C05", "C06", "C07", "C08", "C10", "C11", "C12", "C14", "C15", "C17", "C18", "C19"],
         "kind_free_text": "shadow-symbolic execution of the real library functions on z3-backed "
                           "int/float/Decimal subclasses; DFS by re-execution; z3 discharges "
                           "per-path obligations"},
        {"name": "internmodel", "path": "engine/internmodel.py",
         "serves_properties": ["C01", "C02", "C11", "C13", "C15", "C19"],
         "kind_free_text": "intern tables and registries replaced by symbolic-membership map "
                           "models; real constructors/operators run on shadow instances with z3 Int exponents"},
        {"name": "parsertables", "path": "engine/parsertables.py",
         "serves_properties": ["C13", "C16", "C17"],
         "kind_free_text": "terminal regexes and LALR tables of the shipped and a freshly generated "
                           "parser translated to z3 (regex theory, finite functions, unrolled driver)"},
        {"name": "stepbmc", "path": "engine/stepbmc.py", "serves_properties": ["C08", "C20"],
         "kind_free_text": "step systems extracted from the AST of the real constructors / caches; "
                           "z3 searches schedules / histories; replay on real threads / processes"},
        {"name": "tracebmc", "path": "engine/tracebmc.py", "serves_properties": ["C20"],
         "kind_free_text": "step systems derived from executions of the real constructor under a scripted "
                           "intern table (all answer scripts by re-execution); z3 searches the interleavings"},
        {"name": "initbmc", "path": "engine/initbmc.py", "serves_properties": ["C20"],
         "kind_free_text": "attribute reads/writes, flag reads (scripted) and publish/obtain recorded from "
                           "executions of the real constructor through descriptors; z3 searches the schedules of a "
                           "creating and a finding thread for an object handed out half built"},
        {"name": "memokeys", "path": "engine/memokeys.py", "serves_properties": ["C08"],
         "kind_free_text": "memo-key soundness: value-keyed lru_cache wrappers called with one symbolic value "
                           "in two numeric types must answer as the unmemoised body"},
        {"name": "oracle", "path": "engine/oracle.py",
         "serves_properties": ["C04", "C05", "C06", "C09", "C10", "C14"],
         "kind_free_text": "declaration interception and exact Fraction unit sizes; QF_LRA potential-"
                           "feasibility query over all declarations (Farkas) with unsat cores"},
        {"name": "robust", "path": "engine/robust.py",
         "serves_properties": ["C%02d" % i for i in range(1, 21)],
         "kind_free_text": "what happens after a solver says `unknown`: the query is re-asked as its real "
                           "relaxation (only `unsat` transfers) and in fresh z3 contexts with other seeds and "
                           "budgets before the obligation is counted inconclusive; reported per run under "
                           "coverage.solver_escalations"},
    ],
    "checks": checks,
    "not_applicable": na,
    "notes": "Exit codes: 0 held (KNOWN-FINDING lines possible), 1 VIOLATION, 3 harness error "
             "(never a verdict). Known findings: /verif/known_findings.json. A check that claims level "
             "'proof' writes a proof-level evidence record only from a run in which every obligation "
             "was discharged; a run that leaves one undecided records itself at level 'other' "
             "(coverage.level_note).",
}
with open(os.path.join(ROOT, "MANIFEST.json"), "w") as f:
    json.dump(manifest, f, indent=1)
try:
    import jsonschema
    jsonschema.validate(manifest, json.load(open("/root/.vp/MANIFEST.schema.json")))
    print("MANIFEST.json valid;", len(checks), "checks,", len(na), "not applicable")
except ImportError:
    print("MANIFEST.json written (jsonschema not available)")
