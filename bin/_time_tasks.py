import sys, time, importlib
sys.path.insert(0, '/verif')
import multiprocessing as mp
def run(args):
    modn, t = args
    mod = importlib.import_module(modn)
    t0=time.time()
    try:
        r=mod.worker(t); return (round(time.time()-t0,1), 'ok', len(r['obs']), r['paths'], [v[0] for v in r['viol']])
    except BaseException as e:
        return (round(time.time()-t0,1),'ERR',str(e)[:300])
if __name__=="__main__":
    modn, tier, kind = sys.argv[1], sys.argv[2], sys.argv[3]
    mod = importlib.import_module(modn)
    ts=[t for t in mod.tasks_for(tier) if kind=='all' or t[0]==kind]
    with mp.get_context("spawn").Pool(16) as pool:
        res=[(t,pool.apply_async(run,((modn,t),))) for t in ts]
        for t,r in res:
            try: print(t, r.get(timeout=float(sys.argv[4]) if len(sys.argv)>4 else 100))
            except mp.TimeoutError: print(t, 'TIMEOUT')
        pool.terminate()
