"""Process-pool helper: every worker is a fresh interpreter (spawn) so registries
polluted by synthetic units never leak between task groups."""

from __future__ import annotations

import multiprocessing as mp
import os
import traceback
from typing import Any, Callable, Dict, Iterable, List, Sequence

from .symnum import HarnessError


def _call(args: Any) -> Any:
    modname, fname, task = args
    import importlib

    try:
        fn = getattr(importlib.import_module(modname), fname)
        return ("ok", fn(task))
    except HarnessError as e:
        return ("harness", f"{type(e).__name__}: {e}\n{traceback.format_exc()[-1500:]}")
    except BaseException as e:  # noqa
        return ("harness", f"worker crashed: {type(e).__name__}: {e}\n"
                           f"{traceback.format_exc()[-1500:]}")


def run(modname: str, fname: str, tasks: Sequence[Any], nproc: int = 0,
        maxtasksperchild: int = 0) -> List[Any]:
    """Map `modname.fname` over tasks in spawned workers; returns results in order.
    A HarnessError in a worker is re-raised here."""
    if not tasks:
        return []
    nproc = nproc or min(len(tasks), os.cpu_count() or 4, 16)
    ctx = mp.get_context("spawn")
    out: List[Any] = []
    with ctx.Pool(nproc, maxtasksperchild=maxtasksperchild or None) as pool:
        for status, val in pool.imap(_call, [(modname, fname, t) for t in tasks]):
            if status != "ok":
                pool.terminate()
                raise HarnessError(val)
            out.append(val)
    return out


def chunks(seq: Sequence[Any], n: int) -> List[List[Any]]:
    n = max(1, n)
    k = (len(seq) + n - 1) // n if seq else 0
    return [list(seq[i:i + k]) for i in range(0, len(seq), max(k, 1))] if seq else []
