"""Entry point shared by all checks: argument handling, self-test, exit codes."""

from __future__ import annotations

import argparse
import importlib
import os
import sys
import traceback

from . import report, robust, symnum


def main() -> int:
    ap = argparse.ArgumentParser()
    ap.add_argument("module")
    ap.add_argument("pid")
    ap.add_argument("--tier", default=os.environ.get("VERIF_TIER", "quick"),
                    choices=["quick", "thorough"])
    ap.add_argument("--replay", default=None)
    a = ap.parse_args()
    if a.replay:
        return report.replay_main(a.replay)
    import tempfile

    fd, elog = tempfile.mkstemp(prefix=f"verif-{a.pid}-escalations-")
    os.close(fd)
    os.environ[robust.LOG_ENV] = elog
    try:
        return _run(a)
    finally:
        try:
            os.unlink(elog)
        except OSError:
            pass


def _run(a: argparse.Namespace) -> int:
    try:
        n = symnum.selftest()
        mod = importlib.import_module(a.module)
        rc = mod.main(a.tier, selftest_cases=n)
        return rc
    except symnum.HarnessError as e:
        print(f"HARNESS-ERROR {a.pid}: {type(e).__name__}: {e}")
        traceback.print_exc()
        return report.EXIT_HARNESS
    except Exception as e:  # noqa
        print(f"HARNESS-ERROR {a.pid}: unexpected {type(e).__name__}: {e}")
        traceback.print_exc()
        return report.EXIT_HARNESS


if __name__ == "__main__":
    sys.exit(main())
