"""Independent oracle for unit sizes.

The harness wraps `conversions.equate` / `conversions.translate` *before* the unit
modules are imported, records every declaration in source order (including ones a
later declaration overwrites in `_ratios`), and solves each base unit's size by exact
`Fraction` arithmetic along the declarations -- never through the library's planner.

`sizes` are relative to an anchor per connected component of the declaration graph;
only ratios of sizes of equal-dimension units are ever used.
"""

from __future__ import annotations

import importlib
import math
import sys
import time
from fractions import Fraction
from typing import Any, Dict, List, Optional, Sequence, Tuple

ALL_MODULES = [
    "si", "us", "avoirdupois", "troy", "energy", "astronomical", "natural", "metric",
    "iec", "iso", "eu", "fff", "apocrypha", "computing", "acoustics", "electronics",
    "music", "physics", "geometry",
]


class Decl:
    __slots__ = ("kind", "a_unit", "a_mag", "b_unit", "b_mag", "where", "index", "text")

    def __init__(self, kind: str, a_unit: Any, a_mag: Any, b_unit: Any, b_mag: Any,
                 where: str, index: int) -> None:
        self.kind, self.a_unit, self.a_mag = kind, a_unit, a_mag
        self.b_unit, self.b_mag, self.where, self.index = b_unit, b_mag, where, index
        self.text = ""

    def describe(self) -> str:
        if self.kind == "translate":
            return f"{self.where}: {uname(self.a_unit)} scale with zero at {self.b_mag!r} {uname(self.b_unit)}"
        return f"{self.where}: {self.a_mag!r} {uname(self.a_unit)} = {self.b_mag!r} {uname(self.b_unit)}"

    def signature(self) -> str:
        return f"{uname(self.a_unit)}={float(self.b_mag) / float(self.a_mag):.12g}*{uname(self.b_unit)}"


def uname(u: Any) -> str:
    try:
        return u.name or str(u)
    except Exception:
        return repr(u)


_installed: Optional["Recorder"] = None


class Recorder:
    def __init__(self) -> None:
        self.decls: List[Decl] = []

    def install(self) -> None:
        import measured
        from measured import conversions

        global _installed
        if _installed is not None:
            raise RuntimeError("recorder already installed")
        _installed = self
        real_equate, real_translate = conversions.equate, conversions.translate
        rec = self

        def where() -> str:
            f = sys._getframe(2)
            while f is not None and f.f_code.co_filename.endswith(
                    ("measured/__init__.py", "measured/conversions.py")):
                f = f.f_back
            if f is None:
                return "?"
            fn = f.f_code.co_filename
            return f"{fn.split('/')[-1]}:{f.f_lineno}"

        def equate(a: Any, b: Any) -> None:
            w = where()
            real_equate(a, b)
            ua, ub = a.unprefixed(), b.unprefixed()
            rec.decls.append(Decl("equate", ua.unit, ua.magnitude, ub.unit, ub.magnitude, w,
                                  len(rec.decls)))

        def translate(scale: Any, zero: Any) -> None:
            w = where()
            real_translate(scale, zero)
            rec.decls.append(Decl("translate", scale, 1, zero.unit, zero.magnitude, w,
                                  len(rec.decls)))

        conversions.equate = equate
        conversions.translate = translate
        self._undo = (conversions, real_equate, real_translate)

    def uninstall(self) -> None:
        global _installed
        conv, e, t = self._undo
        conv.equate, conv.translate = e, t
        _installed = None


def load(modules: Optional[Sequence[str]] = None) -> "Oracle":
    """Import `measured`, install the recorder, import the unit modules."""
    import measured  # noqa: F401  (core only; no unit module is imported by it)

    already = [m for m in sys.modules if m.startswith("measured.") and
               m.split(".")[1] in ALL_MODULES]
    if already:
        raise RuntimeError(f"unit modules imported before the recorder: {already}")
    rec = Recorder()
    rec.install()
    mods = list(modules) if modules is not None else ["systems"]
    for m in mods:
        importlib.import_module(f"measured.{m}")
    return Oracle(rec.decls)


def frac(x: Any) -> Fraction:
    return Fraction(x)


class Oracle:
    """Sizes of base units (units whose factors are `{self: 1}`), solved from the
    declarations by exact arithmetic; set-valued where declarations disagree."""

    def __init__(self, decls: List[Decl]) -> None:
        self.decls = decls
        self.offset_units: set = set()
        for d in decls:
            if d.kind == "translate":
                self.offset_units.add(d.a_unit)
        self.readings: List[Dict[Any, Tuple[Fraction, Tuple, bool]]] = []
        self.dropped: List[Optional[int]] = []
        self.readings.append(self._solve(self.equations(), None))
        self.dropped.append(None)

    # -- equations ----------------------------------------------------------------
    def equations(self) -> List[Tuple[Dict[Any, int], Fraction, Decl]]:
        """Each equate declaration as  prod base^coef = value  (coef: a-side minus b-side;
        value = b_mag / a_mag), i.e.  a_mag * A = b_mag * B  =>  A / B = b_mag / a_mag."""
        eqs = []
        for d in self.decls:
            if d.kind != "equate":
                # a scale shares the degree size of its zero unit
                coefs = {d.a_unit: 1}
                for f, e in d.b_unit.factors.items():
                    coefs[f] = coefs.get(f, 0) - e
                eqs.append(({k: v for k, v in coefs.items() if v}, Fraction(1), d))
                continue
            coefs: Dict[Any, int] = {}
            for f, e in d.a_unit.factors.items():
                coefs[f] = coefs.get(f, 0) + e
            for f, e in d.b_unit.factors.items():
                coefs[f] = coefs.get(f, 0) - e
            from measured import One

            coefs = {k: v for k, v in coefs.items() if v and k is not One}
            if float(d.a_mag) == 0 or float(d.b_mag) == 0:
                continue
            eqs.append((coefs, frac(d.b_mag) / frac(d.a_mag), d))
        return eqs

    def _solve(self, eqs: List[Tuple[Dict[Any, int], Fraction, Decl]],
               drop: Optional[int]) -> Dict[Any, Tuple[Fraction, Tuple, bool]]:
        """size[base] = (value, gauge, exact).  `gauge` records which anchors (free
        choices of scale) the value is relative to; two units are comparable iff their
        gauges are equal.  The first base unit of every fundamental dimension is an
        anchor; further anchors are introduced only when no declaration can resolve
        anything any more.  A declaration resolves a base unit when it is its only
        unknown."""
        from measured import Unit

        size: Dict[Any, Tuple[Fraction, Tuple, bool]] = {}
        nanchor = [0]

        from measured import Number

        def anchor(u: Any) -> None:
            if u.dimension is Number:
                # dimensionless base units (radian, ...) count as the pure number 1, the SI
                # convention; they stay distinguishable as objects, not as sizes
                size[u] = (Fraction(1), (), True)
                return
            size[u] = (Fraction(1), ((nanchor[0], Fraction(1)),), True)
            nanchor[0] += 1

        seen_dims = set()
        bases = [u for u in Unit._known.values() if u.factors == {u: 1}]
        for u in bases:
            ex = u.dimension.exponents
            if sum(abs(e) for e in ex) == 1 and max(ex) == 1 and u.dimension not in seen_dims \
                    and u not in self.offset_units:
                seen_dims.add(u.dimension)
                anchor(u)
        pending = [e for e in eqs if e[2].index != drop]
        while pending:
            progress = False
            rest = []
            for coefs, val, d in pending:
                unknown = [u for u in coefs if u not in size]
                if not unknown:
                    continue  # redundant: consistency is C09's business
                if len(unknown) > 1:
                    rest.append((coefs, val, d))
                    continue
                u = unknown[0]
                acc, exact = val, True
                gauge: Dict[int, Fraction] = {}
                for k, e in coefs.items():
                    if k is u:
                        continue
                    s, g, ex = size[k]
                    acc = acc / (s ** e)
                    exact = exact and ex
                    for a_id, a_e in g:
                        gauge[a_id] = gauge.get(a_id, Fraction(0)) - a_e * e
                e_u = coefs[u]
                if e_u == 1:
                    v = acc
                elif e_u == -1:
                    v = 1 / acc
                else:
                    v = Fraction(float(acc) ** (1.0 / e_u))
                    exact = False
                gz = tuple(sorted((a, x / e_u) for a, x in gauge.items() if x != 0))
                size[u] = (v, gz, exact)
                progress = True
            if not progress:
                anchored = False
                for coefs, val, d in rest:
                    unknown = [u for u in coefs if u not in size]
                    if len(unknown) >= 2:
                        neg = [u for u in unknown if coefs[u] < 0] or unknown
                        anchor(neg[0])
                        anchored = True
                        break
                if not anchored:
                    break
            pending = rest
        return size

    # -- sizes ----------------------------------------------------------------------
    def prefix_value(self, prefix: Any) -> Tuple[Fraction, bool]:
        if prefix.base == 0:
            return Fraction(1), True
        e = prefix.exponent
        if isinstance(e, int):
            return Fraction(prefix.base) ** e, True
        return Fraction(float(prefix.base) ** float(e)), False

    def size(self, unit: Any, reading: int = 0) -> Optional[Tuple[Fraction, Tuple, bool]]:
        """(size, gauge, exact) or None when some factor is unresolved."""
        from measured import One

        sizes = self.readings[reading]
        val, exact = self.prefix_value(unit.prefix)
        gauge: Dict[int, Fraction] = {}
        for f, e in unit.factors.items():
            if f is One:
                continue
            if f not in sizes:
                return None
            s, g, ex = sizes[f]
            val *= s ** e
            exact = exact and ex
            for a_id, a_e in g:
                gauge[a_id] = gauge.get(a_id, Fraction(0)) + a_e * e
        return val, tuple(sorted((a, x) for a, x in gauge.items() if x != 0)), exact

    def ratio(self, src: Any, dst: Any, reading: int = 0) -> Optional[Tuple[Fraction, bool]]:
        """size(src)/size(dst): the factor by which a magnitude in `src` is multiplied to
        express it in `dst`; None if unresolved."""
        a, b = self.size(src, reading), self.size(dst, reading)
        if a is None or b is None or a[1] != b[1]:
            return None
        return a[0] / b[0], a[2] and b[2]

    def ratios(self, src: Any, dst: Any) -> List[Tuple[Fraction, bool, Optional[int]]]:
        out = []
        for i in range(len(self.readings)):
            r = self.ratio(src, dst, i)
            if r is not None:
                out.append((r[0], r[1], self.dropped[i]))
        return out

    def add_reading_without(self, decl_index: int) -> None:
        if decl_index in self.dropped:
            return
        self.readings.append(self._solve(self.equations(), decl_index))
        self.dropped.append(decl_index)

    def degree(self, *units: Any) -> int:
        g = 0
        for u in units:
            g += sum(abs(e) for e in u.factors.values())
        return max(g, 1)

    # -- C09: consistency as potential feasibility --------------------------------------
    def consistency(self, tol_per_degree: float = 1e-5, timeout_ms: int = 60000
                    ) -> Dict[str, Any]:
        """exists x. AND_e |A_e x - w_e| <= tol*g_e  over real potentials x_u = ln size(u).

        Satisfiable iff no integer combination of declarations whose unit coefficients
        cancel has a residual larger than the sum of its edges' tolerances (Farkas).  On
        `unsat` the unsat core, minimised by deletion, is a violating set of declarations;
        the last of them in source order is dropped and the query repeated.
        """
        import z3

        def _q(v: float) -> Any:
            f = Fraction(v)
            return z3.Q(f.numerator, f.denominator)

        eqs = self.equations()
        xs: Dict[Any, Any] = {}

        def x(u: Any) -> Any:
            if u not in xs:
                xs[u] = z3.Real(f"x{len(xs)}")
            return xs[u]

        cons = []
        for coefs, val, d in eqs:
            if not coefs:
                # pure number statement such as 1 = 1
                lnv = math.log(val.numerator) - math.log(val.denominator)
                cons.append((d, None, lnv, 1))
                continue
            lhs = z3.Sum([z3.IntVal(c) * x(u) for u, c in coefs.items()])
            lnv = math.log(val.numerator) - math.log(val.denominator)
            g = sum(abs(e) for e in d.a_unit.factors.values()) + \
                sum(abs(e) for e in d.b_unit.factors.values())
            cons.append((d, lhs, lnv, max(g, 1)))
        active = {d.index for d, _, _, _ in cons}
        cores: List[List[Decl]] = []
        queries = 0
        solver_s = 0.0
        eps = 1e-12  # width of the ln enclosure (most permissive end is used)
        while True:
            s = z3.Solver()
            s.set("timeout", timeout_ms)
            s.set("unsat_core", True)
            tracked: Dict[str, Decl] = {}
            for d, lhs, lnv, g in cons:
                if d.index not in active:
                    continue
                tol = math.log1p(tol_per_degree * g) + eps
                lo, hi = _q(lnv - tol), _q(lnv + tol)
                if lhs is None:
                    if not (lnv - tol <= 0 <= lnv + tol):
                        cores.append([d])
                        active.discard(d.index)
                    continue
                name = f"d{d.index}"
                tracked[name] = d
                s.add(z3.Implies(z3.Bool(name), z3.And(lhs >= lo, lhs <= hi)))
            t0 = time.time()
            r = str(s.check(*[z3.Bool(n) for n in tracked]))
            solver_s += time.time() - t0
            queries += 1
            if r == "sat":
                break
            if r != "unsat":
                return {"status": "unknown", "cores": cores, "queries": queries,
                        "solver_s": solver_s, "declarations": len(cons),
                        "potentials": len(xs)}
            core = [tracked[str(c)] for c in s.unsat_core()]
            # minimise by deletion
            core_names = [f"d{d.index}" for d in core]
            i = 0
            while i < len(core_names):
                trial = core_names[:i] + core_names[i + 1:]
                t0 = time.time()
                rr = str(s.check(*[z3.Bool(n) for n in trial]))
                solver_s += time.time() - t0
                queries += 1
                if rr == "unsat":
                    core_names = trial
                else:
                    i += 1
            core = sorted((tracked[n] for n in core_names), key=lambda d: d.index)
            cores.append(core)
            active.discard(core[-1].index)
        return {"status": "decided", "cores": cores, "queries": queries,
                "solver_s": solver_s, "declarations": len(cons), "potentials": len(xs)}


def cycle_residual(decls: List[Decl], tol_per_degree: float = 1e-5) -> Optional[Dict[str, Any]]:
    """Pure-Python (no solver) confirmation of one inconsistent core: find the integer
    combination of the given declarations whose unit coefficients cancel and compare its
    log-residual with the sum of the edges' tolerances."""
    orc = Oracle.__new__(Oracle)
    orc.decls = decls
    eqs = [e for e in orc.equations()]
    units: List[Any] = []
    for coefs, _, _ in eqs:
        for u in coefs:
            if u not in units:
                units.append(u)
    n = len(eqs)
    # nullspace of A^T (units x declarations): solve sum_e lam_e * A[e][u] = 0 for all u
    rows = [[Fraction(eqs[e][0].get(u, 0)) for e in range(n)] for u in units]
    piv_cols: List[int] = []
    r = 0
    for c in range(n):
        pr = next((i for i in range(r, len(rows)) if rows[i][c] != 0), None)
        if pr is None:
            continue
        rows[r], rows[pr] = rows[pr], rows[r]
        pv = rows[r][c]
        rows[r] = [v / pv for v in rows[r]]
        for i in range(len(rows)):
            if i != r and rows[i][c] != 0:
                f = rows[i][c]
                rows[i] = [a - f * b for a, b in zip(rows[i], rows[r])]
        piv_cols.append(c)
        r += 1
    free = [c for c in range(n) if c not in piv_cols]
    if not free:
        return None
    best = None
    for fc in free:
        lam = [Fraction(0)] * n
        lam[fc] = Fraction(1)
        for i, pc in enumerate(piv_cols):
            lam[pc] = -rows[i][fc]
        residual = 0.0
        allowance = 0.0
        for (coefs, val, d), l in zip(eqs, lam):
            g = sum(abs(e) for e in d.a_unit.factors.values()) + \
                sum(abs(e) for e in d.b_unit.factors.values())
            residual += float(l) * (math.log(val.numerator) - math.log(val.denominator))
            allowance += abs(float(l)) * math.log1p(tol_per_degree * max(g, 1))
        cand = {"lambda": [str(l) for l in lam], "residual": abs(residual),
                "allowance": allowance, "inconsistent": abs(residual) > allowance}
        if best is None or cand["inconsistent"]:
            best = cand
    return best
