"""Memo-key soundness: a memoised function may only conflate calls it cannot tell apart.

`functools.lru_cache` looks a call up by hash() and == of its arguments.  The library's own
memoised functions are keyed by interned objects (units, dimensions, prefixes), for which ==
is identity.  A memo keyed by a *value* -- a magnitude, or a Quantity, which compares and
hashes by magnitude -- conflates 4, 4.0 and Decimal(4): the second asker receives what was
computed for the first, in the first asker's numeric type (and, for Decimal against float,
value).  That makes a result depend on what was asked earlier in the process.

What is decided here, per memoised function found in the source (AST) and per ordered pair of
numeric kinds (k1, k2):

    clear the memo; call f with the value in kind k1; call f with the same value in kind k2
    (through the real lru_cache wrapper: real hash, real ==); compare with f.__wrapped__ on
    the k2 arguments.

The value is symbolic; where the wrapper hashes it, E1 pins it (solver-driven concretisation,
see SymMixin.__hash__), and the comparison of the two results is a z3 query under the path
condition.  Functions whose parameters are all interned objects are discharged by that
observation alone (their parameters' classes define no value equality: checked on the classes).
"""

from __future__ import annotations

import ast
import inspect
from decimal import Decimal
from typing import Any, Dict, List, Optional, Tuple

import z3

from engine import symnum
from engine.symnum import explore, mk, real

KINDS = ("int", "float", "dec")
VALUE_WORDS = ("Numeric", "int", "float", "Decimal", "Fraction", "Number", "complex")


def cached_functions(path: str, modname: str) -> List[Tuple[str, Optional[str], str]]:
    """(module, class or None, function name) of every memoised def in the file."""
    tree = ast.parse(open(path).read())
    out: List[Tuple[str, Optional[str], str]] = []

    def is_memo(fn: ast.AST) -> bool:
        for d in getattr(fn, "decorator_list", []):
            txt = ast.unparse(d)
            head = txt.split("(")[0].split(".")[-1]
            if head in ("lru_cache", "cache", "cached_property"):
                return True
        return False

    for node in tree.body:
        if isinstance(node, (ast.FunctionDef, ast.AsyncFunctionDef)) and is_memo(node):
            out.append((modname, None, node.name))
        elif isinstance(node, ast.ClassDef):
            for sub in node.body:
                if isinstance(sub, (ast.FunctionDef, ast.AsyncFunctionDef)) and is_memo(sub):
                    out.append((modname, node.name, sub.name))
    return out


def resolve(modname: str, cls: Optional[str], name: str) -> Any:
    import importlib

    mod = importlib.import_module(modname)
    owner = getattr(mod, cls) if cls else mod
    f = inspect.getattr_static(owner, name)
    if isinstance(f, (staticmethod, classmethod)):
        f = f.__func__
    return f


def classify(f: Any, cls: Optional[str]) -> List[Tuple[str, str]]:
    """[(parameter, 'value' | 'quantity' | 'identity:<class>' | 'other')]"""
    wrapped = getattr(f, "__wrapped__", None)
    if wrapped is None:
        return []
    out = []
    for pname, p in inspect.signature(wrapped).parameters.items():
        ann = p.annotation if isinstance(p.annotation, str) else (
            "" if p.annotation is inspect.Parameter.empty else getattr(p.annotation, "__name__", str(p.annotation)))
        ann = ann.strip("'\"")
        if pname in ("self", "cls") and cls:
            ann = cls
        if "Quantity" in ann or "Measurement" in ann or "Level" in ann:
            out.append((pname, "quantity"))
        elif any(w == ann or w in ann.replace("[", " ").replace("]", " ").replace(",", " ").split()
                 for w in VALUE_WORDS):
            out.append((pname, "value"))
        elif ann in ("Unit", "Dimension", "Prefix", "Logarithm", "LogarithmicUnit", "IdentityPrefix"):
            out.append((pname, "identity:" + ann))
        else:
            out.append((pname, "other:" + ann))
    return out


def identity_keyed(clsname: str) -> bool:
    """== on the class is identity on interned instances: either it defines no __eq__, or
    instances are interned by their constructor arguments (a _known table on the class)."""
    import measured

    c = getattr(measured, clsname, None)
    if c is None:
        return False
    return c.__eq__ is object.__eq__ or hasattr(c, "_known")


def describe(r: Any) -> Any:
    from measured import Quantity

    if isinstance(r, Quantity):
        return ("Quantity", describe(r.magnitude), id(r.unit))
    if symnum.is_sym(r):
        return ("num", symnum.kind_of(r), real(r.t))
    if isinstance(r, bool):
        return ("bool", r)
    if isinstance(r, (int, float, Decimal)):
        return ("num", symnum.kind_of(r), symnum.q(r))
    if isinstance(r, (tuple, list)):
        return (type(r).__name__,) + tuple(describe(x) for x in r)
    return ("object", type(r).__name__, id(r))


def differs(a: Any, b: Any, cond: z3.BoolRef, P: symnum.Prover) -> Optional[str]:
    """None when the two descriptions agree for every value on the path."""
    if type(a) is not type(b) or (isinstance(a, tuple) and (len(a) != len(b) or a[0] != b[0])):
        return f"{a!r} against {b!r}"
    if not isinstance(a, tuple):
        return None if a == b else f"{a!r} against {b!r}"
    if a[0] == "num":
        if a[1] != b[1]:
            return f"a {a[1]} where the arguments alone give a {b[1]}"
        st, _ = P.check(cond, a[2] != b[2])
        return None if st == "unsat" else f"value {a[2]} against {b[2]} ({st})"
    for x, y in zip(a[1:], b[1:]):
        d = differs(x, y, cond, P)
        if d:
            return d
    return None


UNIT_POOL = ["measured.us.Foot", "measured.si.Meter", "measured.us.Inch"]


def build_args(params: List[Tuple[str, str]], kind: str, n: z3.ArithRef) -> Tuple[List[Any], List[str]]:
    """Arguments with the first value parameter = the symbolic value in `kind`; code for replay."""
    import measured
    import measured.systems  # noqa

    args: List[Any] = []
    code: List[str] = []
    units = iter(UNIT_POOL)
    used_value = False
    for pname, role in params:
        if role == "quantity":
            uc = next(units)
            u = eval(uc, {"measured": measured})
            if not used_value:
                args.append(measured.Quantity(mk(kind, n if kind == "int" else real(n)), u))
                code.append(f"measured.Quantity(VALUE, {uc})")
                used_value = True
            else:
                args.append(measured.Quantity(2, u))
                code.append(f"measured.Quantity(2, {uc})")
        elif role == "value":
            if not used_value:
                args.append(mk(kind, n if kind == "int" else real(n)))
                code.append("VALUE")
                used_value = True
            else:
                args.append(2)
                code.append("2")
        elif role == "identity:Unit":
            uc = next(units)
            args.append(eval(uc, {"measured": measured}))
            code.append(uc)
        elif role == "identity:Dimension":
            args.append(measured.Length)
            code.append("measured.Length")
        elif role == "identity:Prefix":
            import measured.si

            args.append(measured.si.Kilo)
            code.append("measured.si.Kilo")
        else:
            raise symnum.NotEncodable(f"no argument model for parameter {pname} ({role})")
    return args, code


REPLAY = """
from decimal import Decimal
import importlib
mod = importlib.import_module({modname!r})
f = getattr(mod, {cls!r}).__dict__[{name!r}] if {cls!r} else getattr(mod, {name!r})
def args(VALUE):
    return [{argcode}]
first, second = {v1}, {v2}
f.cache_clear()
f(*args(first))
got = f(*args(second))
want = f.__wrapped__(*args(second))
f.cache_clear()
alone = f(*args(second))
def show(r):
    m = getattr(r, 'magnitude', r)
    return (type(m).__name__, repr(r))
print('asked with', repr(first), 'first, then with', repr(second), '->', show(got))
print('asked with', repr(second), 'alone ->', show(alone), ' (unmemoised:', show(want), ')')
if show(got) != show(alone):
    print('REPRODUCED: the answer depends on what was asked earlier in the process'); sys.exit(1)
sys.exit(0)
"""


def check(rep: Any, files: List[Tuple[str, str]], imports: str) -> None:
    """files: [(path, module name)].  Obligations and violations are recorded on `rep`."""
    P = symnum.Prover()
    n = z3.Int("memo_n")
    for path, modname in files:
        for (mn, cls, name) in cached_functions(path, modname):
            qual = f"{mn}.{cls + '.' if cls else ''}{name}"
            f = resolve(mn, cls, name)
            params = classify(f, cls)
            key = ("memo-key", qual)
            if not hasattr(f, "cache_clear") or not params and not hasattr(f, "__wrapped__"):
                rep.ob("unknown", f"memo-key:{qual}: not an lru_cache wrapper", key)
                continue
            valued = [p for p in params if p[1] in ("value", "quantity")]
            if not valued:
                bad = [r for _, r in params if r.startswith("other:")
                       or (r.startswith("identity:") and not identity_keyed(r.split(":")[1]))]
                rep.ob("unknown" if bad else "unsat",
                       f"memo-key:{qual}: keyed by interned objects only {[r for _, r in params]}", key)
                continue
            for k1 in KINDS:
                for k2 in KINDS:
                    if k1 == k2:
                        continue
                    k = key + (k1, k2)
                    holder: Dict[str, Any] = {}

                    def fn() -> Any:
                        f.cache_clear()
                        try:
                            a1, code = build_args(params, k1, n)
                            holder["code"] = code
                            f(*a1)
                            a2, _ = build_args(params, k2, n)
                            got = f(*a2)
                            a3, _ = build_args(params, k2, n)
                            want = f.__wrapped__(*a3)
                            return describe(got), describe(want)
                        finally:
                            f.cache_clear()

                    try:
                        with symnum.Shims():
                            ex = explore(fn, max_paths=32)
                    except symnum.NotEncodable as e:
                        rep.ob("unknown", f"memo-key:{qual}/{k1},{k2}: {e}", k)
                        continue
                    rep.merge_stats(queries=ex.queries, solver_s=ex.solver_s, paths=len(ex.paths))
                    verdict, why, cond = "unsat", "", None
                    for p in ex.paths:
                        if p.exc is not None:
                            if isinstance(p.exc, symnum.HarnessError):
                                verdict, why = "unknown", str(p.exc)
                            continue
                        d = differs(p.result[0], p.result[1], p.cond, P)
                        if d:
                            verdict, why, cond = "sat", d, p.cond
                            break
                    rep.ob(verdict, f"memo-key:{qual}/{k1},{k2}" + (f": {why}" if why else ""), k)
                    if verdict == "sat":
                        m = P.shaped_model([cond], [n]) or {}
                        v = int(m.get("memo_n", 4))
                        lits = {"int": f"{v}", "float": f"{float(v)!r}", "dec": f"Decimal({v})"}
                        rep.violation(
                            f"C08:memo-key:{qual}",
                            f"{qual} is memoised by value: asked with the {k1} {v} first, the {k2} {v} "
                            f"receives {why}",
                            imports + REPLAY.format(modname=mn, cls=cls, name=name,
                                                    argcode=", ".join(holder.get("code", [])),
                                                    v1=lits[k1], v2=lits[k2]))
                        break
                else:
                    continue
                break
