"""E1 `symnum` -- shadow-symbolic execution of the *real* library functions.

Numeric proxies (`SInt(int)`, `SReal(float)`, `SDec(Decimal)`) carry a z3 term and
are subclasses of the three classes in `measured.NUMERIC_CLASSES`, so the library's
own `isinstance` dispatch takes the same branches as for ordinary numbers.  The only
place a path forks is `SBool.__bool__` (and the explicit "may raise" forks:
division by a possibly-zero term, roots of a possibly-negative term).  Exploration
is depth-first by re-execution with a decision trail.

Everything here is exact real / integer arithmetic over the *binary* constants that
are actually present in the running code (a Python float `c` met by a proxy is
lifted as `Fraction(c)`); IEEE rounding is outside every claim made with it.
"""

from __future__ import annotations

import math as _math
import time
from decimal import Decimal
from fractions import Fraction
from typing import Any, Callable, Dict, List, Optional, Sequence, Tuple

import z3

from . import robust

SENTINEL_INT = 10**40 + 7


class HarnessError(BaseException):
    """The machinery (not the library) is wrong or out of its depth: never a verdict."""


class NotEncodable(HarnessError):
    pass


class PathLimit(HarnessError):
    pass


# --------------------------------------------------------------------------------------
# context


class Ctx:
    """One exploration: a solver, a path condition, a decision trail."""

    current: Optional["Ctx"] = None

    def __init__(self, query_timeout_ms: int = 10000) -> None:
        self.solver = z3.Solver()
        self.solver.set("timeout", query_timeout_ms)
        self.query_timeout_ms = query_timeout_ms
        self.trail: List[List[Any]] = []  # [decision, flippable]
        self.pos = 0
        self.pc: List[z3.BoolRef] = []
        self.axioms: List[z3.BoolRef] = []
        self.fresh_counter = 0
        self.queries = 0
        self.solver_s = 0.0
        self.unknowns = 0
        self.stubs_used: set = set()
        self.notes: List[str] = []
        self._axiom_keys: set = set()

    # -- solver helpers
    def check(self, *extra: z3.BoolRef) -> str:
        t0 = time.time()
        self.queries += 1
        if robust.forced():
            self.solver.set("timeout", 1)
        r = self.solver.check(*extra)
        s = str(r)
        if s == "unknown":
            # scheduling-dependent solver state: re-ask before anything is concluded from it
            s, _ = robust.escalate(list(self.solver.assertions()) + list(extra),
                                   self.query_timeout_ms, want_model=False, light=True)
        self.solver_s += time.time() - t0
        if s == "unknown":
            self.unknowns += 1
        return s

    def assume(self, cond: z3.BoolRef) -> None:
        self.pc.append(cond)
        self.solver.add(cond)

    def axiom(self, cond: z3.BoolRef, key: Any = None) -> None:
        if key is not None:
            if key in self._axiom_keys:
                return
            self._axiom_keys.add(key)
        self.axioms.append(cond)
        self.solver.add(cond)

    def fresh(self, prefix: str, sort: str = "real") -> z3.ArithRef:
        self.fresh_counter += 1
        name = f"{prefix}!{self.fresh_counter}"
        return z3.Real(name) if sort == "real" else z3.Int(name)

    # -- the fork
    def decide(self, cond: z3.BoolRef) -> bool:
        cond = z3.simplify(cond)
        if z3.is_true(cond):
            return True
        if z3.is_false(cond):
            return False
        if self.pos < len(self.trail):
            d = self.trail[self.pos][0]
            self.pos += 1
            self.assume(cond if d else z3.Not(cond))
            return d
        can_t = self.check(cond)
        can_f = self.check(z3.Not(cond))
        if can_t == "unknown" or can_f == "unknown":
            # treat unknown as feasible: explores a superset of the real paths; the
            # obligations asked later carry the path condition, so this is sound.
            can_t = "sat" if can_t != "unsat" else can_t
            can_f = "sat" if can_f != "unsat" else can_f
        if can_t == "sat" and can_f == "sat":
            self.trail.append([True, True])
            d = True
        elif can_t == "sat":
            self.trail.append([True, False])
            d = True
        elif can_f == "sat":
            self.trail.append([False, False])
            d = False
        else:
            raise HarnessError("path condition became infeasible")
        self.pos += 1
        self.assume(cond if d else z3.Not(cond))
        return d

    def backtrack(self) -> bool:
        while self.trail and not self.trail[-1][1]:
            self.trail.pop()
        if not self.trail:
            return False
        self.trail[-1] = [not self.trail[-1][0], False]
        return True

    def reset_path(self) -> None:
        self.solver.reset()
        self.solver.set("timeout", self.query_timeout_ms)
        self.pc = []
        self.pos = 0
        self.fresh_counter = 0
        self._axiom_keys = set()
        self.axioms = []
        self.__dict__.pop("log_calls", None)
        self.__dict__.pop("_mono", None)
        self.__dict__.pop("sstrs", None)


def ctx() -> Ctx:
    c = Ctx.current
    if c is None:
        raise HarnessError("symbolic value used outside an exploration")
    return c


# --------------------------------------------------------------------------------------
# term helpers


def q(c: Any) -> z3.ArithRef:
    """Exact z3 constant of a concrete Python number."""
    if isinstance(c, bool):
        return z3.IntVal(int(c))
    if isinstance(c, int):
        return z3.IntVal(c)
    if isinstance(c, float):
        if c != c or c in (float("inf"), float("-inf")):
            raise NotEncodable(f"non-finite constant {c!r} met a symbolic value")
        f = Fraction(c)
        return z3.Q(f.numerator, f.denominator)
    if isinstance(c, Decimal):
        if not c.is_finite():
            raise NotEncodable(f"non-finite Decimal {c!r} met a symbolic value")
        f = Fraction(c)
        return z3.Q(f.numerator, f.denominator)
    if isinstance(c, Fraction):
        return z3.Q(c.numerator, c.denominator)
    raise NotEncodable(f"cannot lift {type(c).__name__} {c!r}")


def is_sym(x: Any) -> bool:
    return isinstance(x, (SInt, SReal, SDec))


def term(x: Any) -> z3.ArithRef:
    if is_sym(x):
        return x.t
    return q(x)


def real(t: z3.ArithRef) -> z3.ArithRef:
    return z3.ToReal(t) if t.sort() == z3.IntSort() else t


def kind_of(x: Any) -> str:
    if isinstance(x, (SDec, Decimal)):
        return "dec"
    if isinstance(x, (SReal, float)):
        return "float"
    if isinstance(x, (SInt, int)):
        return "int"
    raise NotEncodable(f"not numeric: {type(x).__name__}")


def mk(kind: str, t: z3.ArithRef) -> Any:
    if kind == "int":
        if t.sort() != z3.IntSort():
            raise HarnessError("int proxy with a real term")
        return SInt(t)
    if kind == "float":
        return SReal(real(t))
    if kind == "dec":
        return SDec(real(t))
    raise HarnessError(kind)


def _result_kind(a: Any, b: Any, op: str) -> str:
    ka, kb = kind_of(a), kind_of(b)
    if "dec" in (ka, kb):
        if "float" in (ka, kb):
            raise TypeError(
                "unsupported operand type(s) for %s: 'decimal.Decimal' and 'float'" % op
            )
        return "dec"
    if "float" in (ka, kb):
        return "float"
    return "int"


# --------------------------------------------------------------------------------------
# SBool


class SBool:
    __slots__ = ("t",)

    def __init__(self, t: z3.BoolRef) -> None:
        self.t = t

    def __bool__(self) -> bool:
        return ctx().decide(self.t)

    def __repr__(self) -> str:
        return f"SBool({self.t})"

    # identity comparisons of SBool objects are meaningless: forbid silently wrong use
    def __eq__(self, other: Any) -> Any:
        return SBool(bool_term(self) == bool_term(other))

    def __ne__(self, other: Any) -> Any:
        return SBool(bool_term(self) != bool_term(other))

    __hash__ = None  # type: ignore

    def __invert__(self) -> "SBool":
        return SBool(z3.Not(self.t))


def bool_term(v: Any) -> z3.BoolRef:
    """Normalise an observable truth value to a z3 Boolean term."""
    if isinstance(v, SBool):
        return v.t
    if isinstance(v, bool):
        return z3.BoolVal(v)
    if is_sym(v):
        return v.t != 0
    if v is NotImplemented:
        raise NotEncodable("NotImplemented is not a truth value")
    if isinstance(v, (int, float)):
        return z3.BoolVal(bool(v))
    raise NotEncodable(f"not a truth value: {type(v).__name__}")


# --------------------------------------------------------------------------------------
# numeric proxies


def _floor_div_int(a: z3.ArithRef, b: z3.ArithRef) -> z3.ArithRef:
    # Python floor division from z3's Euclidean div (b != 0)
    return z3.If(b > 0, a / b, (-a) / (-b))


def _ipow(base_t: z3.ArithRef, n: int) -> z3.ArithRef:
    r = None
    for _ in range(n):
        r = base_t if r is None else r * base_t
    if r is None:
        return z3.IntVal(1) if base_t.sort() == z3.IntSort() else z3.RealVal(1)
    return r


# opt-in: CPython converts the int operand of a mixed int/float operation to a double and raises
# OverflowError when it does not fit; the numeric properties are stated over exact reals and leave
# this off, C17 (no exception other than ParseError/KeyError escapes) turns it on
FLOAT_RANGE = [False]
INT_TO_FLOAT_LIMIT = 2 ** 1024 - 2 ** 970     # the smallest int that rounds to 2**1024


def _int_to_float_guard(a: Any, b: Any) -> None:
    if not FLOAT_RANGE[0]:
        return
    ka, kb = kind_of(a), kind_of(b)
    if {ka, kb} != {"int", "float"}:
        return
    n = a if ka == "int" else b
    if not is_sym(n):
        if abs(n) >= INT_TO_FLOAT_LIMIT:
            raise OverflowError("int too large to convert to float")
        return
    c = ctx()
    c.stubs_used.add("int -> float conversion raises OverflowError from 2**1024 - 2**970")
    if c.decide(z3.Or(n.t >= INT_TO_FLOAT_LIMIT, n.t <= -INT_TO_FLOAT_LIMIT)):
        raise OverflowError("int too large to convert to float")


class _SymMixin:
    t: z3.ArithRef
    _kind: str

    # -- arithmetic -----------------------------------------------------------------
    def _bin(self, other: Any, op: str, swap: bool = False) -> Any:
        if not isinstance(other, (int, float, Decimal, SInt)) or isinstance(other, bool):
            return NotImplemented
        a, b = (other, self) if swap else (self, other)
        kind = _result_kind(a, b, op)
        if op in ("+", "-", "*", "/", "//", "%"):
            _int_to_float_guard(a, b)
        ta, tb = term(a), term(b)
        if op == "+":
            return mk(kind, _coerce(ta, tb, lambda x, y: x + y))
        if op == "-":
            return mk(kind, _coerce(ta, tb, lambda x, y: x - y))
        if op == "*":
            return mk(kind, _coerce(ta, tb, lambda x, y: x * y))
        if op == "/":
            c = ctx()
            if c.decide(tb == 0):
                if kind == "dec":
                    import decimal

                    if c.decide(ta == 0):
                        raise decimal.InvalidOperation("symbolic 0/0")
                    raise decimal.DivisionByZero("symbolic division by zero")
                raise ZeroDivisionError("symbolic division by zero")
            if kind == "int":
                kind = "float"
            return mk(kind, real(ta) / real(tb))
        if op == "//":
            c = ctx()
            if c.decide(tb == 0):
                raise ZeroDivisionError("symbolic floor division by zero")
            if kind == "int":
                return SInt(_floor_div_int(ta, tb))
            # floor of a real quotient
            fl = z3.ToInt(real(ta) / real(tb))
            return mk(kind, z3.ToReal(fl))
        if op == "%":
            c = ctx()
            if c.decide(tb == 0):
                raise ZeroDivisionError("symbolic modulo by zero")
            if kind == "int":
                return SInt(ta - tb * _floor_div_int(ta, tb))
            raise NotEncodable("real modulo")
        raise HarnessError(op)

    def __add__(self, o: Any) -> Any:
        return self._bin(o, "+")

    def __radd__(self, o: Any) -> Any:
        return self._bin(o, "+", True)

    def __sub__(self, o: Any) -> Any:
        return self._bin(o, "-")

    def __rsub__(self, o: Any) -> Any:
        return self._bin(o, "-", True)

    def __mul__(self, o: Any) -> Any:
        return self._bin(o, "*")

    def __rmul__(self, o: Any) -> Any:
        return self._bin(o, "*", True)

    def __truediv__(self, o: Any) -> Any:
        return self._bin(o, "/")

    def __rtruediv__(self, o: Any) -> Any:
        return self._bin(o, "/", True)

    def __floordiv__(self, o: Any) -> Any:
        return self._bin(o, "//")

    def __rfloordiv__(self, o: Any) -> Any:
        return self._bin(o, "//", True)

    def __mod__(self, o: Any) -> Any:
        return self._bin(o, "%")

    def __rmod__(self, o: Any) -> Any:
        return self._bin(o, "%", True)

    def __neg__(self) -> Any:
        return mk(self._kind, -self.t)

    def __pos__(self) -> Any:
        return mk(self._kind, self.t)

    def __abs__(self) -> Any:
        return mk(self._kind, z3.If(self.t >= 0, self.t, -self.t))

    def __pow__(self, n: Any, mod: Any = None) -> Any:
        if mod is not None:
            raise NotEncodable("3-argument pow")
        return _pow(self, n)

    def __rpow__(self, b: Any, mod: Any = None) -> Any:
        if mod is not None:
            raise NotEncodable("3-argument pow")
        return _pow(b, self)

    # -- comparisons ------------------------------------------------------------------
    def _cmp(self, o: Any, f: Callable[[Any, Any], Any]) -> Any:
        if isinstance(o, SBool):
            return NotImplemented
        if not isinstance(o, (int, float, Decimal, SInt)):
            return NotImplemented
        ta, tb = term(self), term(o)
        return SBool(_coerce(ta, tb, f))

    def __eq__(self, o: Any) -> Any:  # type: ignore[override]
        r = self._cmp(o, lambda x, y: x == y)
        return r

    def __ne__(self, o: Any) -> Any:  # type: ignore[override]
        r = self._cmp(o, lambda x, y: x != y)
        return r

    def __lt__(self, o: Any) -> Any:
        return self._cmp(o, lambda x, y: x < y)

    def __le__(self, o: Any) -> Any:
        return self._cmp(o, lambda x, y: x <= y)

    def __gt__(self, o: Any) -> Any:
        return self._cmp(o, lambda x, y: x > y)

    def __ge__(self, o: Any) -> Any:
        return self._cmp(o, lambda x, y: x >= y)

    def __bool__(self) -> bool:
        return ctx().decide(self.t != 0)

    # -- leak guard: C-level consumers must never see the machine value ---------------
    def __hash__(self) -> int:  # type: ignore[override]
        """Solver-driven concretisation: library code that hashes a magnitude (a dict or an
        lru_cache keyed by value) pins the value to one the path condition allows; the pin joins
        the path condition, so everything proved on this path is proved for that value only
        (recorded in `Ctx.concretised`)."""
        c = ctx()
        if not getattr(c, "allow_concretise", True):
            raise NotEncodable("hash() of a symbolic number")
        cands = [4, 9, 2, 1, 0, -4, 16, 3]
        for v in cands:
            if c.check(self.t == v) == "sat":
                c.assume(self.t == v)
                c.__dict__.setdefault("concretised", []).append((str(self.t), v))
                c.stubs_used.add("hash(magnitude): solver-driven concretisation of the value")
                py = {"int": int(v), "float": float(v), "dec": Decimal(v)}[self._kind]
                return hash(py)
        # none of the preferred values fits (the term may already be determined by earlier pins, e.g. the
        # sum of two pinned exponents): take the value of any model of the path
        if c.check() == "sat":
            try:
                val = c.solver.model().eval(self.t, model_completion=True)
                if z3.is_int_value(val) or (z3.is_rational_value(val) and val.denominator_as_long() == 1):
                    v = val.as_long() if z3.is_int_value(val) else val.numerator_as_long()
                    c.assume(self.t == v)
                    c.__dict__.setdefault("concretised", []).append((str(self.t), v))
                    c.stubs_used.add("hash(magnitude): solver-driven concretisation of the value")
                    return hash({"int": int(v), "float": float(v), "dec": Decimal(v)}[self._kind])
                if z3.is_rational_value(val):
                    fr = Fraction(val.numerator_as_long(), val.denominator_as_long())
                    c.assume(self.t == q(fr))
                    c.__dict__.setdefault("concretised", []).append((str(self.t), fr))
                    c.stubs_used.add("hash(magnitude): solver-driven concretisation of the value")
                    return hash({"float": float(fr), "dec": Decimal(fr.numerator) / Decimal(fr.denominator)}[self._kind])
            except Exception:
                pass
        raise NotEncodable("hash() of a symbolic number: no small value is consistent with the path")

    def __str__(self) -> str:
        if STR_MODEL[0]:
            return SStr(self)
        raise NotEncodable("str() of a symbolic number")

    def __format__(self, spec: str) -> str:
        raise NotEncodable("format() of a symbolic number")

    def __repr__(self) -> str:
        return f"<{type(self).__name__} {self.t}>"

    def __index__(self) -> int:
        raise NotEncodable("__index__ of a symbolic number")

    def __int__(self) -> int:
        raise NotEncodable("int() of a symbolic number (use the int shim)")

    def __float__(self) -> float:
        raise NotEncodable("float() of a symbolic number (use the float shim)")

    def __round__(self, n: Any = None) -> Any:
        """round(x[, n]) over the reals: nearest multiple of 10**-n, ties to even."""
        if is_sym(n):
            raise NotEncodable("round() to a symbolic number of digits")
        kind = kind_of(self)
        if kind == "int":
            if n is None or n >= 0:
                return self
            raise NotEncodable("round() of a symbolic int to negative digits")
        ctx().stubs_used.add("round(x, n): nearest multiple of 10**-n over the reals, ties to even")
        scale = Fraction(10) ** (n or 0)
        t = real(self.t) * q(scale)
        f = z3.ToInt(t + q(Fraction(1, 2)))
        r = z3.If(z3.And(z3.ToReal(f) == t + q(Fraction(1, 2)), f % 2 == 1), f - 1, f)
        if n is None:
            return SInt(r)
        return mk(kind, z3.ToReal(r) / q(scale))

    def __floor__(self) -> Any:
        return SInt(z3.ToInt(real(self.t)))

    def __ceil__(self) -> Any:
        return SInt(-z3.ToInt(-real(self.t)))

    def __trunc__(self) -> Any:
        raise NotEncodable("trunc() of a symbolic number")

    def __reduce__(self) -> Any:
        raise NotEncodable("pickling a symbolic number")

    def __copy__(self) -> Any:
        return self

    def __deepcopy__(self, memo: Any) -> Any:
        return self


def _coerce(ta: z3.ArithRef, tb: z3.ArithRef, f: Callable[[Any, Any], Any]) -> Any:
    if ta.sort() != tb.sort():
        ta, tb = real(ta), real(tb)
    return f(ta, tb)


class SInt(_SymMixin):
    """Integer proxy.  Deliberately NOT a subclass of `int`: CPython's float/Decimal/int
    arithmetic reads the machine value of any int subclass on its right-hand side
    (`0.5 * proxy` never reaches `proxy.__rmul__`), which would leak silently.  A plain
    object makes C code answer NotImplemented / TypeError instead; the library's own
    `isinstance(x, int)` / `NUMERIC_CLASSES` tests are served by the shims below."""

    _kind = "int"
    __slots__ = ("t",)

    def __init__(self, t: z3.ArithRef) -> None:
        # `type(magnitude)(1)` in library code must also work on a proxy class
        self.t = t if isinstance(t, z3.ExprRef) else q(int(t))


class SReal(_SymMixin, float):
    _kind = "float"

    def __new__(cls, t: z3.ArithRef) -> "SReal":
        self = float.__new__(cls, float("nan"))
        self.t = t if isinstance(t, z3.ExprRef) else real(q(t))
        return self

    def is_integer(self) -> bool:
        return ctx().decide(z3.IsInt(self.t))


class SDec(_SymMixin, Decimal):
    _kind = "dec"

    def __new__(cls, t: z3.ArithRef) -> "SDec":
        self = Decimal.__new__(cls, "NaN")
        self.t = t if isinstance(t, z3.ExprRef) else real(q(t))
        return self

    # Decimal's own methods are C code that would read the NaN the proxy is built on: the ones
    # with a meaning over exact reals are modelled, every other one refuses explicitly
    def scaleb(self, other: Any, context: Any = None) -> Any:
        if is_sym(other):
            raise NotEncodable("Decimal.scaleb by a symbolic amount")
        return SDec(self.t * q(Fraction(10) ** int(other)))

    def copy_abs(self) -> Any:
        return abs(self)

    def copy_negate(self) -> Any:
        return -self

    def copy_sign(self, other: Any, context: Any = None) -> Any:
        neg = ctx().decide(real(term(other)) < 0)
        a = abs(self)
        return -a if neg else a

    def is_zero(self) -> bool:
        return ctx().decide(self.t == 0)

    def is_signed(self) -> bool:
        return ctx().decide(self.t < 0)

    def is_nan(self) -> bool:
        return False

    is_qnan = is_snan = is_infinite = is_nan

    def is_finite(self) -> bool:
        return True

    def normalize(self, context: Any = None) -> Any:
        return self

    def sqrt(self, context: Any = None) -> Any:
        return SDec(real(term(sym_sqrt(SReal(self.t)))))

    def fma(self, other: Any, third: Any, context: Any = None) -> Any:
        return self * other + third

    def max(self, other: Any, context: Any = None) -> Any:
        return other if ctx().decide(real(term(other)) > self.t) else self

    def min(self, other: Any, context: Any = None) -> Any:
        return other if ctx().decide(real(term(other)) < self.t) else self


def _refuse(name: str) -> Any:
    def method(self: Any, *a: Any, **k: Any) -> Any:
        raise NotEncodable(f"Decimal.{name} of a symbolic Decimal has no model")
    method.__name__ = name
    return method


for _name in dir(Decimal):
    if _name.startswith("_") or _name in SDec.__dict__ or _name in _SymMixin.__dict__:
        continue
    if callable(getattr(Decimal, _name)) and _name not in ("real", "imag", "conjugate", "from_float"):
        setattr(SDec, _name, _refuse(_name))


# --------------------------------------------------------------------------------------
# the text of a symbolic number (opt-in): what a decoder does with str(x)

STR_MODEL = [False]

_DIG = z3.Range("0", "9")
_NAT = z3.Union(z3.Re("0"), z3.Concat(z3.Range("1", "9"), z3.Star(_DIG)))
_SIGN_OPT = z3.Option(z3.Re("-"))
# str(Decimal) of a finite value: -?int[.frac][E+-exp]
DEC_TEXT = z3.Concat(_SIGN_OPT, _NAT, z3.Option(z3.Concat(z3.Re("."), z3.Plus(_DIG))),
                     z3.Option(z3.Concat(z3.Re("E"), z3.Union(z3.Re("+"), z3.Re("-")), z3.Plus(_DIG))))
INT_TEXT = z3.Concat(_SIGN_OPT, _NAT)
# repr(float) of a finite value: -?int.frac | -?int[.frac]e+-exp
FLOAT_TEXT = z3.Concat(_SIGN_OPT, _NAT, z3.Union(
    z3.Concat(z3.Re("."), z3.Plus(_DIG)),
    z3.Concat(z3.Option(z3.Concat(z3.Re("."), z3.Plus(_DIG))), z3.Re("e"),
              z3.Union(z3.Re("+"), z3.Re("-")), z3.Plus(_DIG))))
_WS = z3.Star(z3.Union(z3.Re(" "), z3.Re("\t"), z3.Re("\n")))
# what int(text) accepts (ASCII): optional blanks, sign, digits with single underscores between them
INT_ACCEPTS = z3.Concat(_WS, z3.Option(z3.Union(z3.Re("+"), z3.Re("-"))), z3.Plus(_DIG),
                        z3.Star(z3.Concat(z3.Re("_"), z3.Plus(_DIG))), _WS)


class SStr(str):
    """str(x) of a proxy x: a z3 String constrained to the language CPython prints for x's numeric
    type.  Only what a decoder does with such a text is modelled -- isinstance(.., str),
    Decimal(text), float(text), int(text) (which forks on whether the text is an integer literal);
    every other string operation is refused."""

    def __new__(cls, origin: Any) -> "SStr":
        obj = str.__new__(cls, "<text of a symbolic number>")
        c = ctx()
        obj.origin = origin
        obj.kind = kind_of(origin)
        n = len(c.__dict__.setdefault("sstrs", []))
        obj.s = z3.String(f"text!{n}")
        c.sstrs.append(obj)
        lang = {"dec": DEC_TEXT, "int": INT_TEXT, "float": FLOAT_TEXT}[obj.kind]
        c.axiom(z3.InRe(obj.s, lang))
        c.stubs_used.add("str(x): a text in the language CPython prints for x's numeric type; "
                         "Decimal(str(x)) == x, float(repr(x)) == x, int(str(x)) == x are taken from their documentation")
        return obj

    def __str__(self) -> str:
        return self

    def __repr__(self) -> str:
        return f"<SStr {self.s} of {self.origin!r}>"

    def to_decimal(self) -> Any:
        return SDec(real(self.origin.t))

    def to_float(self) -> Any:
        return SReal(real(self.origin.t))

    def to_int(self) -> Any:
        """int(text): accepted exactly when the text is an integer literal; then the value printed
        was integral."""
        c = ctx()
        if c.decide(z3.InRe(self.s, INT_ACCEPTS)):
            n = c.fresh("int_of_text", "int")
            c.axiom(z3.ToReal(n) == real(self.origin.t))
            return SInt(n)
        raise ValueError("invalid literal for int() with base 10: <text of a symbolic number>")


def _refuse_str(name: str) -> Any:
    def method(self: Any, *a: Any, **k: Any) -> Any:
        raise NotEncodable(f"str.{name} on the text of a symbolic number has no model")
    method.__name__ = name
    return method


for _name in dir(str):
    if _name in ("__new__", "__init__", "__class__", "__str__", "__repr__", "__getattribute__",
                 "__setattr__", "__delattr__", "__dir__", "__doc__", "__init_subclass__",
                 "__subclasshook__", "__reduce__", "__reduce_ex__", "__sizeof__", "__getnewargs__",
                 "__getstate__"):
        continue
    if callable(getattr(str, _name)):
        setattr(SStr, _name, _refuse_str(_name))


# --------------------------------------------------------------------------------------
# powers, roots, logs


LN = z3.Function("ln", z3.RealSort(), z3.RealSort())
EXP = z3.Function("exp", z3.RealSort(), z3.RealSort())


E_CONST = z3.simplify(z3.RealVal(str(Fraction(_math.e))))


def ln_term(x: z3.ArithRef) -> z3.ArithRef:
    """ln(x) as an uninterpreted application with the instance axioms used here."""
    c = ctx()
    c.stubs_used.add("ln/exp: uninterpreted with instance axioms")
    x = z3.simplify(real(x))
    y = LN(x)
    c.axiom(z3.Implies(x > 0, EXP(y) == x), ("expln", x.get_id()))
    c.axiom(LN(E_CONST) == 1, ("lne",))        # math.e stands for e: math.log(x) == math.log(x, math.e)
    c.axiom(z3.Implies(x > 1, y > 0), ("lnpos", x.get_id()))
    c.axiom(z3.Implies(x == 1, y == 0), ("ln1", x.get_id()))
    c.axiom(z3.Implies(z3.And(x > 0, x < 1), y < 0), ("lnneg", x.get_id()))
    _register_mono(c, "ln", x, y)
    return y


def exp_term(s: z3.ArithRef) -> z3.ArithRef:
    c = ctx()
    c.stubs_used.add("ln/exp: uninterpreted with instance axioms")
    s = z3.simplify(real(s))
    y = EXP(s)
    c.axiom(y > 0, ("exppos", s.get_id()))
    c.axiom(LN(y) == s, ("lnexp", s.get_id()))
    c.axiom(z3.Implies(s == 0, y == 1), ("exp0", s.get_id()))
    c.axiom(z3.Implies(s > 0, y > 1), ("expgt", s.get_id()))
    c.axiom(z3.Implies(s < 0, y < 1), ("explt", s.get_id()))
    _register_mono(c, "exp", s, y)
    return y


def _register_mono(c: Ctx, fn: str, arg: z3.ArithRef, val: z3.ArithRef) -> None:
    reg = c.__dict__.setdefault("_mono", {"ln": [], "exp": []})
    for a2, v2 in reg[fn]:
        if a2.get_id() == arg.get_id():
            return
    for a2, v2 in reg[fn]:
        if fn == "ln":
            dom = z3.And(arg > 0, a2 > 0)
        else:
            dom = z3.BoolVal(True)
        c.axiom(z3.Implies(z3.And(dom, arg < a2), val < v2))
        c.axiom(z3.Implies(z3.And(dom, a2 < arg), v2 < val))
        c.axiom(z3.Implies(z3.And(dom, a2 == arg), v2 == val))
    reg[fn].append((arg, val))


def sym_sqrt(x: Any) -> Any:
    """math.sqrt stub: y >= 0 and y*y == x; ValueError when x < 0."""
    if not is_sym(x):
        return _math.sqrt(x)
    c = ctx()
    c.stubs_used.add("math.sqrt: y>=0 and y*y==x, ValueError if x<0")
    tx = real(x.t)
    if c.decide(tx < 0):
        raise ValueError("math domain error")
    y = c.fresh("sqrt")
    c.axiom(z3.And(y >= 0, y * y == tx))
    return SReal(y)


def sym_log(x: Any, base: Any = None) -> Any:
    if not is_sym(x) and not is_sym(base):
        return _math.log(x) if base is None else _math.log(x, base)
    c = ctx()
    tx = real(term(x))
    if c.decide(tx <= 0):
        raise ValueError("math domain error")
    c.__dict__.setdefault("log_calls", []).append((tx, None if base is None else real(term(base))))
    num = ln_term(tx)
    if base is None:
        return SReal(num)
    tb = real(term(base))
    den = ln_term(tb)
    if c.decide(den == 0):
        raise ZeroDivisionError("float division by zero")
    return SReal(num / den)


def _pow(b: Any, n: Any) -> Any:
    """Python's `b ** n` where at least one side is symbolic."""
    c = ctx()
    if is_sym(n):
        # symbolic exponent: b ** n = exp(ln(b) * n), b > 0
        kind = _result_kind(b, n, "**")
        tb = real(term(b))
        if not is_sym(b):
            if b <= 0:
                raise NotEncodable("non-positive base with symbolic exponent")
        else:
            if c.decide(tb <= 0):
                raise NotEncodable("non-positive symbolic base with symbolic exponent")
        e = exp_term(ln_term(tb) * real(n.t))
        if FLOAT_RANGE[0] and isinstance(b, int) and not isinstance(b, bool) and b > 1 and kind_of(n) == "int":
            # CPython: int ** negative int is a double (0.0 once it underflows), int ** non-negative
            # int an exact int (which overflows when something later converts it to a double)
            c.stubs_used.add("int ** int leaves the double range: 0.0 below, OverflowError on conversion above")
            lo = 0
            while float(Fraction(b) ** (lo - 1)) != 0.0:
                lo -= 1
            lo -= 1                                  # largest exponent whose power is 0.0
            hi = 0
            while b ** hi < INT_TO_FLOAT_LIMIT:
                hi += 1                              # smallest exponent whose power no longer converts
            if c.decide(n.t <= lo):
                return 0.0
            if c.decide(n.t >= 0):
                v = z3.Int(f"ipow!{c.fresh_counter}")
                c.fresh_counter += 1
                c.axiom(z3.And(v >= 1, z3.ToReal(v) == e, (n.t >= hi) == (v >= INT_TO_FLOAT_LIMIT)),
                        ("ipow", v.get_id()))
                return SInt(v)
        return mk("dec" if kind == "dec" else "float", e)
    # concrete exponent, symbolic base
    kb = kind_of(b)
    if isinstance(n, bool):
        n = int(n)
    if isinstance(n, int):
        if kb == "dec" and n <= 0:
            if c.decide(b.t == 0):
                if n == 0:
                    import decimal

                    raise decimal.InvalidOperation("Decimal 0 ** 0")
                raise NonFinite("Decimal 0 ** negative is Infinity")
        if n >= 0:
            return mk(kb, _ipow(b.t, n))
        if c.decide(b.t == 0):
            raise ZeroDivisionError("0.0 cannot be raised to a negative power")
        out_kind = "float" if kb == "int" else kb
        return mk(out_kind, 1 / real(_ipow(b.t, -n)))
    if isinstance(n, Decimal):
        if kb == "float":
            raise TypeError("unsupported operand type(s) for **: 'float' and 'decimal.Decimal'")
        nf = Fraction(n)
        out_kind = "dec"
    elif isinstance(n, float):
        if kb == "dec":
            raise TypeError("unsupported operand type(s) for **: 'decimal.Decimal' and 'float'")
        nf = Fraction(n)
        out_kind = "float"
    else:
        raise NotEncodable(f"exponent {type(n).__name__}")
    if nf.denominator == 1:
        r = _pow(mk(kb if kb != "int" else "float", real(b.t)), int(nf))
        return mk(out_kind, real(r.t))
    # fractional exponent p/q: principal root of a non-negative base
    # (floats such as 1/3 are not exactly rational 1/3; take the nearest small rational,
    # which is what the library means by `1 / degree`; the rounding of that constant is
    # outside the claim and recorded as a stub)
    small = nf.limit_denominator(64)
    if abs(float(small) - float(nf)) > 1e-15:
        raise NotEncodable(f"exponent {n!r} is not a small rational")
    c.stubs_used.add("x ** (p/q): y>=0 and y**q == x**p for x>=0; complex result if x<0")
    tb = real(b.t)
    if c.decide(tb < 0):
        if out_kind == "dec":
            import decimal

            raise decimal.InvalidOperation("symbolic negative base, fractional power")
        raise ComplexResult("negative base with fractional exponent gives a complex number")
    p, qd = small.numerator, small.denominator
    y = c.fresh("root")
    if p >= 0:
        c.axiom(z3.And(y >= 0, _ipow(y, qd) == _ipow(tb, p)))
    else:
        if c.decide(tb == 0):
            raise ZeroDivisionError("0.0 cannot be raised to a negative power")
        c.axiom(z3.And(y > 0, _ipow(y, qd) * _ipow(tb, -p) == 1))
    return mk(out_kind, y)


class NonFinite(Exception):
    """Stands for Python *returning* an infinity or NaN (no exception in the real run)."""


class ComplexResult(Exception):
    """Stands for Python returning a `complex` from float ** fraction (modelled as a
    distinct outcome; the library then typically fails with TypeError downstream)."""


# --------------------------------------------------------------------------------------
# shims installed into the library's module namespace by the harness (no source edit)


class _DecimalShimMeta(type):
    def __instancecheck__(cls, inst: Any) -> bool:
        return isinstance(inst, Decimal)

    def __subclasscheck__(cls, sub: Any) -> bool:
        return issubclass(sub, Decimal)


class DecimalShim(metaclass=_DecimalShimMeta):
    """`Decimal(x)` that passes proxies through exactly (Decimal(float) is exact)."""

    def __new__(cls, value: Any = "0", context: Any = None) -> Any:  # type: ignore
        if isinstance(value, SStr):
            return value.to_decimal()
        if is_sym(value):
            if Ctx.current is not None:
                Ctx.current.stubs_used.add("Decimal(x): exact conversion of a proxy")
            return SDec(real(value.t))
        return Decimal(value) if context is None else Decimal(value, context)


class _FloatShimMeta(type):
    def __instancecheck__(cls, inst: Any) -> bool:
        return isinstance(inst, float)


ROUND_FLOAT_OF_DECIMAL = [False]    # opt-in: float(Decimal) rounds to the nearest double (relative 2**-53)


class FloatShim(metaclass=_FloatShimMeta):
    def __new__(cls, value: Any = 0.0) -> Any:  # type: ignore
        if isinstance(value, SStr):
            return value.to_float()
        if ROUND_FLOAT_OF_DECIMAL[0] and isinstance(value, SDec) and Ctx.current is not None:
            c = Ctx.current
            r = c.fresh("float_of_decimal")
            v = real(value.t)
            eps = q(Fraction(1, 2 ** 54))
            av = z3.If(v >= 0, v, -v)
            c.axiom(z3.And(r - v <= eps * av, v - r <= eps * av))
            c.stubs_used.add("float(Decimal): some double within a relative 2**-53 of the value")
            return SReal(r)
        if is_sym(value):
            if Ctx.current is not None:
                Ctx.current.stubs_used.add("float(x): exact conversion of a proxy")
            return SReal(real(value.t))
        return float(value)


class _IntShimMeta(type):
    def __instancecheck__(cls, inst: Any) -> bool:
        return isinstance(inst, (int, SInt))


class IntShim(metaclass=_IntShimMeta):
    def __new__(cls, value: Any = 0, *a: Any) -> Any:  # type: ignore
        if isinstance(value, SStr):
            return value.to_int()
        if isinstance(value, SInt):
            return value
        if isinstance(value, (SReal, SDec)):
            c = ctx()
            c.stubs_used.add("int(x): truncation toward zero")
            fl = z3.ToInt(value.t)
            tr = z3.If(value.t >= 0, fl, z3.If(z3.ToReal(fl) == value.t, fl, fl + 1))
            return SInt(tr)
        return int(value, *a)


def _isclose(a: Any, b: Any, *, rel_tol: Any = 1e-09, abs_tol: Any = 0.0) -> Any:
    """math.isclose on finite operands (CPython: a == b, or |a-b| <= |rel_tol*b|, or
    <= |rel_tol*a|, or <= abs_tol), as a symbolic boolean."""
    if not any(is_sym(v) for v in (a, b, rel_tol, abs_tol)):
        return _math.isclose(a, b, rel_tol=rel_tol, abs_tol=abs_tol)
    ta, tb, tr, tt = (real(term(v)) if is_sym(v) else q(v) for v in (a, b, rel_tol, abs_tol))
    diff = z3.If(tb - ta >= 0, tb - ta, ta - tb)
    ab = lambda t: z3.If(t >= 0, t, -t)
    return SBool(z3.Or(ta == tb, diff <= ab(tr * tb), diff <= ab(tr * ta), diff <= tt))


def _gcd(*args: Any) -> Any:
    """math.gcd with symbolic ints: g >= 0, g divides both, and g is an integer combination of them
    (Bezout), which characterises the greatest common divisor exactly."""
    if not any(is_sym(a) for a in args):
        return _math.gcd(*args)
    for a in args:
        if is_sym(a) and not isinstance(a, SInt):
            raise TypeError(f"'{kind_of(a)}' object cannot be interpreted as an integer")
    c = ctx()
    c.stubs_used.add("math.gcd of symbolic ints: divisibility + Bezout identity")

    def pair(a: Any, b: Any) -> Any:
        ta, tb = term(a), term(b)
        g, ka, kb, x, y = (c.fresh(n, "int") for n in ("gcd", "gcd_ka", "gcd_kb", "gcd_x", "gcd_y"))
        c.axiom(z3.And(g >= 0, ta == g * ka, tb == g * kb, ta * x + tb * y == g))
        return SInt(g)

    acc: Any = 0
    for a in args:
        acc = pair(acc, a) if (is_sym(acc) or is_sym(a)) else _math.gcd(acc, a)
    return acc


def _isqrt(n: Any) -> Any:
    """math.isqrt of a symbolic int: the r >= 0 with r*r <= n < (r+1)*(r+1); ValueError below zero."""
    if not isinstance(n, SInt):
        raise TypeError(f"'{type(n).__name__}' object cannot be interpreted as an integer")
    c = ctx()
    if c.decide(n.t < 0):
        raise ValueError("isqrt() argument must be nonnegative")
    r = c.fresh("isqrt", "int")
    c.axiom(z3.And(r >= 0, r * r <= n.t, (r + 1) * (r + 1) > n.t))
    return SInt(r)


def _copysign(x: Any, y: Any) -> Any:
    """math.copysign returns a float; the sign of a zero y is taken as positive (proxies are reals)."""
    tx = real(term(x)) if is_sym(x) else q(x)
    mag = z3.If(tx >= 0, tx, -tx)
    if not is_sym(y):
        return SReal(mag if _math.copysign(1.0, y) > 0 else -mag)
    return SReal(z3.If(real(term(y)) >= 0, mag, -mag))


class MathShim:
    """Stand-in for the `math` module inside `measured`."""

    def __init__(self) -> None:
        for name in dir(_math):
            if not name.startswith("_"):
                obj = getattr(_math, name)
                setattr(self, name, self._guard(name, obj) if callable(obj) else obj)
        self.sqrt = sym_sqrt
        self.log = sym_log
        self.log10 = lambda x: sym_log(x, 10)
        self.log2 = lambda x: sym_log(x, 2)
        self.exp = lambda x: _pow(_math.e, x) if is_sym(x) else _math.exp(x)
        self.pow = lambda a, b: (_pow(a, b) if (is_sym(a) or is_sym(b)) else _math.pow(a, b))
        self.fabs = lambda x: abs(x) if is_sym(x) else _math.fabs(x)
        self.floor = lambda x: x.__floor__() if is_sym(x) else _math.floor(x)
        self.ceil = lambda x: x.__ceil__() if is_sym(x) else _math.ceil(x)
        self.isclose = _isclose
        self.isqrt = lambda n: _isqrt(n) if is_sym(n) else _math.isqrt(n)
        self.gcd = _gcd
        self.isfinite = lambda x: True if is_sym(x) else _math.isfinite(x)   # proxies range over the reals
        self.isnan = lambda x: False if is_sym(x) else _math.isnan(x)
        self.isinf = lambda x: False if is_sym(x) else _math.isinf(x)
        self.copysign = lambda x, y: (_copysign(x, y) if (is_sym(x) or is_sym(y)) else _math.copysign(x, y))

    @staticmethod
    def _guard(name: str, fn: Any) -> Any:
        """Any other math function must not be handed a proxy (C code would read NaN)."""
        def wrapped(*a: Any, **k: Any) -> Any:
            if any(is_sym(v) for v in a) or any(is_sym(v) for v in k.values()):
                raise NotEncodable(f"math.{name} of a symbolic number has no model")
            return fn(*a, **k)
        return wrapped


def _subst_identity(obj: Any, orig: Any, new: Any, depth: int) -> Tuple[Any, bool]:
    """A copy of a list / tuple / dict in which every occurrence of the object `orig` (by identity)
    is replaced by `new`; (obj, False) when there is none."""
    if obj is orig:
        return new, True
    if depth == 0 or not isinstance(obj, (list, tuple, dict)) or type(obj) not in (list, tuple, dict):
        return obj, False
    if isinstance(obj, dict):
        items = {k: _subst_identity(v, orig, new, depth - 1) for k, v in obj.items()}
        if any(c for _, c in items.values()):
            return {k: v for k, (v, _) in items.items()}, True
        return obj, False
    parts = [_subst_identity(v, orig, new, depth - 1) for v in obj]
    if any(c for _, c in parts):
        return type(obj)(v for v, _ in parts), True
    return obj, False


def _type_shim(*args: Any) -> Any:
    if len(args) == 1:
        x = args[0]
        if isinstance(x, SInt):
            return IntShim
        if isinstance(x, SReal):
            return FloatShim
        if isinstance(x, SDec):
            return DecimalShim
    return type(*args)


class Shims:
    """Context manager that rebinds names in the library's module namespaces."""

    def __init__(self, *, decimal: bool = True, math: bool = True, int_: bool = True,
                 float_: bool = True) -> None:
        self.decimal, self.math, self.int_, self.float_ = decimal, math, int_, float_
        self.saved: List[Tuple[Any, str, Any, bool]] = []

    def _set(self, mod: Any, name: str, value: Any) -> None:
        had = name in mod.__dict__
        self.saved.append((mod, name, mod.__dict__.get(name), had))
        setattr(mod, name, value)

    def __enter__(self) -> "Shims":
        import measured

        if self.decimal:
            self._set(measured, "Decimal", DecimalShim)
        if self.math:
            self._set(measured, "math", MathShim())
        if self.int_:
            self._set(measured, "int", IntShim)
            orig = measured.__dict__.get("NUMERIC_CLASSES")
            shim_classes = (IntShim, float, DecimalShim)
            self._set(measured, "NUMERIC_CLASSES", shim_classes)
            # dispatch tables built at import time hold the original tuple itself: module-level
            # containers (to depth 3) that contain that very object get the shim tuple in its place
            if orig is not None:
                for name, value in list(measured.__dict__.items()):
                    if name.startswith("__") or name == "NUMERIC_CLASSES":
                        continue
                    if isinstance(value, (list, tuple, dict)):
                        new, changed = _subst_identity(value, orig, shim_classes, 3)
                        if changed:
                            self._set(measured, name, new)
        if self.float_:
            self._set(measured, "float", FloatShim)
        if self.int_ and self.float_ and self.decimal:
            # `type(x)` of a proxy is the class the code would see for the number it stands for
            self._set(measured, "type", _type_shim)
        return self

    def __exit__(self, *exc: Any) -> None:
        for mod, name, old, had in reversed(self.saved):
            if had:
                setattr(mod, name, old)
            else:
                delattr(mod, name)
        self.saved = []


# --------------------------------------------------------------------------------------
# exploration


class Path:
    __slots__ = ("pc", "axioms", "result", "exc", "decisions", "stubs", "log_calls")

    def __init__(self, pc: List[z3.BoolRef], axioms: List[z3.BoolRef], result: Any,
                 exc: Optional[BaseException], decisions: List[bool]) -> None:
        self.pc = pc
        self.axioms = axioms
        self.result = result
        self.exc = exc
        self.decisions = decisions

    @property
    def cond(self) -> z3.BoolRef:
        return z3.And(*(self.pc + self.axioms)) if (self.pc or self.axioms) else z3.BoolVal(True)

    @property
    def outcome(self) -> str:
        return "ok" if self.exc is None else type(self.exc).__name__


class Exploration:
    def __init__(self) -> None:
        self.paths: List[Path] = []
        self.queries = 0
        self.solver_s = 0.0
        self.unknowns = 0
        self.stubs: set = set()
        self.complete = True


PATH_START_HOOKS: List[Callable[[], None]] = []   # run before every path of explore (state the code keeps besides the modelled tables)


def class_scratch(cls: Any, skip: Sequence[str] = ("_known", "_by_name", "_by_symbol")) -> Dict[str, Any]:
    """Plain data kept in class attributes (a remembered last result, a counter): not functions, not
    descriptors, not the modelled tables."""
    import types as _t

    out = {}
    for k, v in vars(cls).items():
        if k.startswith("__") or k in skip:
            continue
        if isinstance(v, (_t.FunctionType, classmethod, staticmethod, property, type)) or callable(v) or \
                hasattr(v, "__get__"):
            continue
        out[k] = v
    return out


def restore_class_scratch(cls: Any, snap: Dict[str, Any]) -> List[str]:
    """Put the class's plain data attributes back; returns the names that had changed."""
    changed = []
    now = class_scratch(cls)
    for k, v in now.items():
        if k not in snap:
            type.__delattr__(cls, k)
            changed.append(k)
        elif snap[k] is not v:
            type.__setattr__(cls, k, snap[k])
            changed.append(k)
    for k, v in snap.items():
        if k not in now:
            type.__setattr__(cls, k, v)
            changed.append(k)
    return changed


def explore(fn: Callable[[], Any], *, assumptions: Sequence[z3.BoolRef] = (),
            max_paths: int = 512, query_timeout_ms: int = 10000) -> Exploration:
    """Run `fn` (which builds its own proxies from named z3 variables and calls the
    real library) once per feasible path."""
    c = Ctx(query_timeout_ms)
    out = Exploration()
    prev = Ctx.current
    Ctx.current = c
    try:
        while True:
            c.reset_path()
            for hook in PATH_START_HOOKS:
                hook()
            for a in assumptions:
                c.assume(a)
            exc: Optional[BaseException] = None
            res: Any = None
            try:
                res = fn()
            except HarnessError:
                raise
            except Exception as e:  # the library's own outcome
                exc = e
            out.paths.append(Path(list(c.pc), list(c.axioms), res, exc,
                                  [d for d, _ in c.trail]))
            out.paths[-1].log_calls = list(c.__dict__.get("log_calls", []))
            if len(out.paths) > max_paths:
                out.complete = False
                break
            if not c.backtrack():
                break
    finally:
        Ctx.current = prev
        out.queries = c.queries
        out.solver_s = c.solver_s
        out.unknowns = c.unknowns
        out.stubs = set(c.stubs_used)
    return out


# --------------------------------------------------------------------------------------
# discharge


class Prover:
    """Asks `cond and not goal` and keeps statistics."""

    def __init__(self, timeout_ms: int = 10000) -> None:
        self.timeout_ms = timeout_ms
        self.asked = 0
        self.unsat = 0
        self.sat = 0
        self.unknown = 0
        self.solver_s = 0.0

    def check(self, *conds: z3.BoolRef) -> Tuple[str, Optional[z3.ModelRef]]:
        s = z3.Solver()
        s.set("timeout", 1 if robust.forced() else self.timeout_ms)
        s.add(*conds)
        t0 = time.time()
        r = str(s.check())
        m = s.model() if r == "sat" else None
        if r == "unknown":
            # never a verdict, and not yet an inconclusive obligation: see engine/robust.py
            r, m = robust.escalate(list(s.assertions()), self.timeout_ms)
        self.solver_s += time.time() - t0
        self.asked += 1
        if r == "unsat":
            self.unsat += 1
            return r, None
        if r == "sat":
            self.sat += 1
            return r, m
        self.unknown += 1
        return r, None

    def prove(self, cond: z3.BoolRef, goal: z3.BoolRef) -> Tuple[str, Optional[z3.ModelRef]]:
        """'unsat' = goal holds wherever cond does."""
        return self.check(cond, z3.Not(goal))

    def shaped_model(self, conds: Sequence[z3.BoolRef], vars_: Sequence[z3.ArithRef],
                     extra: Sequence[z3.BoolRef] = ()) -> Optional[Dict[str, Fraction]]:
        """A model whose real variables sit on a dyadic grid wherever the constraints allow
        (so that a float replay agrees with exact arithmetic), or None if unsatisfiable.

        Greedy: take any model, then pin the variables one at a time to the nearest grid
        value that keeps the constraints satisfiable (each step is a cheap query with the
        earlier variables fixed); a variable that cannot be moved keeps its exact value."""
        s = z3.Solver()
        s.set("timeout", min(self.timeout_ms, 5000))
        s.add(*conds)
        s.add(*extra)
        t0 = time.time()
        r = str(s.check())
        m = s.model() if r == "sat" else None
        if r == "unknown":
            r, m = robust.escalate(list(s.assertions()), self.timeout_ms)
        self.asked += 1
        if r != "sat":
            self.solver_s += time.time() - t0
            return None
        out: Dict[str, Fraction] = {}
        for v in vars_:
            val = model_value(m, v)
            chosen = None
            if v.sort() == z3.IntSort():
                cands = [val]
            else:
                cands = []
                for den in (1, 8, 1024, 2 ** 20):
                    c = Fraction(round(val * den), den)
                    if c not in cands:
                        cands.append(c)
                if abs(val) > 10 ** 6:
                    cands = [Fraction(round(val))] + cands
            for c in cands:
                s.push()
                s.add(v == q(c))
                rr = str(s.check())
                self.asked += 1
                if rr == "sat":
                    m = s.model()
                    chosen = c
                    break
                s.pop()
            if chosen is None:
                s.add(v == q(val))
                if str(s.check()) != "sat":
                    self.solver_s += time.time() - t0
                    return None
                m = s.model()
                chosen = val
            out[str(v)] = chosen
        self.solver_s += time.time() - t0
        return out


def _atoms(e: z3.ExprRef, out: List[z3.ExprRef]) -> None:
    if z3.is_app(e) and e.decl().kind() in (z3.Z3_OP_NOT, z3.Z3_OP_AND, z3.Z3_OP_OR,
                                             z3.Z3_OP_IMPLIES, z3.Z3_OP_ITE):
        for c in e.children():
            _atoms(c, out)
    elif z3.is_app(e) and e.decl().kind() in (z3.Z3_OP_LE, z3.Z3_OP_LT, z3.Z3_OP_GE,
                                               z3.Z3_OP_GT, z3.Z3_OP_EQ, z3.Z3_OP_DISTINCT):
        if e.num_args() == 2 and z3.is_arith(e.arg(0)):
            out.append(e)
        for c in e.children():
            _atoms(c, out)
    elif z3.is_app(e):
        for c in e.children():
            _atoms(c, out)


def _term_near_tie(t: z3.ExprRef, m: z3.ModelRef, rel: float = 1e-9) -> bool:
    atoms: List[z3.ExprRef] = []
    _atoms(t, atoms)
    for a in atoms:
        try:
            l, r = model_value(m, a.arg(0)), model_value(m, a.arg(1))
        except HarnessError:
            continue
        if abs(l - r) <= rel * max(abs(l), abs(r)) or (l == 0 and r == 0):
            return True
    return False


def _near_tie(path: "Path", vars_: Dict[str, z3.ArithRef], model: Dict[str, Fraction],
              rel: float = 1e-9) -> bool:
    s = z3.Solver()
    s.set("timeout", 5000)
    s.add(path.cond)
    for n, v in vars_.items():
        s.add(v == q(model[n]))
    if str(s.check()) != "sat":
        return False
    m = s.model()
    atoms: List[z3.ExprRef] = []
    for c in path.pc:
        _atoms(c, atoms)
    for a in atoms:
        try:
            l, r = model_value(m, a.arg(0)), model_value(m, a.arg(1))
        except HarnessError:
            continue
        if abs(l - r) <= rel * max(abs(l), abs(r)) or (l == 0 and r == 0):
            return True
    return False


def model_value(m: z3.ModelRef, v: z3.ArithRef) -> Fraction:
    val = m.eval(v, model_completion=True)
    if z3.is_int_value(val):
        return Fraction(val.as_long())
    if z3.is_rational_value(val):
        return Fraction(val.numerator_as_long(), val.denominator_as_long())
    if z3.is_algebraic_value(val):
        a = val.approx(30)
        return Fraction(a.numerator_as_long(), a.denominator_as_long())
    raise HarnessError(f"cannot read model value {val}")


def to_python(kind: str, f: Fraction) -> Any:
    if kind == "int":
        if f.denominator != 1:
            raise HarnessError("non-integer model value for an int")
        return int(f)
    if kind == "float":
        return f.numerator / f.denominator
    if kind == "dec":
        return Decimal(f.numerator) / Decimal(f.denominator)
    raise HarnessError(kind)


def var(kind: str, name: str) -> z3.ArithRef:
    return z3.Int(name) if kind == "int" else z3.Real(name)


def sym(kind: str, name: str) -> Any:
    return mk(kind, var(kind, name))


# --------------------------------------------------------------------------------------
# self test: Python-vs-SMT semantic gaps, run at the start of every check


def selftest() -> int:
    """Each case: evaluate an expression on proxies, pin the variables to concrete
    values, and compare the term's value with CPython's result."""
    import itertools

    cases = 0
    try:
        cases += robust.selftest()
    except AssertionError as e:
        raise HarnessError(f"selftest: escalation ladder: {e}")
    P = Prover()
    ints = [-7, -3, -1, 0, 1, 2, 5]
    for a, b in itertools.product(ints, ints):
        def run() -> Any:
            x, y = sym("int", "x"), sym("int", "y")
            res = {}
            res["add"] = x + y
            res["mul"] = x * y - 3
            if y != 0:
                res["fd"] = x // y
                res["mod"] = x % y
                res["td"] = x / y
            res["pow2"] = x ** 2
            res["neg"] = -x
            res["abs"] = abs(x)
            res["lt"] = x < y
            res["chain"] = (x <= y) and (y <= 3)
            return res

        ex = explore(run, assumptions=[z3.Int("x") == a, z3.Int("y") == b])
        if len(ex.paths) != 1 or ex.paths[0].exc is not None:
            raise HarnessError(f"selftest: unexpected paths for {a},{b}")
        res = ex.paths[0].result
        expect: Dict[str, Any] = {"add": a + b, "mul": a * b - 3, "pow2": a ** 2, "neg": -a,
                                  "abs": abs(a), "lt": a < b, "chain": (a <= b) and (b <= 3)}
        if b != 0:
            expect.update(fd=a // b, mod=a % b, td=a / b)
        for k, want in expect.items():
            got = res[k]
            cond = ex.paths[0].cond
            if isinstance(want, bool):
                goal = bool_term(got) == z3.BoolVal(want)
            else:
                goal = real(term(got)) == real(q(want if not isinstance(want, float)
                                                 else Fraction(a, b)))
            r, _ = P.prove(cond, goal)
            if r != "unsat":
                raise HarnessError(f"selftest: {k} wrong for x={a}, y={b}")
            cases += 1
    # floats / decimals / sqrt / roots
    for a in (0.0, 0.25, 4.0, 9.0):
        def run2() -> Any:
            x = sym("float", "x")
            return {"sqrt": sym_sqrt(x), "half": x ** 0.5, "sq": x ** 2,
                    "dec": DecimalShim(x) * Decimal("1.5")}

        ex = explore(run2, assumptions=[z3.Real("x") == q(a)])
        p = ex.paths[0]
        if p.exc is not None:
            raise HarnessError(f"selftest: {p.exc!r}")
        for k, want in {"sqrt": _math.sqrt(a), "half": a ** 0.5, "sq": a ** 2,
                        "dec": a * 1.5}.items():
            r, _ = P.prove(p.cond, real(term(p.result[k])) == q(want))
            if r != "unsat":
                raise HarnessError(f"selftest: {k} wrong for x={a}")
            cases += 1
        if not isinstance(p.result["dec"], Decimal) or not isinstance(p.result["sqrt"], float):
            raise HarnessError("selftest: kinds")
    # round / floor / ceil (values whose decimal rounding is exact in binary)
    import math as _m
    for a in (0.5, 1.5, 2.5, -0.5, -1.5, 2.25, 2.75, -2.25, 0.125, 0.375, 7.0, -3.0, 1234.5678):
        def run_r() -> Any:
            x = sym("float", "x")
            return {"r0": round(x), "r1": round(x, 1), "r2": round(x, 2), "fl": _m.floor(x) if False else x.__floor__(),
                    "ce": x.__ceil__()}

        ex = explore(run_r, assumptions=[z3.Real("x") == q(a)])
        p = ex.paths[0]
        if len(ex.paths) != 1 or p.exc is not None:
            raise HarnessError(f"selftest: round paths {a}")
        want_r = {"r0": round(a), "fl": _m.floor(a), "ce": _m.ceil(a)}
        # ties at one or two digits are decided by the binary value in CPython: compare only exact cases
        from decimal import Decimal as _D, ROUND_HALF_EVEN as _RHE
        want_r["r1"] = Fraction(_D(a).quantize(_D("0.1"), rounding=_RHE))
        want_r["r2"] = Fraction(_D(a).quantize(_D("0.01"), rounding=_RHE))
        if float(want_r["r1"]) != round(a, 1) or float(want_r["r2"]) != round(a, 2):
            raise HarnessError(f"selftest: reference rounding of {a} disagrees with CPython")
        for k, want in want_r.items():
            r, _ = P.prove(p.cond, real(term(p.result[k])) == q(want))
            if r != "unsat":
                raise HarnessError(f"selftest: {k} wrong for x={a}")
            cases += 1
    # fork on division by zero and on negative sqrt
    def run3() -> Any:
        x = sym("float", "x")
        return 1 / x

    ex = explore(run3)
    if sorted(p.outcome for p in ex.paths) != ["ZeroDivisionError", "ok"]:
        raise HarnessError("selftest: division fork")
    cases += 1
    # the text languages of SStr against CPython: what str()/repr() print is in the language, and
    # int() accepts exactly the members of INT_ACCEPTS among the probes
    S = z3.Solver()
    S.set("timeout", 10000)

    def member(text: str, lang: Any) -> bool:
        r = str(S.check(z3.InRe(z3.StringVal(text), lang)))
        if r == "unknown":
            raise HarnessError("selftest: regex membership undecided")
        return r == "sat"

    for d in ("5", "-5", "0", "5.0", "0.00", "1E+3", "1.23E-7", "0E-7", "-0", "123456789012345678901234567890",
              "1000", "0.1", "-12.50"):
        if not member(str(Decimal(d)), DEC_TEXT):
            raise HarnessError(f"selftest: str(Decimal({d!r})) outside DEC_TEXT")
        cases += 1
    for f in (5.0, -0.5, 1e-05, 1e+22, 1.5e300, 0.1, -0.0, 123456.789, 5e-324):
        if not member(repr(f), FLOAT_TEXT):
            raise HarnessError(f"selftest: repr({f!r}) outside FLOAT_TEXT")
        cases += 1
    for n in (0, 7, -7, 10 ** 30):
        if not member(str(n), INT_TEXT):
            raise HarnessError(f"selftest: str({n}) outside INT_TEXT")
        cases += 1
    for text in ("5", "-5", "+5", " 5 ", "5.0", "1E+3", "1_000", "_1", "1__0", "", "-", "0x10", "٣", "5\n", "0E-7"):
        try:
            int(text)
            ok = True
        except ValueError:
            ok = False
        if text.isascii() and member(text, INT_ACCEPTS) != ok:
            raise HarnessError(f"selftest: INT_ACCEPTS disagrees with int() on {text!r}")
        cases += 1
    # math.isclose model against CPython
    for a, b, rt, at in ((1.0, 1.0 + 1e-12, 1e-9, 0.0), (1.0, 1.1, 1e-9, 0.0), (0.0, 1e-10, 1e-9, 1e-9),
                         (0.0, 1e-8, 1e-9, 1e-9), (-5.0, -5.0, 0.0, 0.0), (1e-10, -1e-10, 1e-15, 1e-9)):
        def run4() -> Any:
            return _isclose(sym("float", "x"), sym("float", "y"), rel_tol=rt, abs_tol=at)

        ex = explore(run4, assumptions=[z3.Real("x") == q(a), z3.Real("y") == q(b)])
        if len(ex.paths) != 1 or bool(z3.is_true(z3.simplify(bool_term(ex.paths[0].result)))) != \
                _math.isclose(a, b, rel_tol=rt, abs_tol=at):
            r, _ = P.prove(ex.paths[0].cond, bool_term(ex.paths[0].result) ==
                           z3.BoolVal(_math.isclose(a, b, rel_tol=rt, abs_tol=at)))
            if r != "unsat":
                raise HarnessError(f"selftest: isclose({a}, {b}) wrong")
        cases += 1
    return cases


# --------------------------------------------------------------------------------------
# harness helper: one `build` function serves the symbolic run, the concrete self-check
# and the replay


class Case:
    """`build(vals)` performs public-API calls with `vals[name]` as numbers (proxies in the
    symbolic run, plain numbers in the self-check) and returns a dict of observables."""

    def __init__(self, build: Callable[[Dict[str, Any]], Dict[str, Any]],
                 kinds: Dict[str, str], assumptions: Callable[[Dict[str, z3.ArithRef]],
                                                              Sequence[z3.BoolRef]] = None,
                 max_paths: int = 256, timeout_ms: int = 10000) -> None:
        self.build, self.kinds = build, kinds
        self.vars = {n: var(k, n) for n, k in kinds.items()}
        self.assumptions = list(assumptions(self.vars)) if assumptions else []
        self.max_paths, self.timeout_ms = max_paths, timeout_ms
        self.selfchecked = 0

    def explore(self) -> Exploration:
        def fn() -> Any:
            vals = {n: mk(k, self.vars[n]) for n, k in self.kinds.items()}
            return self.build(vals)

        return explore(fn, assumptions=self.assumptions, max_paths=self.max_paths,
                       query_timeout_ms=self.timeout_ms)

    def concrete(self, model: Dict[str, Fraction]) -> Tuple[Any, Optional[BaseException]]:
        vals = {n: to_python(k, model[n]) for n, k in self.kinds.items()}
        try:
            return self.build(vals), None
        except HarnessError:
            raise
        except Exception as e:
            return None, e

    def selfcheck(self, path: Path, P: Prover, rel: float = 1e-9, tries: int = 3) -> bool:
        """Translator validation + reachability witness for one path: a shaped model of the
        path condition is evaluated in the z3 terms *and* fed as plain numbers to the same
        library calls; the two must agree.  Exact real arithmetic and floats legitimately
        disagree at ties (e.g. 1000*s*0.001 == s holds in doubles, not in reals), so a
        mismatch is retried on further models; only if every model mismatches is the proxy
        layer declared wrong.  Returns False when no shaped model exists."""
        extra: List[z3.BoolRef] = []
        last: Optional[HarnessError] = None
        for _ in range(tries):
            try:
                m = self._selfcheck_once(path, P, rel, extra)
            except HarnessError as e:
                if not str(e).startswith("self-check:"):
                    raise
                last = e
                m = self._last_model
            else:
                return m is not None
            if m is None:
                break
            extra.append(z3.And(*[v != q(m[str(v)]) for v in self.vars.values()]))
        if last is not None:
            if self._last_model is not None and _near_tie(path, self.vars, self._last_model):
                # a path that exists only on a branch boundary: exact reals and doubles
                # legitimately take different sides there; it cannot be float-validated
                self.tie_paths = getattr(self, "tie_paths", 0) + 1
                return False
            raise last
        return False

    def _selfcheck_once(self, path: Path, P: Prover, rel: float,
                        extra: Sequence[z3.BoolRef]) -> Optional[Dict[str, Fraction]]:
        self._last_model = None
        vs = list(self.vars.values())
        conds = [path.cond, *extra]
        m = P.shaped_model(conds, vs)
        if m is None:
            return None
        self._last_model = m
        res, exc = self.concrete(m)
        if isinstance(path.exc, NonFinite):
            # the real run continues with an infinity / NaN; whatever happens next is
            # outside what the proxies model
            self.selfchecked += 1
            return m
        if (exc is None) != (path.exc is None):
            # a fork that exists only in exact arithmetic (e.g. x == 0.3 exactly) can be
            # unreachable in floats; anything else is a translator bug
            raise HarnessError(
                f"self-check: symbolic path ended {path.outcome}, concrete run with {m} "
                f"ended {'ok' if exc is None else type(exc).__name__ + ': ' + str(exc)}")
        if exc is not None:
            if type(exc).__name__ != type(path.exc).__name__ and not (
                    isinstance(path.exc, ComplexResult)):
                raise HarnessError(f"self-check: exception {type(path.exc).__name__} vs "
                                   f"concrete {type(exc).__name__} at {m}")
            self.selfchecked += 1
            return m
        s = z3.Solver()
        s.set("timeout", self.timeout_ms)
        s.add(path.cond)
        for n, v in self.vars.items():
            s.add(v == q(m[n]))
        if str(s.check()) != "sat":
            return None
        mod = s.model()
        for k, want in res.items():
            got = path.result.get(k)
            if is_sym(got):
                gv = model_value(mod, got.t)
                wv = Fraction(want) if not isinstance(want, float) or want == want else None
                if wv is None:
                    continue
                if abs(gv - wv) > rel * max(abs(gv), abs(wv), 1):
                    raise HarnessError(f"self-check: observable {k}: term gives {float(gv)!r}, "
                                       f"library gives {want!r} at {m}")
                if kind_of(got) != kind_of(want):
                    raise HarnessError(f"self-check: observable {k}: kind {kind_of(got)} vs "
                                       f"{kind_of(want)} at {m}")
            elif isinstance(got, SBool):
                gb = z3.is_true(mod.eval(got.t, model_completion=True))
                if gb != bool(want) and _term_near_tie(got.t, mod):
                    continue  # an unforced comparison sitting on a tie: reals != doubles
                if gb != bool(want):
                    raise HarnessError(f"self-check: truth value {k}: {gb} vs {want} at {m}")
            elif isinstance(got, (SInt,)):
                raise HarnessError("unreachable")
            elif isinstance(got, (int, float, Decimal)) and not isinstance(got, bool):
                if isinstance(want, (int, float, Decimal)) and abs(float(got) - float(want)) > \
                        rel * max(abs(float(got)), 1):
                    raise HarnessError(f"self-check: {k}: {got!r} vs {want!r} at {m}")
            else:
                if got is not want and got != want:
                    raise HarnessError(f"self-check: {k}: {got!r} vs {want!r} at {m}")
        self.selfchecked += 1
        return m
