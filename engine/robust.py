"""Escalation ladder for solver queries that come back `unknown`.

z3's verdict on mixed Int/Real nonlinear queries depends on the state the process happens to be
in (which tasks the pool handed this worker before, wall-clock load): the same assertion set is
`unsat` in 0.1 s on one run and `unknown` after the timeout on the next.  An `unknown` is never
read as a verdict; before an obligation is recorded as inconclusive the query is re-asked

  1. as its *real relaxation* (every Int constant becomes a Real constant, `to_real` disappears;
     refused when the formula uses div/mod/to_int/is_int or uninterpreted symbols over Int):
     the relaxation has more models than the query, so `unsat` there is `unsat` here; `sat`
     there says nothing and is discarded;
  2. unchanged, in fresh z3 contexts (no state inherited from earlier queries) with other
     random seeds and growing timeouts.

Only a definite answer to the original query, or `unsat` of the relaxation, is returned.
"""

from __future__ import annotations

import os
import time
from typing import Any, Dict, List, Optional, Sequence, Tuple

import z3

_ARITH_REBUILD = {
    z3.Z3_OP_ADD: lambda a: z3.Sum(a) if len(a) > 1 else a[0],
    z3.Z3_OP_MUL: lambda a: z3.Product(a) if len(a) > 1 else a[0],
    z3.Z3_OP_SUB: lambda a: a[0] - z3.Sum(a[1:]) if len(a) > 2 else a[0] - a[1],
    z3.Z3_OP_UMINUS: lambda a: -a[0],
    z3.Z3_OP_DIV: lambda a: a[0] / a[1],
    z3.Z3_OP_LE: lambda a: a[0] <= a[1],
    z3.Z3_OP_LT: lambda a: a[0] < a[1],
    z3.Z3_OP_GE: lambda a: a[0] >= a[1],
    z3.Z3_OP_GT: lambda a: a[0] > a[1],
}
_BOOL_REBUILD = {
    z3.Z3_OP_AND: lambda a: z3.And(*a),
    z3.Z3_OP_OR: lambda a: z3.Or(*a),
    z3.Z3_OP_NOT: lambda a: z3.Not(a[0]),
    z3.Z3_OP_IMPLIES: lambda a: z3.Implies(a[0], a[1]),
    z3.Z3_OP_XOR: lambda a: z3.Xor(a[0], a[1]),
}

STATS = {"escalated": 0, "relaxation_unsat": 0, "fresh_context": 0, "still_unknown": 0,
         "seconds": 0.0}
LOG_ENV = "VERIF_ESCALATION_LOG"  # set by engine/harness.py; worker processes inherit it


def _log(how: str, seconds: float) -> None:
    STATS[how] += 1
    path = os.environ.get(LOG_ENV)
    if path:
        try:
            with open(path, "a") as f:
                f.write(f"{how} {seconds:.3f}\n")
        except OSError:
            pass


def read_log() -> Dict[str, Any]:
    """Summary of this run's escalations (all processes), for the evidence file."""
    out: Dict[str, Any] = {"escalated": 0, "relaxation_unsat": 0, "fresh_context": 0,
                           "still_unknown": 0, "seconds": 0.0}
    path = os.environ.get(LOG_ENV)
    if path and os.path.exists(path):
        with open(path) as f:
            for line in f:
                parts = line.split()
                if len(parts) == 2 and parts[0] in out:
                    out[parts[0]] += 1
                    out["escalated"] += 1
                    out["seconds"] = round(out["seconds"] + float(parts[1]), 3)
    return out


class _NotRelaxable(Exception):
    pass


def _relax(e: z3.ExprRef, memo: Dict[int, z3.ExprRef], ctx: z3.Context) -> z3.ExprRef:
    """`e` (already living in `ctx`) with Int constants read as Real constants."""
    key = e.get_id()
    if key in memo:
        return memo[key]
    if not z3.is_app(e):
        raise _NotRelaxable("quantifier/var")
    k = e.decl().kind()
    n = e.num_args()
    if n == 0:
        if z3.is_int_value(e):
            out: z3.ExprRef = z3.RealVal(e.as_long(), ctx)
        elif z3.is_rational_value(e) or z3.is_true(e) or z3.is_false(e):
            out = e
        elif k == z3.Z3_OP_UNINTERPRETED:
            if e.sort().kind() == z3.Z3_INT_SORT:
                out = z3.Real(f"{e.decl().name()}!relaxed", ctx)
            elif e.sort().kind() in (z3.Z3_REAL_SORT, z3.Z3_BOOL_SORT):
                out = e
            else:
                raise _NotRelaxable(str(e.sort()))
        else:
            raise _NotRelaxable(str(e))
        memo[key] = out
        return out
    args = [_relax(c, memo, ctx) for c in e.children()]
    if k == z3.Z3_OP_TO_REAL:
        out = args[0]
    elif k in _ARITH_REBUILD:
        out = _ARITH_REBUILD[k](args)
    elif k in _BOOL_REBUILD:
        out = _BOOL_REBUILD[k](args)
    elif k == z3.Z3_OP_EQ:
        out = args[0] == args[1]
    elif k == z3.Z3_OP_DISTINCT:
        out = z3.Distinct(*args)
    elif k == z3.Z3_OP_ITE:
        out = z3.If(args[0], args[1], args[2])
    elif k == z3.Z3_OP_POWER and z3.is_int_value(e.arg(1)) and 0 <= e.arg(1).as_long() <= 16:
        n_ = e.arg(1).as_long()
        out = z3.Product([args[0]] * n_) if n_ > 1 else (args[0] if n_ == 1 else
                                                        z3.RealVal(1, ctx))
    else:
        # div, mod, rem, to_int, is_int, uninterpreted functions, strings, ...: the integer
        # reading matters (or is unknown), no relaxation
        raise _NotRelaxable(e.decl().name())
    memo[key] = out
    return out


def _has_int(es: Sequence[z3.ExprRef]) -> bool:
    seen: set = set()
    stack = list(es)
    while stack:
        e = stack.pop()
        i = e.get_id()
        if i in seen:
            continue
        seen.add(i)
        if z3.is_app(e):
            if e.num_args() == 0 and e.decl().kind() == z3.Z3_OP_UNINTERPRETED and \
                    e.sort().kind() == z3.Z3_INT_SORT:
                return True
            stack.extend(e.children())
    return False


def _ask(assertions: Sequence[z3.ExprRef], ctx: z3.Context, timeout_ms: int, seed: int
         ) -> Tuple[str, Optional[z3.Solver]]:
    s = z3.Solver(ctx=ctx)
    s.set("timeout", int(timeout_ms))
    if seed:
        s.set("random_seed", seed)
    s.add(*assertions)
    return str(s.check()), s


def escalate(assertions: Sequence[z3.ExprRef], timeout_ms: int,
             want_model: bool = True, light: bool = False
             ) -> Tuple[str, Optional[z3.ModelRef]]:
    """Called after the ordinary attempt said `unknown`.  Returns ('unsat', None),
    ('sat', model in the callers' context) or ('unknown', None).

    Budgets: where a re-asked query is decided at all it is decided fast (measured on C12
    thorough: nearly all within about a second of the deciding attempt, the slowest in 7 s,
    against queries that stay undecided however long they run), so the ladder prefers several short attempts under different seeds to one long
    one, and ends with one attempt under the caller's full budget.  `light` (path-feasibility
    queries, where `unknown` is soundly read as "maybe feasible") stops after two short ones."""
    assertions = list(assertions)
    if not assertions:
        return "unknown", None
    main = assertions[0].ctx
    t0 = time.time()
    STATS["escalated"] += 1
    how = "still_unknown"
    base = max(timeout_ms, 5000)
    short = min(base, 4000)
    try:
        # 1. real relaxation, fresh context
        if _has_int(assertions):
            ctx = z3.Context()
            moved = [a.translate(ctx) for a in assertions]
            try:
                memo: Dict[int, z3.ExprRef] = {}
                relaxed = [_relax(a, memo, ctx) for a in moved]
            except _NotRelaxable:
                relaxed = None
            if relaxed is not None:
                r, _ = _ask(relaxed, ctx, short, 0)
                if r == "unsat":
                    how = "relaxation_unsat"
                    return "unsat", None
        # 2. the query itself, fresh contexts, other seeds
        plan = ((short, 0), (short, 17)) if light else \
            ((short, 0), (short, 17), (short, 4242), (base, 99991))
        for budget, seed in plan:
            ctx = z3.Context()
            moved = [a.translate(ctx) for a in assertions]
            r, s = _ask(moved, ctx, budget, seed)
            if r == "unsat":
                how = "fresh_context"
                return "unsat", None
            if r == "sat":
                how = "fresh_context"
                assert s is not None
                return "sat", (s.model().translate(main) if want_model else None)
        return "unknown", None
    finally:
        STATS["seconds"] += time.time() - t0
        _log(how, time.time() - t0)


def check(S: z3.Solver, timeout_ms: int, *assumptions: z3.ExprRef
          ) -> Tuple[str, Optional[z3.ModelRef]]:
    """`S.check(*assumptions)` with the ladder behind it: ('sat', model) | ('unsat', None) |
    ('unknown', None).  (An unsat core is only available from `S` when it answered itself.)"""
    if forced():
        S.set("timeout", 1)
    r = str(S.check(*assumptions))
    if forced():
        S.set("timeout", int(timeout_ms))
    if r == "sat":
        return r, S.model()
    if r == "unsat":
        return r, None
    return escalate(list(S.assertions()) + list(assumptions), timeout_ms)


def forced() -> bool:
    """Development switch: VERIF_FORCE_ESCALATE=1 gives every first attempt a 1 ms budget so
    that the whole run goes through the ladder (used to validate the ladder against the
    ordinary verdicts; never set by a registered command)."""
    return os.environ.get("VERIF_FORCE_ESCALATE") == "1"


def selftest() -> int:
    """The ladder's own sanity, run with every check: the relaxation refuses integer-only
    operators, never turns an integer-unsatisfiable-but-real-satisfiable query into a verdict,
    and a forced escalation returns the ordinary verdicts (with a usable model)."""
    x, y = z3.Ints("rx ry")
    r_ = z3.Real("rr")
    n = 0
    for bad in (x / 2 == y, x % 2 == 1, z3.ToInt(r_) == x, z3.IsInt(r_),
                z3.Function("rf", z3.IntSort(), z3.IntSort())(x) == y):
        ctx = z3.Context()
        try:
            _relax(bad.translate(ctx), {}, ctx)
        except _NotRelaxable:
            n += 1
            continue
        raise AssertionError(f"relaxation accepted {bad}")
    # 2x == 1: unsat over Int, sat over Real -> the relaxation must not decide it; the fresh
    # contexts do
    saved = os.environ.pop(LOG_ENV, None)
    try:
        if escalate([2 * x == 1], 5000) != ("unsat", None):
            raise AssertionError("2x == 1 over Int")
        st, m = escalate([x * x == 49, x > 0, z3.ToReal(x) * r_ == 1], 5000)
        if st != "sat" or m is None or m.eval(x).as_long() != 7 or \
                m.eval(r_).as_fraction() * 7 != 1:
            raise AssertionError("model of an escalated query")
        before = STATS["relaxation_unsat"]
        if escalate([x >= 1, z3.ToReal(x) * z3.ToReal(x) + r_ * r_ < z3.ToReal(x)], 5000)[0] != "unsat" \
                or STATS["relaxation_unsat"] != before + 1:
            raise AssertionError("relaxation of x >= 1, x^2 + r^2 < x")
    finally:
        if saved is not None:
            os.environ[LOG_ENV] = saved
    return n + 3
