"""E3 `parsertables` -- SMT encodings generated from the parser artefacts.

Loaded at run time: (a) `measured._parser.DATA/MEMO` as shipped, (b) a fresh artefact generated
from `measured.lark` by the Makefile's own command in a scratch directory that is deleted
afterwards.  From each: terminal regexes as z3 `re` terms, LALR tables as data, an isomorphism
query between two automata, and a deterministic LALR driver unrolled over symbolic token
sequences.
"""

from __future__ import annotations

import importlib.util
import os
import shutil
import subprocess
import sys
import tempfile
from typing import Any, Dict, List, Optional, Sequence, Tuple

import z3

REPO = os.environ.get("VERIF_REPO", "/repo")   # development only: another checkout of the library

from . import robust
from .symnum import HarnessError

try:  # Python 3.11+
    import re._parser as sre_parse  # type: ignore
    import re._constants as sre_c  # type: ignore
except ImportError:  # pragma: no cover
    import sre_parse  # type: ignore
    import sre_constants as sre_c  # type: ignore


class Tables:
    def __init__(self, data: Dict[str, Any], memo: Dict[int, Any], origin: str) -> None:
        self.origin = origin
        p = data["parser"]["parser"]
        tok = p["tokens"]
        self.rules: Dict[int, Tuple] = {}
        self.terminals: Dict[str, Tuple] = {}
        for k, v in memo.items():
            if v["__type__"] == "Rule":
                o = v["options"]
                self.rules[k] = (str(v["origin"]["name"]), tuple(e["name"] for e in v["expansion"]),
                                 v["alias"], v["order"],
                                 (o["keep_all_tokens"], o["expand1"], o["priority"], tuple(o["empty_indices"])))
            elif v["__type__"] == "TerminalDef":
                pat = v["pattern"]
                self.terminals[v["name"]] = (pat["__type__"], pat["value"], tuple(pat.get("flags", ())),
                                             v["priority"])
        self.states: Dict[int, Dict[str, Tuple[str, Any]]] = {}
        for s, row in p["states"].items():
            self.states[s] = {}
            for t, (kind, arg) in row.items():
                self.states[s][tok[t]] = ("shift", arg) if kind == 0 else ("reduce", arg["@"])
        # the rule list the tree builder creates callbacks from
        self.rule_list = sorted(str(self.rules[r["@"]]) if r["@"] in self.rules else f"<dangling {r}>"
                                for r in data["rules"])
        referenced = {arg for row in self.states.values() for k, arg in row.values() if k == "reduce"}
        self.rules_referenced_but_unlisted = sorted(
            str(self.rules.get(r, r)) for r in referenced if {"@": r} not in data["rules"])
        self.start_states = dict(p["start_states"])
        self.end_states = dict(p["end_states"])
        lc = data["parser"]["lexer_conf"]
        self.ignore = tuple(lc["ignore"])
        self.lexer_type = lc["lexer_type"]
        self.start = tuple(data["options"]["start"])
        self.option_subset = {k: data["options"].get(k) for k in
                              ("parser", "lexer", "start", "keep_all_tokens", "maybe_placeholders",
                               "priority", "ambiguity", "regex", "g_regex_flags", "use_bytes")}
        self.term_names = sorted(self.terminals)
        nts = set()
        for origin_, exp, *_ in self.rules.values():
            nts.add(origin_)
        self.nonterminals = sorted(nts)

    def rule_content(self, rid: int) -> Tuple:
        return self.rules[rid]


def load_shipped() -> Tables:
    from measured import _parser

    t = Tables(_parser.DATA, _parser.MEMO, "shipped src/measured/_parser.py")
    t.source = open(_parser.__file__).read()  # type: ignore
    return t


def runtime_definitions(source: str) -> Dict[str, str]:
    """Every top-level class / function of a generated parser module, as a formatting-independent
    AST dump (the Makefile runs black and isort over the file, and sed renames Lark_StandAlone)."""
    import ast

    tree = ast.parse(source.replace("Lark_StandAlone", "Parser"))
    out: Dict[str, str] = {}
    for n in tree.body:
        if isinstance(n, (ast.ClassDef, ast.FunctionDef)):
            # docstrings are formatting too
            for sub in ast.walk(n):
                if isinstance(sub, (ast.ClassDef, ast.FunctionDef)) and sub.body and \
                        isinstance(sub.body[0], ast.Expr) and isinstance(sub.body[0].value, ast.Constant) and \
                        isinstance(sub.body[0].value.value, str):
                    sub.body = sub.body[1:] or [ast.Pass()]
            out[n.name] = ast.dump(n, include_attributes=False)
    return out


def build_fresh(grammar_path: str = REPO + "/src/measured/measured.lark",
                python: str = "/venv/bin/python") -> Tables:
    """The Makefile's own generation command, in a scratch directory outside /repo and /verif."""
    mk = open(REPO + "/Makefile").read()
    if "lark.tools.standalone --start unit --start quantity" not in mk:
        raise HarnessError("the Makefile rule for _parser.py changed: regenerate command unknown")
    tmp = tempfile.mkdtemp(prefix="c16-fresh-")
    try:
        out = os.path.join(tmp, "fresh_parser.py")
        p = subprocess.run([python, "-m", "lark.tools.standalone", "--start", "unit", "--start",
                            "quantity", grammar_path], capture_output=True, text=True, timeout=300,
                           cwd=tmp)
        if p.returncode != 0:
            raise HarnessError(f"grammar does not build: {p.stderr[-600:]}")
        with open(out, "w") as f:
            f.write(p.stdout)
        spec = importlib.util.spec_from_file_location("c16_fresh_parser", out)
        mod = importlib.util.module_from_spec(spec)
        assert spec.loader is not None
        spec.loader.exec_module(mod)
        t = Tables(mod.DATA, mod.MEMO, "fresh build of measured.lark (lark.tools.standalone)")
        t.module = mod  # type: ignore
        t.source = p.stdout  # type: ignore
        return t
    finally:
        shutil.rmtree(tmp, ignore_errors=True)


# --------------------------------------------------------------------------------------
# regex -> z3


_FLAG_LETTERS = {"i": 2, "L": 4, "m": 8, "s": 16, "u": 32, "x": 64, "a": 256}
_FOLD: List[int] = [0]          # flags in force while translating (IGNORECASE | ASCII matter)
_ALLCHARS = "".join(chr(c) for c in range(0x30000) if not 0xD800 <= c <= 0xDFFF)
_EFFECTIVE: Dict[Any, List[Tuple[int, int]]] = {}


def effective_ranges(ranges: Sequence[Tuple[int, int]], flags: int) -> List[Tuple[int, int]]:
    """The characters a character set matches under the given flags: with IGNORECASE the set is
    closed under Python's own case-insensitive matching, read off the real `re` by matching the
    class against every code point below U+30000 (a static table, not a sample)."""
    import re as _re

    if not flags & 2:
        return list(ranges)
    key = (tuple(ranges), flags & (2 | 256))
    if key not in _EFFECTIVE:
        cls = "[" + "".join(_re.escape(chr(a)) if a == b else f"{_re.escape(chr(a))}-{_re.escape(chr(b))}"
                            for a, b in ranges) + "]"
        hits = [ord(c) for c in _re.compile(cls, flags & (2 | 256)).findall(_ALLCHARS)]
        out: List[Tuple[int, int]] = []
        for c in hits:
            if out and out[-1][1] == c - 1:
                out[-1] = (out[-1][0], c)
            else:
                out.append((c, c))
        _EFFECTIVE[key] = out
    return _EFFECTIVE[key]


def _set_re(ranges: Sequence[Tuple[int, int]]) -> z3.ReRef:
    rs = effective_ranges(ranges, _FOLD[0])
    alts = [z3.Re(_chr(a)) if a == b else z3.Range(chr(a), chr(b)) for a, b in rs]
    return alts[0] if len(alts) == 1 else z3.Union(*alts)


def flags_int(flags: Sequence[str] = (), gflags: int = 0) -> int:
    fl = int(gflags or 0)
    for f in flags or ():
        if f not in _FLAG_LETTERS:
            raise HarnessError(f"regex flag {f!r} unknown")
        fl |= _FLAG_LETTERS[f]
    if fl & 4:
        raise HarnessError("LOCALE flag on a str pattern")
    return fl


def regex_to_z3(pattern: str, flags: Sequence[str] = (), gflags: int = 0) -> z3.ReRef:
    fl = flags_int(flags, gflags)
    tree = sre_parse.parse(pattern, fl & ~32)
    _FOLD[0] = fl | (tree.state.flags if hasattr(tree, "state") else 0)
    try:
        return _tr(tree)
    finally:
        _FOLD[0] = 0


def _chr(c: int) -> z3.SeqRef:
    return z3.StringVal(chr(c))


def _tr(seq: Any) -> z3.ReRef:
    parts = [_tr1(op, av) for op, av in seq]
    if not parts:
        return z3.Re(z3.StringVal(""))
    if len(parts) == 1:
        return parts[0]
    return z3.Concat(*parts)


def _tr_in(items: Any) -> z3.ReRef:
    alts = []
    negate = False
    for op, av in items:
        if op is sre_c.NEGATE:
            negate = True
        elif op is sre_c.LITERAL:
            alts.append(_set_re([(av, av)]))
        elif op is sre_c.RANGE:
            alts.append(_set_re([(av[0], av[1])]))
        elif op is sre_c.CATEGORY:
            alts.append(_category(av))
        else:
            raise HarnessError(f"regex class item {op} outside the translated subset")
    r = alts[0] if len(alts) == 1 else z3.Union(*alts)
    if negate:
        raise HarnessError("negated character classes are outside the translated subset")
    return r


def _category(av: Any) -> z3.ReRef:
    if av is sre_c.CATEGORY_DIGIT:
        return z3.Range("0", "9")
    if av is sre_c.CATEGORY_SPACE:
        return z3.Union(*[z3.Re(z3.StringVal(c)) for c in " \t\n\r\x0b\x0c"])
    raise HarnessError(f"regex category {av} outside the translated subset")


def _tr1(op: Any, av: Any) -> z3.ReRef:
    if op is sre_c.LITERAL:
        return _set_re([(av, av)])
    if op is sre_c.IN:
        return _tr_in(av)
    if op is sre_c.BRANCH:
        return z3.Union(*[_tr(b) for b in av[1]])
    if op is sre_c.SUBPATTERN:
        saved = _FOLD[0]
        _FOLD[0] = (saved | av[1]) & ~av[2]          # scoped inline flags (?i:...) / (?-i:...)
        try:
            return _tr(av[3])
        finally:
            _FOLD[0] = saved
    if op in (sre_c.MAX_REPEAT, sre_c.MIN_REPEAT):
        lo, hi, sub = av
        r = _tr(sub)
        if lo == 0 and hi == 1:
            return z3.Option(r)
        if lo == 0 and hi == sre_c.MAXREPEAT:
            return z3.Star(r)
        if lo == 1 and hi == sre_c.MAXREPEAT:
            return z3.Plus(r)
        if hi == sre_c.MAXREPEAT:
            return z3.Concat(*([r] * lo), z3.Star(r))
        return z3.Loop(r, lo, hi)
    if op is sre_c.CATEGORY:
        return _category(av)
    raise HarnessError(f"regex operator {op} outside the translated subset")


def z3_string(val: Any) -> str:
    """Python str of a z3 string value (z3 prints non-ASCII as \\u{XXXX})."""
    import re as _re

    raw = val.as_string()
    return _re.sub(r"\\u\{([0-9a-fA-F]+)\}", lambda m: chr(int(m.group(1), 16)), raw)


def terminal_re(t: Tables, name: str) -> z3.ReRef:
    """The language the lexer matches for this terminal: its pattern under its own flags and the
    global g_regex_flags the embedded runtime compiles every terminal with."""
    kind, value, flags, _ = t.terminals[name]
    g = t.option_subset.get("g_regex_flags") or 0
    if kind == "PatternStr":
        import re as _re

        return regex_to_z3(_re.escape(value), flags, g)
    return regex_to_z3(value, flags, g)


def char_sets(pattern: str) -> List[List[Tuple[int, int]]]:
    """Every character set (as code-point ranges) occurring in a regex."""
    out: List[List[Tuple[int, int]]] = []

    def walk(seq: Any) -> None:
        for op, av in seq:
            if op is sre_c.LITERAL:
                out.append([(av, av)])
            elif op is sre_c.IN:
                rs = []
                for o2, a2 in av:
                    if o2 is sre_c.LITERAL:
                        rs.append((a2, a2))
                    elif o2 is sre_c.RANGE:
                        rs.append((a2[0], a2[1]))
                    elif o2 is sre_c.CATEGORY and a2 is sre_c.CATEGORY_DIGIT:
                        rs.append((48, 57))
                    else:
                        raise HarnessError("class item outside subset")
                out.append(rs)
            elif op is sre_c.BRANCH:
                for b in av[1]:
                    walk(b)
            elif op is sre_c.SUBPATTERN:
                walk(av[3])
            elif op in (sre_c.MAX_REPEAT, sre_c.MIN_REPEAT):
                walk(av[2])
            else:
                raise HarnessError(f"operator {op} outside subset")

    walk(sre_parse.parse(pattern))
    return out


# --------------------------------------------------------------------------------------
# isomorphism of two LALR automata


def isomorphism(a: Tables, b: Tables, timeout_ms: int = 60000) -> Dict[str, Any]:
    """exists bijection pi: states(a) -> states(b) with pi(start) = start' and every action /
    goto entry corresponding (shift targets through pi, reduces by rules of equal content)."""
    import time

    sa, sb = sorted(a.states), sorted(b.states)
    if len(sa) != len(sb):
        return {"result": "unsat", "why": f"{len(sa)} vs {len(sb)} states"}
    S = z3.Solver()
    S.set("timeout", timeout_ms)
    pi = {s: z3.Int(f"pi_{s}") for s in sa}
    for s in sa:
        S.add(z3.Or(*[pi[s] == t for t in sb]))
    S.add(z3.Distinct(*pi.values()))
    for sym in a.start_states:
        if sym not in b.start_states:
            return {"result": "unsat", "why": f"start symbol {sym} missing"}
        S.add(pi[a.start_states[sym]] == b.start_states[sym])
        S.add(pi[a.end_states[sym]] == b.end_states[sym])
    for s in sa:
        for t in sb:
            ra, rb = a.states[s], b.states[t]
            if set(ra) != set(rb):
                S.add(pi[s] != t)
                continue
            conds = []
            ok = True
            for sym, (kind, arg) in ra.items():
                k2, arg2 = rb[sym]
                if kind != k2:
                    ok = False
                    break
                if kind == "shift":
                    conds.append(pi[arg] == arg2)
                elif a.rule_content(arg) != b.rule_content(arg2):
                    ok = False
                    break
            if not ok:
                S.add(pi[s] != t)
            else:
                S.add(z3.Implies(pi[s] == t, z3.And(*conds) if conds else z3.BoolVal(True)))
    t0 = time.time()
    r, m = robust.check(S, timeout_ms)
    out: Dict[str, Any] = {"result": r, "solver_s": time.time() - t0, "states": len(sa)}
    if r == "sat":
        out["pi"] = {s: m.eval(pi[s]).as_long() for s in sa}
    return out


# --------------------------------------------------------------------------------------
# unrolled deterministic LALR driver over a symbolic token sequence

ERR = -1


class Driver:
    """z3 terms for running one table on tokens tok[0..n-1] (terminal indices into `terms`,
    `len` of them, then $END).  Records, per step, the rule reduced (or -1 for a shift)."""

    def __init__(self, t: Tables, start: str, terms: List[str], toks: List[z3.ArithRef],
                 length: z3.ArithRef, max_steps: int, max_depth: int, tag: str,
                 rule_ids: Dict[Tuple, int]) -> None:
        self.t = t
        END = len(terms)
        symbols = terms + ["$END"]
        nt_index = {n: i for i, n in enumerate(t.nonterminals)}
        # finite functions as constant arrays with stores (select-over-store rewriting keeps the
        # lookups cheap); index = state * W + symbol
        W = max(len(symbols), len(nt_index)) + 1
        IA = z3.ArraySort(z3.IntSort(), z3.IntSort())
        kind_arr = z3.K(z3.IntSort(), z3.IntVal(0))
        arg_arr = z3.K(z3.IntSort(), z3.IntVal(ERR))
        goto_arr = z3.K(z3.IntSort(), z3.IntVal(ERR))
        for st, row in t.states.items():
            for sym, (kind, arg) in row.items():
                if sym in symbols:
                    ix = st * W + symbols.index(sym)
                    kind_arr = z3.Store(kind_arr, ix, 1 if kind == "shift" else 2)
                    arg_arr = z3.Store(arg_arr, ix, arg)
                if sym in nt_index and kind == "shift":
                    goto_arr = z3.Store(goto_arr, st * W + nt_index[sym], arg)
        len_arr = z3.K(z3.IntSort(), z3.IntVal(0))
        nt_arr = z3.K(z3.IntSort(), z3.IntVal(ERR))
        canon_arr = z3.K(z3.IntSort(), z3.IntVal(ERR))
        for rid, (origin, exp, *_rest) in t.rules.items():
            len_arr = z3.Store(len_arr, rid, len(exp))
            nt_arr = z3.Store(nt_arr, rid, nt_index[origin])
            canon_arr = z3.Store(canon_arr, rid, rule_ids[t.rule_content(rid)])
        nstates = max(t.states) + 1

        def valid(s: Any) -> Any:
            return z3.And(s >= 0, s < nstates)

        def act_kind(s: Any, k: Any) -> Any:   # 0 error, 1 shift, 2 reduce
            return z3.If(valid(s), z3.Select(kind_arr, s * W + k), 0)

        def act_arg(s: Any, k: Any) -> Any:
            return z3.If(valid(s), z3.Select(arg_arr, s * W + k), ERR)

        def goto(s: Any, nt: Any) -> Any:
            return z3.If(z3.And(valid(s), nt >= 0), z3.Select(goto_arr, s * W + nt), ERR)

        def rule_len(r: Any) -> Any:
            return z3.Select(len_arr, r)

        def rule_nt(r: Any) -> Any:
            return z3.Select(nt_arr, r)

        def rule_canon(r: Any) -> Any:
            return z3.Select(canon_arr, r)

        self.constraints: List[Any] = []
        D = max_depth
        stack = [[z3.Int(f"{tag}_st{j}_{d}") for d in range(D)] for j in range(max_steps + 1)]
        depth = [z3.Int(f"{tag}_dp{j}") for j in range(max_steps + 1)]
        pos = [z3.Int(f"{tag}_pos{j}") for j in range(max_steps + 1)]
        status = [z3.Int(f"{tag}_status{j}") for j in range(max_steps + 1)]  # 0 run, 1 accept, 2 reject
        self.events = [z3.Int(f"{tag}_ev{j}") for j in range(max_steps)]     # canonical rule id / -1
        C = self.constraints
        C += [depth[0] == 1, pos[0] == 0, status[0] == 0, stack[0][0] == t.start_states[start]]
        end_state = t.end_states[start]

        def at(j: int, idx: Any) -> Any:
            e: Any = z3.IntVal(ERR)
            for d in range(D):
                e = z3.If(idx == d, stack[j][d], e)
            return e

        for j in range(max_steps):
            top = at(j, depth[j] - 1)
            tok = z3.IntVal(END)
            for i in reversed(range(len(toks))):
                tok = z3.If(pos[j] == i, toks[i], tok)
            tok = z3.If(pos[j] >= length, z3.IntVal(END), tok)
            kind, arg = act_kind(top, tok), act_arg(top, tok)
            running = status[j] == 0
            # shift
            sh = z3.And(running, kind == 1)
            rd = z3.And(running, kind == 2)
            er = z3.Or(z3.And(running, kind == 0), z3.And(running, kind == 1, tok == END))
            n = rule_len(arg)
            newtop = at(j, depth[j] - 1 - n)
            g = goto(newtop, rule_nt(arg))
            for d in range(D):
                C.append(stack[j + 1][d] == z3.If(
                    z3.And(sh, depth[j] == d), arg,
                    z3.If(z3.And(rd, depth[j] - n == d), g, stack[j][d])))
            C.append(depth[j + 1] == z3.If(sh, depth[j] + 1, z3.If(rd, depth[j] - n + 1, depth[j])))
            C.append(pos[j + 1] == z3.If(sh, pos[j] + 1, pos[j]))
            # lark accepts after a reduce + goto that lands in the end state while the
            # lookahead is $END ($END itself is never shifted)
            accept = z3.And(rd, tok == END, g == end_state)
            overflow = z3.Or(z3.And(sh, depth[j] >= D), z3.And(rd, z3.Or(depth[j] - n < 1, g == ERR)))
            C.append(status[j + 1] == z3.If(z3.Not(running), status[j],
                                            z3.If(accept, 1, z3.If(z3.Or(er, overflow), 2, 0))))
            C.append(self.events[j] == z3.If(rd, rule_canon(arg), z3.If(sh, -1, -2)))
            # unwinding assertion material: a stack overflow must never be the reason to reject
            self.constraints.append(z3.Implies(sh, depth[j] < D))
        self.status = status
        self.final = status[max_steps]
        self.unfinished = status[max_steps] == 0


def canonical_rule_ids(*tables: Tables) -> Dict[Tuple, int]:
    ids: Dict[Tuple, int] = {}
    for t in tables:
        for rid in sorted(t.rules):
            ids.setdefault(t.rule_content(rid), len(ids))
    return ids


def python_driver(t: Tables, start: str, toks: List[str]) -> Tuple[str, List[Any]]:
    """Reference LALR driver in plain Python over the same table data (used to validate the
    z3 unrolling and as the concrete replay of token sequences)."""
    stack = [t.start_states[start]]
    events: List[Any] = []
    seq = list(toks) + ["$END"]
    i = 0
    while True:
        row = t.states[stack[-1]]
        tok = seq[i]
        if tok not in row:
            return "reject", events
        kind, arg = row[tok]
        if kind == "shift":
            if tok == "$END":
                return "reject", events
            stack.append(arg)
            events.append(-1)
            i += 1
        else:
            origin, exp, *_ = t.rules[arg]
            if len(exp) >= len(stack):
                return "crash", events     # a corrupt table pops below the stack bottom
            if exp:
                del stack[-len(exp):]
            events.append(t.rule_content(arg))
            g = t.states[stack[-1]].get(origin)
            if g is None:
                return "reject", events
            stack.append(g[1])
            if tok == "$END" and g[1] == t.end_states[start]:
                return "accept", events


# --------------------------------------------------------------------------------------
# product reachability: bounded model checking of the synchronous product of two automata


def product_search(a: Tables, b: Tables, K: int, timeout_ms: int = 120000) -> Dict[str, Any]:
    """Is there a path of <= K grammar symbols (terminals shift, nonterminals goto) from a common
    start pair to a pair of states that disagree on some symbol (different action kind, reduce by
    rules of different content, presence of a goto, or being the accepting state)?

    Both parsers are deterministic and move their stacks in lock-step as long as they agree, so
    the states at equal stack positions always form such a path; no disagreement reachable within
    K >= number of reachable pairs means identical behaviour on every input."""
    import time

    symbols = sorted(set(a.term_names) | set(b.term_names) | set(a.nonterminals) | set(b.nonterminals) | {"$END"})
    ids = canonical_rule_ids(a, b)

    def tables(t: Tables) -> Tuple[Any, Any]:
        def kind(s: Any, x: Any) -> Any:     # 0 none, 1 shift/goto, 2 reduce
            e: Any = z3.IntVal(0)
            for st, row in t.states.items():
                for sym, (k, arg) in row.items():
                    e = z3.If(z3.And(s == st, x == symbols.index(sym)), z3.IntVal(1 if k == "shift" else 2), e)
            return e

        def arg(s: Any, x: Any) -> Any:      # shift target, or canonical rule id for reduces
            e: Any = z3.IntVal(ERR)
            for st, row in t.states.items():
                for sym, (k, ar) in row.items():
                    v = ar if k == "shift" else ids[t.rule_content(ar)]
                    e = z3.If(z3.And(s == st, x == symbols.index(sym)), z3.IntVal(v), e)
            return e

        return kind, arg

    ka, aa = tables(a)
    kb, ab = tables(b)
    S = z3.Solver()
    S.set("timeout", timeout_ms)
    sa = [z3.Int(f"sa{i}") for i in range(K + 1)]
    sb = [z3.Int(f"sb{i}") for i in range(K + 1)]
    sym = [z3.Int(f"sym{i}") for i in range(K)]
    ln, X, start = z3.Int("plen"), z3.Int("X"), z3.Int("start")
    starts = [s for s in a.start if s in b.start_states]
    S.add(start >= 0, start < len(starts), ln >= 0, ln <= K, X >= 0, X < len(symbols))
    for i, st in enumerate(starts):
        S.add(z3.Implies(start == i, z3.And(sa[0] == a.start_states[st], sb[0] == b.start_states[st])))
    for i in range(K):
        S.add(sym[i] >= 0, sym[i] < len(symbols))
        act = i < ln
        S.add(z3.Implies(act, z3.And(ka(sa[i], sym[i]) == 1, kb(sb[i], sym[i]) == 1,
                                     sa[i + 1] == aa(sa[i], sym[i]), sb[i + 1] == ab(sb[i], sym[i]))))
        S.add(z3.Implies(z3.Not(act), z3.And(sa[i + 1] == sa[i], sb[i + 1] == sb[i])))
    fa, fb = sa[K], sb[K]
    end_a = z3.Or(*[z3.And(start == i, fa == a.end_states[st]) for i, st in enumerate(starts)])
    end_b = z3.Or(*[z3.And(start == i, fb == b.end_states[st]) for i, st in enumerate(starts)])
    disagree = z3.Or(ka(fa, X) != kb(fb, X),
                     z3.And(ka(fa, X) == 2, aa(fa, X) != ab(fb, X)),
                     end_a != end_b)
    t0 = time.time()
    S.push()
    S.add(ln == 2)
    witness, _ = robust.check(S, timeout_ms)
    S.pop()
    S.add(disagree)
    r, m = robust.check(S, timeout_ms)
    out: Dict[str, Any] = {"result": r, "witness": witness, "K": K, "solver_s": time.time() - t0,
                           "symbols": len(symbols)}
    if r == "sat":
        ev = lambda v: m.eval(v, model_completion=True).as_long()
        n = ev(ln)
        out["path"] = [symbols[ev(sym[i])] for i in range(n)]
        out["lookahead"] = symbols[ev(X)]
        out["start"] = starts[ev(start)]
        out["states"] = (ev(fa), ev(fb))
    return out


def shortest_yields(t: Tables) -> Dict[str, List[str]]:
    """A shortest terminal string for every nonterminal."""
    y: Dict[str, List[str]] = {}
    changed = True
    while changed:
        changed = False
        for origin, exp, *_ in t.rules.values():
            if all(s in y or s in t.terminals for s in exp):
                cand: List[str] = []
                for s in exp:
                    cand += [s] if s in t.terminals else y[s]
                if origin not in y or len(cand) < len(y[origin]):
                    y[origin] = cand
                    changed = True
    return y


def expand_path(t: Tables, path: List[str], lookahead: str) -> List[str]:
    y = shortest_yields(t)
    out: List[str] = []
    for s in path + ([lookahead] if lookahead != "$END" else []):
        if s in t.terminals:
            out.append(s)
        elif s in y:
            out += y[s]
    return out
