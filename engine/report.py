"""Evidence writer, replay runner, known-findings handling, exit codes."""

from __future__ import annotations

import hashlib
import json
import os
import subprocess
import sys
import time
from typing import Any, Dict, List, Optional

ROOT = os.path.dirname(os.path.dirname(os.path.abspath(__file__)))
EVIDENCE_DIR = os.environ.get("VERIF_EVIDENCE_DIR") or os.path.join(ROOT, "evidence")
REPLAY_DIR = os.path.join(ROOT, "replays") if not os.environ.get("VERIF_EVIDENCE_DIR") else \
    os.path.join(os.environ["VERIF_EVIDENCE_DIR"], "replays")
KNOWN_FILE = os.path.join(ROOT, "known_findings.json")
REPO_PY = "/venv/bin/python"

EXIT_OK, EXIT_VIOLATION, EXIT_HARNESS = 0, 1, 3

REPLAY_HEADER = '''\
"""Replay of a counterexample for property {pid} ({signature}).

Only public API calls on the unmodified library, plain numbers, no proxies, no stubs.
Exit status 1 and a line starting with REPRODUCED when the violation shows; 0 otherwise.
Run:  /venv/bin/python {name}
"""
import sys
'''


def load_known() -> List[Dict[str, Any]]:
    if not os.path.exists(KNOWN_FILE):
        return []
    with open(KNOWN_FILE) as f:
        return json.load(f)["findings"]


class Report:
    def __init__(self, pid: str, tier: str, level: str) -> None:
        self.pid, self.tier, self.level = pid, tier, level
        self.t0 = time.time()
        self.seed = int(os.environ.get("VERIF_SEED", "0") or 0)
        self.coverage: Dict[str, Any] = {}
        self.assumptions: List[str] = []
        self.samples: List[Any] = []
        self.obligations = 0
        self.discharged = 0
        self.inconclusive: List[str] = []
        self.violations = 0
        self.known_hits: List[str] = []
        self.new_violation_lines: List[str] = []
        self.functions: set = set()
        self.stubs: set = set()
        self.solver_s = 0.0
        self.queries = 0
        self.paths = 0
        self.nontrivial: set = set()
        self.known = [k for k in load_known() if k.get("property") == pid]
        self._seen_signatures: set = set()
        self.harness_errors: List[str] = []

    # -- bookkeeping ------------------------------------------------------------------
    def ob(self, status: str, name: str = "", nontrivial_key: Any = None) -> None:
        """Record one obligation: status in {'unsat','sat','unknown'} ('unsat' = holds)."""
        self.obligations += 1
        if status == "unsat":
            self.discharged += 1
        elif status == "unknown":
            if len(self.inconclusive) < 200:
                self.inconclusive.append(name)
            else:
                self.coverage["inconclusive_truncated"] = True
        if nontrivial_key is not None:
            self.nontrivial.add(nontrivial_key)

    def sample(self, s: Any, limit: int = 12) -> None:
        if len(self.samples) < limit:
            self.samples.append(s)

    def merge_stats(self, *, queries: int = 0, solver_s: float = 0.0, paths: int = 0,
                    stubs: Any = ()) -> None:
        self.queries += queries
        self.solver_s += solver_s
        self.paths += paths
        self.stubs.update(stubs)

    # -- violations -------------------------------------------------------------------
    def violation(self, signature: str, what: str, replay_body: str,
                  expect_reproduce: bool = True, soft: bool = False) -> str:
        """Write the replay, run it on the unmodified library, classify.

        returns 'known' | 'violation' | 'not-reproduced' | 'duplicate'."""
        if signature in self._seen_signatures:
            return "duplicate"
        self._seen_signatures.add(signature)
        if self.violations >= 25:
            # exit status is decided already; further counterexamples are counted, not replayed
            self.coverage["further_counterexamples_not_replayed"] = \
                self.coverage.get("further_counterexamples_not_replayed", 0) + 1
            return "skipped"
        os.makedirs(REPLAY_DIR, exist_ok=True)
        h = hashlib.sha1(signature.encode()).hexdigest()[:10]
        name = f"{self.pid}-{h}.py"
        path = os.path.join(REPLAY_DIR, name)
        with open(path, "w") as f:
            f.write(REPLAY_HEADER.format(pid=self.pid, signature=signature, name=name))
            f.write(replay_body)
        reproduced, out = run_replay(path)
        if not reproduced:
            if soft:
                # the obligation rests on an incomplete theory (uninterpreted ln/exp with instance
                # axioms): a model the real code does not confirm means "not proved", not "violated"
                if len(self.inconclusive) < 200:
                    self.inconclusive.append(f"{signature}: symbolic counterexample not confirmed by the real code")
                return "not-reproduced"
            msg = f"counterexample {signature} did not reproduce on the real library: {out[-300:]}"
            self.harness_errors.append(msg)
            return "not-reproduced"
        for k in self.known:
            if k.get("status", "known") == "known" and k["signature"] == signature:
                line = f"KNOWN-FINDING: property={self.pid} {k['what']}"
                if line not in self.known_hits:
                    self.known_hits.append(line)
                    print(line, flush=True)
                return "known"
        self.violations += 1
        line = f"VIOLATION property={self.pid} replay={path}"
        self.new_violation_lines.append(line)
        print(f"# {self.pid}: {signature}: {what}", flush=True)
        print(line, flush=True)
        return "violation"

    # -- finish -----------------------------------------------------------------------
    def finish(self) -> int:
        cov = dict(self.coverage)
        cov.setdefault("samples", self.samples or ["(no sample recorded)"])
        cov["obligations"] = self.obligations
        cov["discharged"] = self.discharged
        cov["inconclusive"] = len(self.inconclusive)
        if self.inconclusive:
            cov["inconclusive_obligations"] = self.inconclusive[:50]
        cov["evaluations"] = max(self.obligations, 1)
        cov["distinct_nontrivial"] = len(self.nontrivial)
        cov.setdefault("rule", "one evaluation = one solver obligation; non-trivial = "
                       "distinct (configuration, path) whose condition or result mentions "
                       "a symbolic variable")
        cov["functions_encoded"] = sorted(self.functions)
        cov["stubs"] = sorted(self.stubs)
        cov["solver_queries"] = self.queries
        cov["solver_time_s"] = round(self.solver_s, 3)
        cov["paths"] = self.paths
        from . import robust

        cov["solver_escalations"] = dict(
            robust.read_log(),
            meaning="queries whose first answer was `unknown` and that were re-asked (real "
                    "relaxation, fresh z3 contexts, other seeds, longer budget) before being "
                    "counted; still_unknown of them stayed undecided and are the inconclusive "
                    "obligations / over-approximated branches of this run")
        cov["known_findings_reported"] = self.known_hits
        cov.setdefault("checker_cmd", f"./check {self.pid} --tier {self.tier}")
        cov.setdefault("trusted_base", ["z3 5.1 (python wheel)", "CPython 3.12",
                                        "engine/symnum.py proxy semantics (self-tested "
                                        "against CPython on every run)"])
        cov.setdefault("explanation", "")
        if self.harness_errors:
            cov["harness_errors"] = self.harness_errors[:20]
        level = self.level
        if level == "proof" and self.discharged != self.obligations:
            # a proof-level record needs every obligation discharged.  This run did not get there
            # (undecided after the escalation ladder, or refuted): it is recorded for what it is
            level = "other"
            cov["level_note"] = (
                f"the check claims level 'proof'; THIS run discharged {self.discharged} of "
                f"{self.obligations} obligations ({len(self.inconclusive)} undecided by the solver "
                f"after engine/robust.py's ladder, {self.obligations - self.discharged - len(self.inconclusive)} "
                f"refuted), so this record is written at level 'other' and is not evidence of a proof")
            cov["explanation"] = cov["level_note"] + ". " + cov.get("explanation", "")
            print(f"# {self.pid}: {cov['level_note']}", flush=True)
        ev = {
            "property_id": self.pid,
            "tier": self.tier,
            "seed": self.seed,
            "level": level,
            "coverage": cov,
            "assumptions": self.assumptions,
            "wall_s": round(time.time() - self.t0, 3),
            "violations": self.violations,
        }
        os.makedirs(EVIDENCE_DIR, exist_ok=True)
        path = os.path.join(EVIDENCE_DIR, f"{self.pid}.json")
        with open(path, "w") as f:
            json.dump(ev, f, indent=1, default=str, ensure_ascii=False)
        try:
            import jsonschema

            with open("/root/.vp/EVIDENCE.schema.json") as f:
                schema = json.load(f)
            jsonschema.validate(json.loads(open(path).read()), schema)
        except ImportError:
            pass
        except FileNotFoundError:
            pass
        print(f"# {self.pid} {self.tier}: obligations={self.obligations} discharged="
              f"{self.discharged} inconclusive={len(self.inconclusive)} violations="
              f"{self.violations} known={len(self.known_hits)} paths={self.paths} "
              f"solver_s={self.solver_s:.2f} wall_s={time.time() - self.t0:.1f}", flush=True)
        if self.harness_errors and self.violations:
            # violations that replayed on the real library stand on their own; the candidates that
            # did not replay are kept as notes (and in the evidence), they do not mask the alarm
            for m in self.harness_errors[:10]:
                print(f"HARNESS-NOTE {self.pid}: {m[:400]}", flush=True)
            return EXIT_VIOLATION
        if self.harness_errors:
            for m in self.harness_errors[:10]:
                print(f"HARNESS-ERROR {self.pid}: {m}", flush=True)
            return EXIT_HARNESS
        if self.violations:
            return EXIT_VIOLATION
        return EXIT_OK


def run_replay(path: str, timeout: int = 120) -> tuple:
    env = dict(os.environ)
    env.pop("PYTHONOPTIMIZE", None)
    try:
        p = subprocess.run([REPO_PY, path], capture_output=True, text=True, timeout=timeout,
                           env=env, cwd="/")
    except subprocess.TimeoutExpired:
        return False, "timeout"
    out = p.stdout + p.stderr
    return (p.returncode == 1 and "REPRODUCED" in p.stdout), out


def replay_main(path: str) -> int:
    path = path if os.path.isabs(path) else os.path.join(ROOT, path)
    ok, out = run_replay(path)
    sys.stdout.write(out)
    return 1 if ok else 0
