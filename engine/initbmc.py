"""E4c `initbmc` -- an interned object is never handed out half built.

`tracebmc` decides which object each thread obtains; it assumes that what the table hands out is a
finished object.  That assumption is an obligation of its own: the constructor publishes the new
object in the intern table (`__new__`) before `__init__` has assigned its attributes, and guards
`__init__` with a flag.  A thread that finds the object in the table must either initialise it
itself or find it finished -- never return it with attributes missing.

Step system, regenerated on every run by executing the real `cls(*args)`:

* every slot of the class is wrapped in a recording descriptor, the intern table in a recording
  dict; one step = one `sys.settrace` line event inside the package during the call, with the reads
  and writes of the object's slots and the table operations that happen on it;
* the *flag* (a slot that is written False and later True during an undisturbed construction) is
  the only thing the control flow of `__init__` may read from the shared object: its reads are
  scripted, and all answer scripts are enumerated by re-execution -- for the creating thread (A:
  the key is absent) and for a late-comer (B: the table holds the object);
* z3 then searches the line-level interleavings of A and B over the shared state (flag, one "is
  assigned" bit per attribute, "published"): a path is feasible only where the flag has the value
  it assumed; a schedule in which a thread reads an attribute that is not assigned yet, or
  finishes its constructor call while one is missing, is a violation, replayed on real threads.
"""

from __future__ import annotations

import sys
import time
from typing import Any, Callable, Dict, List, Optional, Sequence, Tuple

import z3

from .symnum import HarnessError
from .tracebmc import lock_regions


class Step:
    __slots__ = ("code", "line", "ops", "raw", "acquire", "inside", "src")

    def __init__(self, code: Any, line: int, raw: int) -> None:
        self.code, self.line, self.raw = code, line, raw
        self.ops: List[Tuple] = []
        self.acquire = self.inside = False
        self.src = ""

    def __repr__(self) -> str:
        return f"<{self.code.co_name}:{self.line} {self.ops}{' ACQ' if self.acquire else ''}{' CS' if self.inside else ''}>"


class Path:
    def __init__(self, steps: List[Step], script: List[bool], events: int, outcome: str) -> None:
        self.steps, self.script, self.events, self.outcome = steps, script, events, outcome


class RecDict(dict):
    """The intern table during extraction: a real dict that notes when the object under study is
    put in (publish) or handed out (obtain)."""

    rec: Any = None

    def setdefault(self, key: Any, value: Any = None) -> Any:  # type: ignore[override]
        had = key in self
        r = dict.setdefault(self, key, value)
        self.rec.table_op("obtain" if had else "publish", r)
        return r

    def __setitem__(self, key: Any, value: Any) -> None:
        dict.__setitem__(self, key, value)
        self.rec.table_op("publish", value)

    def __getitem__(self, key: Any) -> Any:
        r = dict.__getitem__(self, key)
        self.rec.table_op("obtain", r)
        return r

    def get(self, key: Any, default: Any = None) -> Any:  # type: ignore[override]
        if key in self:
            r = dict.__getitem__(self, key)
            self.rec.table_op("obtain", r)
            return r
        return default


class DictAttr:
    """Stands where a slot's member descriptor would: the attribute of an instance with a __dict__."""

    def __init__(self, name: str) -> None:
        self.name = name

    def __get__(self, inst: Any, owner: Any = None) -> Any:
        try:
            return inst.__dict__[self.name]
        except KeyError:
            raise AttributeError(f"{type(inst).__name__!r} object has no attribute {self.name!r}") from None

    def __set__(self, inst: Any, value: Any) -> None:
        inst.__dict__[self.name] = value

    def __delete__(self, inst: Any) -> None:
        del inst.__dict__[self.name]


class RecSlot:
    def __init__(self, name: str, orig: Any, rec: "Recorder") -> None:
        self.name, self.orig, self.rec = name, orig, rec

    def __get__(self, inst: Any, owner: Any = None) -> Any:
        if inst is None:
            return self
        return self.rec.slot_read(self, inst, owner)

    def __set__(self, inst: Any, value: Any) -> None:
        self.orig.__set__(inst, value)
        self.rec.slot_write(self, inst, value)

    def __delete__(self, inst: Any) -> None:
        self.orig.__delete__(inst)
        self.rec.slot_write(self, inst, "<deleted>")


class Recorder:
    def __init__(self, cls: Any, files: Sequence[str]) -> None:
        self.cls, self.files = cls, tuple(files)
        self.flags: List[str] = []
        self.events: List[Tuple[Any, int]] = []
        self.ops: List[Tuple[int, Tuple]] = []
        self.script: List[bool] = []
        self.pos = 0
        self.target: Any = None          # the pre-existing object (late-comer runs)
        self.before_ids: set = set()
        self.scripting = False
        self.dict_names: List[str] = []   # attributes of instances that have a __dict__ (no slots)

    # -- callbacks ----------------------------------------------------------------------
    def _at(self) -> int:
        return len(self.events) - 1

    def concerns(self, inst: Any) -> bool:
        if self.target is not None:
            return inst is self.target
        return type(inst) is self.cls and id(inst) not in self.before_ids

    def table_op(self, kind: str, value: Any) -> None:
        if value is not None and type(value) is self.cls:
            self.ops.append((self._at(), (kind, id(value))))

    def slot_read(self, slot: RecSlot, inst: Any, owner: Any) -> Any:
        if not self.concerns(inst):
            return slot.orig.__get__(inst, owner)
        if self.scripting and slot.name in self.flags:
            if self.pos < len(self.script):
                ans = self.script[self.pos]
            else:
                ans = False
                self.script.append(False)
            self.pos += 1
            self.ops.append((self._at(), ("rflag", id(inst), slot.name, ans)))
            return ans
        try:
            v = slot.orig.__get__(inst, owner)
        except AttributeError:
            self.ops.append((self._at(), ("r-unset", id(inst), slot.name)))
            raise
        self.ops.append((self._at(), ("r", id(inst), slot.name)))
        return v

    def slot_write(self, slot: RecSlot, inst: Any, value: Any) -> None:
        if self.concerns(inst):
            self.ops.append((self._at(), ("w", id(inst), slot.name, value if isinstance(value, bool) else None)))

    # -- one run ----------------------------------------------------------------------------
    def run(self, call: Callable[[], Any], table: Dict[Any, Any]) -> Tuple[Any, Optional[BaseException]]:
        self.events, self.ops, self.pos = [], [], 0
        slots: List[Tuple[Any, str, Any]] = []
        for klass in self.cls.__mro__:
            for name in getattr(klass, "__slots__", ()):
                if name in ("__weakref__", "__dict__"):
                    continue
                orig = klass.__dict__.get(name)
                if orig is not None and hasattr(orig, "__set__"):
                    slots.append((klass, name, orig))
        added: List[str] = []
        for name in self.dict_names:
            if name not in self.cls.__dict__ and not any(n == name for _, n, _ in slots):
                slots.append((self.cls, name, DictAttr(name)))
                added.append(name)
        saved_table = self.cls.__dict__["_known"]
        rd = RecDict(table)
        rd.rec = self
        self.before_ids = {id(v) for v in rd.values()}

        def local(frame: Any, event: str, arg: Any) -> Any:
            if event == "line":
                self.events.append((frame.f_code, frame.f_lineno))
            return local

        def glob(frame: Any, event: str, arg: Any) -> Any:
            if event == "call" and frame.f_code.co_filename.startswith(self.files):
                return local
            return None

        for klass, name, orig in slots:
            type.__setattr__(klass, name, RecSlot(name, orig, self))
        type.__setattr__(self.cls, "_known", rd)
        old = sys.gettrace()
        result, exc = None, None
        sys.settrace(glob)
        try:
            result = call()
        except HarnessError:
            raise
        except Exception as e:  # noqa
            exc = e
        finally:
            sys.settrace(old)
            type.__setattr__(self.cls, "_known", saved_table)
            for klass, name, orig in slots:
                if klass is self.cls and name in added:
                    type.__delattr__(klass, name)
                else:
                    type.__setattr__(klass, name, orig)
        self.last_table = rd
        return result, exc

    def steps_for(self, obj_id: int) -> List[Step]:
        steps = [Step(c, ln, i) for i, (c, ln) in enumerate(self.events)]
        for at, op in self.ops:
            if op[1] != obj_id:
                continue
            if at < 0:
                raise HarnessError("an operation on the object precedes every traced line")
            steps[at].ops.append(op)
        return steps


def all_paths(rec: Recorder, call: Callable[[], Any], table_factory: Callable[[], Tuple[Dict, Any]],
              limit: int = 16) -> List[Path]:
    """Every answer script of the flag reads, by re-execution (DFS over scripts)."""
    out: List[Path] = []
    script: List[bool] = []
    while True:
        table, target = table_factory()
        rec.target = target
        rec.script = list(script)
        rec.scripting = True
        result, exc = rec.run(call, table)
        rec.scripting = False
        used = rec.script[:rec.pos]
        obj = target if target is not None else result
        if obj is None or type(obj) is not rec.cls:
            # with answers no real run gives the call may fail before it has an object: not a path
            # of any thread (never feasible); skip it
            pass
        else:
            outcome = "returns" if exc is None else f"raises {type(exc).__name__}"
            if exc is None and target is not None and result is not target:
                # the finding thread walks away with an object of its own although the table held one
                outcome = "returns-another-object"
            out.append(Path(rec.steps_for(id(obj)), list(used), len(rec.events), outcome))
        if len(out) > limit:
            raise HarnessError("more initialisation paths than the limit")
        nxt = list(used)
        while nxt and nxt[-1] is True:
            nxt.pop()
        if not nxt:
            break
        nxt[-1] = True
        script = nxt
    return out


def annotate(paths: List[Path], cls: Any) -> None:
    import inspect

    codes = {st.code for p in paths for st in p.steps}
    regions = lock_regions(sorted(codes, key=lambda c: (c.co_filename, c.co_firstlineno)), cls)
    for p in paths:
        hold = None      # (code, first body line, last body line) of the critical section being executed
        for st in p.steps:
            if hold is not None:
                if st.code is hold[0]:
                    if not (hold[1] <= st.line <= hold[2]):
                        hold = None
                else:
                    st.inside = True      # a call made from inside the critical section (__hash__, __eq__, ...)
            for (w, a, b) in regions.get(st.code, []):
                if st.line == w:
                    st.acquire = True
                elif a <= st.line <= b:
                    st.inside = True
                    hold = (st.code, a, b)
            try:
                lines, first = inspect.getsourcelines(st.code)
                st.src = lines[st.line - first].strip()[:70]
            except Exception:
                st.src = ""
        # preemption between steps that do not touch the object (or a lock) changes nothing
        p.steps = [st for st in p.steps if st.ops or st.acquire or st.inside]


def search(pa: List[Path], pb: List[Path], flags: List[str], attrs: List[str], one_preemption: bool,
           timeout_ms: int = 120000) -> Dict[str, Any]:
    """Thread 0 follows one of `pa` (creates and publishes), thread 1 one of `pb` (finds it)."""
    progs = [pa, pb]
    horizon = max(len(p.steps) for p in pa) + max(len(p.steps) for p in pb)
    S = z3.Solver()
    S.set("timeout", timeout_ms)
    sched = [z3.Int(f"s{t}") for t in range(horizon)]
    pc = [[z3.Int(f"pc{t}_{k}") for k in (0, 1)] for t in range(horizon + 1)]
    path = [z3.Int("pathA"), z3.Int("pathB")]
    fl = {f: [z3.Int(f"flag_{f}_{t}") for t in range(horizon + 1)] for f in flags}   # -1 unset, 0 False, 1 True
    at = {a: [z3.Bool(f"attr_{a}_{t}") for t in range(horizon + 1)] for a in attrs}
    pub = [z3.Bool(f"pub{t}") for t in range(horizon + 1)]
    lock = [z3.Int(f"lock{t}") for t in range(horizon + 1)]
    bad = [z3.Bool(f"bad{t}") for t in range(horizon + 1)]
    S.add(z3.Not(pub[0]), lock[0] == 0, z3.Not(bad[0]), *[fl[f][0] == -1 for f in flags],
          *[z3.Not(at[a][0]) for a in attrs])
    for k in (0, 1):
        S.add(path[k] >= 0, path[k] < len(progs[k]), pc[0][k] == 0)
    for t in range(horizon):
        S.add(z3.Or(sched[t] == 0, sched[t] == 1))
        for k in (0, 1):
            active = sched[t] == k
            S.add(z3.Implies(z3.Not(active), pc[t + 1][k] == pc[t][k]))
            for p, pth in enumerate(progs[k]):
                n = len(pth.steps)
                keep = [pub[t + 1] == pub[t], lock[t + 1] == lock[t], bad[t + 1] == bad[t],
                        *[fl[f][t + 1] == fl[f][t] for f in flags], *[at[a][t + 1] == at[a][t] for a in attrs]]
                S.add(z3.Implies(z3.And(active, path[k] == p, pc[t][k] >= n),
                                 z3.And(pc[t + 1][k] == pc[t][k], *keep)))
                for i, st in enumerate(pth.steps):
                    here = z3.And(active, path[k] == p, pc[t][k] == i)
                    conds: List[Any] = []
                    nf = {f: fl[f][t] for f in flags}
                    na = {a: at[a][t] for a in attrs}
                    npub: Any = pub[t]
                    nbad: Any = bad[t]
                    for op in st.ops:
                        if op[0] == "publish":
                            npub = z3.BoolVal(True)
                        elif op[0] == "obtain":
                            conds.append(npub)
                        elif op[0] == "rflag":
                            conds.append(nf[op[2]] == (1 if op[3] else 0))
                        elif op[0] in ("r", "r-unset"):
                            if op[2] in na:
                                nbad = z3.Or(nbad, z3.Not(na[op[2]]))
                            elif op[2] in nf:
                                nbad = z3.Or(nbad, nf[op[2]] == -1)
                        elif op[0] == "w":
                            if op[2] in nf:
                                nf[op[2]] = z3.IntVal(1 if op[3] else 0)
                            elif op[2] in na:
                                na[op[2]] = z3.BoolVal(True)
                    if i == n - 1:
                        # the constructor call returns after this step: the object must be complete
                        nbad = z3.Or(nbad, z3.Not(z3.And(*[na[a] for a in attrs])) if attrs else z3.BoolVal(False))
                        if pth.outcome == "returns-another-object":
                            nbad = z3.BoolVal(True)
                    if st.acquire:
                        conds.append(z3.Or(lock[t] == 0, lock[t] == k + 1))
                    if st.inside:
                        conds.append(lock[t] == k + 1)
                    nxt_inside = i + 1 < n and pth.steps[i + 1].inside
                    holds_after = (st.acquire or st.inside) and nxt_inside
                    lock_after = z3.IntVal(k + 1) if holds_after else (
                        z3.IntVal(0) if (st.acquire or st.inside) else lock[t])
                    S.add(z3.Implies(here, z3.And(*conds, pc[t + 1][k] == i + 1, pub[t + 1] == npub,
                                                  bad[t + 1] == nbad, lock[t + 1] == lock_after,
                                                  *[fl[f][t + 1] == nf[f] for f in flags],
                                                  *[at[a][t + 1] == na[a] for a in attrs])))
    T = horizon
    done = z3.And(*[z3.Or(*[z3.And(path[k] == p, pc[T][k] >= len(pth.steps)) for p, pth in enumerate(progs[k])])
                    for k in (0, 1)])
    if one_preemption:
        # A runs, is preempted once, B runs to its end, A resumes
        sw = z3.Sum([z3.If(sched[t] != sched[t + 1], 1, 0) for t in range(horizon - 1)])
        S.add(sched[0] == 0, sw <= 2)
    t0 = time.time()
    S.push()
    S.add(done)
    witness = str(S.check())
    S.pop()
    S.add(done, bad[T])
    r = str(S.check())
    out: Dict[str, Any] = {"result": r, "witness": witness, "horizon": horizon, "solver_s": time.time() - t0,
                           "variables": (horizon + 1) * (4 + len(flags) + len(attrs)) + horizon + 2}
    if r == "sat":
        m = S.model()
        ev = lambda x: m.eval(x, model_completion=True).as_long()
        paths = [ev(path[0]), ev(path[1])]
        trace = []
        first_switch = None
        for t in range(horizon):
            k = ev(sched[t])
            i = ev(pc[t][k])
            pth = progs[k][paths[k]]
            if i < len(pth.steps):
                st = pth.steps[i]
                if k == 1 and first_switch is None:
                    ia = ev(pc[t][0])
                    sa = progs[0][paths[0]].steps
                    first_switch = sa[ia].raw if ia < len(sa) else progs[0][paths[0]].events
                trace.append(("AB"[k], st.code.co_name, st.line, [o[0] + (":" + str(o[2]) if len(o) > 2 else "") for o in st.ops], st.src))
        out.update(paths=paths, trace=trace, hold_a_before_event=first_switch,
                   other_object=progs[1][paths[1]].outcome == "returns-another-object")
    return out


def analyse(cls: Any, call: Callable[[], Any], files: Sequence[str]) -> Dict[str, Any]:
    """Extraction + search for one class; `call` constructs one object of `cls` for a key nobody
    has built yet."""
    real = cls.__dict__["_known"]
    if type(real) is not dict:
        return {"result": "not-applicable", "why": f"the intern table is a {type(real).__name__}, not a dict"}
    rec = Recorder(cls, files)
    # instances with a __dict__: their attribute names come from a plain construction on a scratch table
    type.__setattr__(cls, "_known", dict(real))
    try:
        plain = call()
    finally:
        type.__setattr__(cls, "_known", real)
    if hasattr(plain, "__dict__"):
        rec.dict_names = list(vars(plain))
    # the undisturbed construction: which slots exist, which is the flag, what a finished object has
    rec.target = None
    proto, exc = rec.run(call, dict(real))
    if exc is not None or type(proto) is not cls:
        return {"result": "not-applicable", "why": f"the undisturbed construction under the recorder failed: {exc!r}"}
    finished_table = rec.last_table
    writes: Dict[str, List[Any]] = {}
    for _, op in rec.ops:
        if op[0] == "w" and op[1] == id(proto):
            writes.setdefault(op[2], []).append(op[3])
    flags = [n for n, vs in writes.items() if False in vs and True in vs and vs.index(False) < len(vs) - 1 - vs[::-1].index(True)]
    attrs = [n for n in writes if n not in flags]
    rec.flags = flags
    if not any(op[0] == "publish" and op[1] == id(proto) for _, op in rec.ops):
        # e.g. the table is replaced by a copy (`cls._known = {**cls._known, key: self}`): publication
        # is then a rebinding this recorder does not see; E4b models that form
        return {"result": "not-applicable", "why": "the new object does not enter the table through an operation on "
                                                   "the table object (the table is rebound or written elsewhere)"}
    published_at = min(at_ for at_, op in rec.ops if op[0] == "publish" and op[1] == id(proto))
    late = [n for at_, op in rec.ops if op[0] == "w" and op[1] == id(proto) and at_ > published_at for n in [op[2]]]
    if not late:
        return {"result": "unsat", "why": "every attribute is assigned before the object enters the table",
                "flags": flags, "attrs": attrs, "horizon": 0, "variables": 0, "solver_s": 0.0, "witness": "sat",
                "program": []}
    pa = all_paths(rec, call, lambda: (dict(real), None))
    key_table = dict(finished_table)
    pb = all_paths(rec, call, lambda: (dict(key_table), proto))
    if not pa or not pb:
        return {"result": "not-applicable", "why": "no initialisation path could be extracted"}
    annotate(pa + pb, cls)
    res = search(pa, pb, flags, attrs, one_preemption=True)
    if res["result"] == "unsat":
        full = search(pa, pb, flags, attrs, one_preemption=False)
        full["solver_s"] += res["solver_s"]
        full["one_preemption"] = "unsat"
        res = full
    else:
        res["one_preemption"] = res["result"]
    res.update(flags=flags, attrs=attrs,
               program=[["A" + str(i)] + [repr(s) for s in p.steps] + [p.outcome] for i, p in enumerate(pa)] +
                       [["B" + str(i)] + [repr(s) for s in p.steps] + [p.outcome] for i, p in enumerate(pb)],
               events_undisturbed=pa[0].events if pa else 0)
    return res
