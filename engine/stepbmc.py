"""E4 `stepbmc` -- bounded model checking of step systems extracted from the AST.

The statement list of a real interning constructor (`__new__`, then `__init__`) becomes a small
control-flow graph with one atomic step per source line (the granularity `sys.settrace` line
events give, and a subset of CPython's real preemption points).  z3 searches the schedules of T
threads for one after which two threads hold different objects or the table holds a third.
The extraction refuses (HarnessError) on a statement form it does not model.
"""

from __future__ import annotations

import ast
import inspect
import textwrap
from typing import Any, Dict, List, Optional, Tuple

import z3

from .symnum import HarnessError

# abstract actions
LOCAL, TEST_PRESENT, RET_TABLE, ALLOC, STORE, RET_SELF, SETDEFAULT_RET, SETDEFAULT_ASSIGN, \
    RET_OTHER, LOCK_ACQ, LOCK_REL, BRANCH_LOCAL, END, SETDEFAULT_DISCARD, \
    SDR_RET, SDW_RET, SDR_ASSIGN, SDW_ASSIGN, SDR_DISCARD, SDW_DISCARD, \
    LOAD_LOCAL, TEST_LOCAL, RET_LOCAL, LOADTEST_LOCAL = range(24)
NAMES = ["LOCAL", "TEST_PRESENT", "RET_TABLE", "ALLOC", "STORE", "RET_SELF", "SETDEFAULT_RET",
         "SETDEFAULT_ASSIGN", "RET_OTHER", "LOCK_ACQ", "LOCK_REL", "BRANCH_LOCAL", "END",
         "SETDEFAULT_DISCARD", "SD_READ_RET", "SD_WRITE_RET", "SD_READ_ASSIGN", "SD_WRITE_ASSIGN",
         "SD_READ_DISCARD", "SD_WRITE_DISCARD", "LOAD_LOCAL", "TEST_LOCAL", "RET_LOCAL", "LOADTEST_LOCAL"]
# a table that is not a builtin dict has a Python-level setdefault: a look-up, then (if absent) an
# unconditional store, with a preemption point in between -- two steps instead of one
SPLIT = {SETDEFAULT_RET: (SDR_RET, SDW_RET), SETDEFAULT_ASSIGN: (SDR_ASSIGN, SDW_ASSIGN),
         SETDEFAULT_DISCARD: (SDR_DISCARD, SDW_DISCARD)}
RETURNS = (RET_TABLE, RET_SELF, SETDEFAULT_RET, RET_OTHER, SDW_RET, RET_LOCAL)
MAX_SLOTS = 2


class Step:
    __slots__ = ("line", "action", "next", "alt", "src", "slot")

    def __init__(self, line: int, action: int, src: str) -> None:
        self.line, self.action, self.src = line, action, src
        self.slot = 0                     # which local holds / receives the table's value
        self.next: Optional[int] = None   # index of the next step (fallthrough / branch taken)
        self.alt: Optional[int] = None    # branch not taken

    def __repr__(self) -> str:
        return f"<{self.line}:{NAMES[self.action]} next={self.next} alt={self.alt} {self.src!r}>"


def _mentions(node: ast.AST, attr: str) -> bool:
    return any(isinstance(n, ast.Attribute) and n.attr == attr for n in ast.walk(node))


def _table_read(node: ast.AST, table: str) -> bool:
    """`<table>.get(key)` / `<table>.get(key, None)` / `<table>[key]`: the value, or None."""
    if isinstance(node, ast.Call) and isinstance(node.func, ast.Attribute) and node.func.attr == "get" and \
            _is_table(node.func.value, table):
        return len(node.args) == 1 or (len(node.args) == 2 and isinstance(node.args[1], ast.Constant)
                                       and node.args[1].value is None)
    return False


def _local_test(test: ast.AST, slots: Dict[str, int]) -> Optional[Tuple[str, bool, Optional[ast.AST]]]:
    """(name, true-when-present, walrus value) for `x is not None`, `x is None`, `x`, `not x`,
    and the same with `(x := <expr>)` in place of x."""
    def name_of(n: ast.AST) -> Tuple[Optional[str], Optional[ast.AST]]:
        if isinstance(n, ast.Name):
            return n.id, None
        if isinstance(n, ast.NamedExpr) and isinstance(n.target, ast.Name):
            return n.target.id, n.value
        return None, None
    if isinstance(test, ast.Compare) and len(test.ops) == 1 and isinstance(test.comparators[0], ast.Constant) \
            and test.comparators[0].value is None and isinstance(test.ops[0], (ast.Is, ast.IsNot)):
        nm, val = name_of(test.left)
        if nm is not None:
            return nm, isinstance(test.ops[0], ast.IsNot), val
    if isinstance(test, ast.UnaryOp) and isinstance(test.op, ast.Not):
        nm, val = name_of(test.operand)
        if nm is not None:
            return nm, False, val
    nm, val = name_of(test)
    if nm is not None:
        return nm, True, val
    return None


def _is_table(node: ast.AST, table: str) -> bool:
    return isinstance(node, ast.Attribute) and node.attr == table


class Extractor:
    """Turns the body of one function into steps.  `env` gives concrete values for arguments so
    that branches on arguments only can be resolved (the chosen call is concrete)."""

    def __init__(self, func: Any, table: str, env: Dict[str, Any], is_init: bool = False,
                 atomic_setdefault: bool = True) -> None:
        self.atomic = atomic_setdefault
        src = textwrap.dedent(inspect.getsource(func))
        self.first_line = func.__code__.co_firstlineno
        tree = ast.parse(src)
        self.fn = tree.body[0]
        self.offset = self.first_line - 1
        self.table, self.env, self.is_init = table, env, is_init
        self.steps: List[Step] = []
        self.slots: Dict[str, int] = {}    # locals holding a value read from the table

    def line(self, node: ast.AST) -> int:
        return node.lineno + self.offset

    def add(self, node: ast.AST, action: int) -> int:
        src = ast.unparse(node).split("\n")[0][:70]
        if action in SPLIT and not self.atomic:
            rd, wr = SPLIT[action]
            self.steps.append(Step(self.line(node), rd, src))
            i = len(self.steps) - 1
            self.steps.append(Step(self.line(node), wr, "<the store inside the table's own setdefault>"))
            self.steps[i].next = i + 1        # absent: go on to the store
            # present: leave through the read step's `alt`, patched like the write step's `next`
            self.split_reads = getattr(self, "split_reads", {})
            self.split_reads[i + 1] = i
            return i + 1
        self.steps.append(Step(self.line(node), action, src))
        return len(self.steps) - 1

    def run(self) -> List[Step]:
        body = [s for s in self.fn.body if not (isinstance(s, ast.Expr) and isinstance(s.value, ast.Constant))]
        exits = self.block(body)
        end = len(self.steps)
        self.steps.append(Step(-1, END, "<end>"))
        for i in exits:
            self._patch(i, end)
        return self.steps

    def _patch(self, ref: Tuple[int, str], target: int) -> None:
        idx, field = ref
        setattr(self.steps[idx], field, target)
        rd = getattr(self, "split_reads", {}).get(idx)
        if rd is not None and field == "next":
            self.steps[rd].alt = target      # the 'present' exit of a split setdefault

    def block(self, stmts: List[ast.stmt]) -> List[Tuple[int, str]]:
        """Returns the dangling exits (step index, field) that fall through the block."""
        dangling: List[Tuple[int, str]] = []
        for st in stmts:
            start = len(self.steps)
            new_dangling = self.stmt(st)
            for ref in dangling:
                self._patch(ref, start)
            dangling = new_dangling
        return dangling

    def stmt(self, st: ast.stmt) -> List[Tuple[int, str]]:
        t = self.table
        if isinstance(st, ast.Return):
            v = st.value
            if v is None:
                i = self.add(st, RET_SELF if self.is_init else RET_OTHER)
            elif isinstance(v, ast.Subscript) and _is_table(v.value, t):
                i = self.add(st, RET_TABLE)
            elif isinstance(v, ast.Name) and v.id == "self":
                i = self.add(st, RET_SELF)
            elif isinstance(v, ast.Name) and v.id in self.slots:
                i = self.add(st, RET_LOCAL)
                self.steps[i].slot = self.slots[v.id]
            elif _table_read(v, t):
                raise HarnessError(f"unmodelled return of a possibly-None table read: {ast.unparse(st)}")
            elif isinstance(v, ast.Call) and isinstance(v.func, ast.Attribute) and \
                    v.func.attr == "setdefault" and _is_table(v.func.value, t):
                i = self.add(st, SETDEFAULT_RET)
            elif _mentions(v, t):
                raise HarnessError(f"unmodelled return involving the table: {ast.unparse(st)}")
            else:
                i = self.add(st, RET_OTHER)
            return []          # return leaves the function: patched to END by caller via no exits
        if isinstance(st, ast.If):
            test = st.test
            lt = _local_test(test, self.slots)
            if lt is not None and (lt[0] in self.slots or (lt[2] is not None and _table_read(lt[2], t))):
                nm, when_present, walrus = lt
                if walrus is not None:
                    self.slots.setdefault(nm, len(self.slots))
                    if len(self.slots) > MAX_SLOTS:
                        raise HarnessError("more locals hold table values than the model has slots")
                i = self.add(st, LOADTEST_LOCAL if walrus is not None else TEST_LOCAL)
                self.steps[i].slot = self.slots[nm]
                body_start = len(self.steps)
                body_exits = self.block(st.body)
                else_start = len(self.steps)
                else_exits = self.block(st.orelse) if st.orelse else []
                # `next` = the local holds an object, `alt` = it is None
                taken, not_taken = ("next", "alt") if when_present else ("alt", "next")
                self._patch((i, taken), body_start)
                if st.orelse:
                    self._patch((i, not_taken), else_start)
                    return body_exits + else_exits
                return body_exits + [(i, not_taken)]
            if _mentions(test, t):
                ok = isinstance(test, ast.Compare) and len(test.ops) == 1 and \
                    isinstance(test.ops[0], (ast.In, ast.NotIn)) and _is_table(test.comparators[0], t)
                if not ok:
                    raise HarnessError(f"unmodelled test on the table: {ast.unparse(test)}")
                i = self.add(st, TEST_PRESENT)
                negate = isinstance(test.ops[0], ast.NotIn)
                body_start = len(self.steps)
                body_exits = self.block(st.body)
                else_start = len(self.steps)
                else_exits = self.block(st.orelse) if st.orelse else []
                taken, not_taken = ("alt", "next") if negate else ("next", "alt")
                self._patch((i, taken), body_start)
                if st.orelse:
                    self._patch((i, not_taken), else_start)
                    return body_exits + else_exits
                return body_exits + [(i, not_taken)]
            # a branch on arguments / locals only: resolve it for the concrete call
            try:
                val = bool(eval(compile(ast.Expression(test), "<test>", "eval"), {}, dict(self.env)))
            except Exception as e:
                raise HarnessError(f"cannot resolve local branch {ast.unparse(test)!r}: {e}")
            i = self.add(st, BRANCH_LOCAL)
            if val:
                start = len(self.steps)
                exits = self.block(st.body)
                self._patch((i, "next"), start)
                return exits
            if st.orelse:
                start = len(self.steps)
                exits = self.block(st.orelse)
                self._patch((i, "next"), start)
                return exits
            return [(i, "next")]
        if isinstance(st, ast.With):
            item = st.items[0].context_expr
            if not (isinstance(item, ast.Attribute) and "lock" in item.attr.lower()):
                raise HarnessError(f"unmodelled with-statement: {ast.unparse(item)}")
            i = self.add(st, LOCK_ACQ)
            start = len(self.steps)
            exits = self.block(st.body)
            self._patch((i, "next"), start)
            # returns inside the block release the lock as well: mark every RET inside
            for k in range(start, len(self.steps)):
                if self.steps[k].action in RETURNS + (SDR_RET,):
                    self.steps[k].src += "  [releases lock]"
            j = len(self.steps)
            self.steps.append(Step(self.line(st), LOCK_REL, "<release>"))
            for ref in exits:
                self._patch(ref, j)
            return [(j, "next")]
        if isinstance(st, ast.Assign):
            tgt, v = st.targets[0], st.value
            if isinstance(tgt, ast.Subscript) and _is_table(tgt.value, t):
                if not (isinstance(v, ast.Name) and v.id == "self"):
                    raise HarnessError(f"unmodelled table store: {ast.unparse(st)}")
                i = self.add(st, STORE)
                return [(i, "next")]
            if isinstance(tgt, ast.Name) and tgt.id != "self" and _table_read(v, t):
                self.slots.setdefault(tgt.id, len(self.slots))
                if len(self.slots) > MAX_SLOTS:
                    raise HarnessError("more locals hold table values than the model has slots")
                i = self.add(st, LOAD_LOCAL)
                self.steps[i].slot = self.slots[tgt.id]
                return [(i, "next")]
            if isinstance(tgt, ast.Name) and tgt.id == "self":
                if isinstance(v, ast.Call) and isinstance(v.func, ast.Attribute) and \
                        v.func.attr == "setdefault" and _is_table(v.func.value, t):
                    i = self.add(st, SETDEFAULT_ASSIGN)
                    return [(i, "next")]
                if isinstance(v, ast.Call) and "__new__" in ast.unparse(v):
                    i = self.add(st, ALLOC)
                    return [(i, "next")]
                raise HarnessError(f"unmodelled assignment to self: {ast.unparse(st)}")
            if _mentions(st, t):
                raise HarnessError(f"unmodelled statement touching the table: {ast.unparse(st)}")
            i = self.add(st, LOCAL)
            return [(i, "next")]
        if isinstance(st, ast.Expr) and isinstance(st.value, ast.Call) and \
                isinstance(st.value.func, ast.Attribute) and st.value.func.attr == "setdefault" and \
                _is_table(st.value.func.value, t):
            i = self.add(st, SETDEFAULT_DISCARD)     # inserts if absent, result thrown away
            return [(i, "next")]
        if isinstance(st, (ast.Expr, ast.AugAssign, ast.AnnAssign, ast.Pass)):
            if _mentions(st, t):
                raise HarnessError(f"unmodelled statement touching the table: {ast.unparse(st)}")
            i = self.add(st, LOCAL)
            return [(i, "next")]
        raise HarnessError(f"unmodelled statement form {type(st).__name__}: {ast.unparse(st)[:80]}")


def extract(cls: Any, table: str, env: Dict[str, Any], atomic_setdefault: bool = True) -> List[Step]:
    """Steps of `cls.__new__` followed by `cls.__init__` (as run by type.__call__)."""
    new = Extractor(cls.__new__, table, env, atomic_setdefault=atomic_setdefault).run()
    init = Extractor(cls.__init__, table, env, is_init=True, atomic_setdefault=atomic_setdefault).run()
    # chain: END of __new__ -> first of __init__
    off = len(new) - 1
    steps = new[:-1]
    for s in steps:
        if s.next == len(new) - 1:
            s.next = off
        if s.alt == len(new) - 1:
            s.alt = off
        if s.next is None and s.action in RETURNS:
            s.next = off
        if s.alt is None and s.action == SDR_RET:
            s.alt = off
    for s in init:
        s2 = Step(s.line, s.action if s.action != RET_SELF else LOCAL, s.src)
        s2.slot = s.slot
        if s.action in RETURNS and s.next is None:
            s2.next = off + len(init) - 1
        else:
            s2.next = None if s.next is None else s.next + off
        s2.alt = None if s.alt is None else s.alt + off
        if s.action == END:
            s2.action = END
        # the __init__ steps never touch the table: extraction above refuses otherwise
        if s.action in (TEST_PRESENT, STORE, ALLOC, SETDEFAULT_RET, SETDEFAULT_ASSIGN, RET_TABLE,
                        SETDEFAULT_DISCARD, SDR_RET, SDW_RET, SDR_ASSIGN, SDW_ASSIGN, SDR_DISCARD, SDW_DISCARD,
                        LOAD_LOCAL, TEST_LOCAL, RET_LOCAL, LOADTEST_LOCAL):
            raise HarnessError(f"__init__ touches the intern table: {s.src}")
        steps.append(s2)
    return steps


def search(steps: List[Step], threads: int, timeout_ms: int = 60000) -> Dict[str, Any]:
    """z3: is there a line-level schedule of `threads` threads, all starting a first-time
    construction of the same key, after which they do not all hold the table's object?"""
    n = len(steps)
    end = n - 1
    maxlen = max(2, sum(1 for s in steps if s.action != END)) * threads
    S = z3.Solver()
    S.set("timeout", timeout_ms)
    sched = [z3.Int(f"sched{t}") for t in range(maxlen)]
    pc = [[z3.Int(f"pc{t}_{k}") for k in range(threads)] for t in range(maxlen + 1)]
    slf = [[z3.Int(f"self{t}_{k}") for k in range(threads)] for t in range(maxlen + 1)]
    ret = [[z3.Int(f"ret{t}_{k}") for k in range(threads)] for t in range(maxlen + 1)]
    loc = [[[z3.Int(f"loc{t}_{k}_{j}") for j in range(MAX_SLOTS)] for k in range(threads)]
           for t in range(maxlen + 1)]
    tab = [z3.Int(f"table{t}") for t in range(maxlen + 1)]
    lock = [z3.Int(f"lock{t}") for t in range(maxlen + 1)]     # 0 free, k+1 held by k
    S.add(tab[0] == 0, lock[0] == 0)
    for k in range(threads):
        S.add(pc[0][k] == 0, slf[0][k] == 0, ret[0][k] == 0, *[loc[0][k][j] == 0 for j in range(MAX_SLOTS)])
    for t in range(maxlen):
        S.add(sched[t] >= 0, sched[t] < threads)
        for k in range(threads):
            active = sched[t] == k
            # frame: an inactive thread keeps its state
            S.add(z3.Implies(z3.Not(active), z3.And(pc[t + 1][k] == pc[t][k], slf[t + 1][k] == slf[t][k],
                                                    ret[t + 1][k] == ret[t][k],
                                                    *[loc[t + 1][k][j] == loc[t][k][j] for j in range(MAX_SLOTS)])))
            cases = []
            for i, s in enumerate(steps):
                here = z3.And(active, pc[t][k] == i)
                nxt = s.next if s.next is not None else end
                alt = s.alt if s.alt is not None else end
                keep_tab, keep_self, keep_ret, keep_lock = tab[t + 1] == tab[t], slf[t + 1][k] == slf[t][k], \
                    ret[t + 1][k] == ret[t][k], lock[t + 1] == lock[t]
                is_ret = s.action in RETURNS
                rel = "[releases lock]" in s.src
                lk = (lock[t + 1] == 0) if rel else keep_lock
                a = s.action
                writes_loc = a in (LOAD_LOCAL, LOADTEST_LOCAL)
                keep_loc = z3.And(*[loc[t + 1][k][j] == loc[t][k][j] for j in range(MAX_SLOTS)
                                    if not (writes_loc and j == s.slot)])
                if a == END:
                    eff = z3.And(pc[t + 1][k] == end, keep_tab, keep_self, keep_ret, keep_lock)
                elif a in (LOCAL, BRANCH_LOCAL):
                    eff = z3.And(pc[t + 1][k] == nxt, keep_tab, keep_self, keep_ret, keep_lock)
                elif a == TEST_PRESENT:
                    eff = z3.And(pc[t + 1][k] == z3.If(tab[t] != 0, nxt, alt), keep_tab, keep_self,
                                 keep_ret, keep_lock)
                elif a == RET_TABLE:
                    eff = z3.And(pc[t + 1][k] == nxt, ret[t + 1][k] == tab[t], keep_tab, keep_self, lk)
                elif a == ALLOC:
                    eff = z3.And(pc[t + 1][k] == nxt, slf[t + 1][k] == k + 1, keep_tab, keep_ret, keep_lock)
                elif a == STORE:
                    eff = z3.And(pc[t + 1][k] == nxt, tab[t + 1] == slf[t][k], keep_self, keep_ret, keep_lock)
                elif a == RET_SELF:
                    eff = z3.And(pc[t + 1][k] == nxt, ret[t + 1][k] == slf[t][k], keep_tab, keep_self, lk)
                elif a == SETDEFAULT_RET:
                    newtab = z3.If(tab[t] == 0, slf[t][k], tab[t])
                    eff = z3.And(pc[t + 1][k] == nxt, tab[t + 1] == newtab, ret[t + 1][k] == newtab,
                                 keep_self, lk)
                elif a == SETDEFAULT_ASSIGN:
                    newtab = z3.If(tab[t] == 0, slf[t][k], tab[t])
                    eff = z3.And(pc[t + 1][k] == nxt, tab[t + 1] == newtab, slf[t + 1][k] == newtab,
                                 keep_ret, keep_lock)
                elif a == SETDEFAULT_DISCARD:
                    newtab = z3.If(tab[t] == 0, slf[t][k], tab[t])
                    eff = z3.And(pc[t + 1][k] == nxt, tab[t + 1] == newtab, keep_self, keep_ret, keep_lock)
                elif a == SDR_RET:         # look-up half of a Python-level setdefault
                    eff = z3.And(keep_tab, keep_self,
                                 z3.If(tab[t] != 0, z3.And(pc[t + 1][k] == alt, ret[t + 1][k] == tab[t], lk),
                                       z3.And(pc[t + 1][k] == nxt, keep_ret, keep_lock)))
                elif a == SDW_RET:         # store half: unconditional
                    eff = z3.And(pc[t + 1][k] == nxt, tab[t + 1] == slf[t][k], ret[t + 1][k] == slf[t][k],
                                 keep_self, lk)
                elif a == SDR_ASSIGN:
                    eff = z3.And(keep_tab, keep_ret, keep_lock,
                                 z3.If(tab[t] != 0, z3.And(pc[t + 1][k] == alt, slf[t + 1][k] == tab[t]),
                                       z3.And(pc[t + 1][k] == nxt, keep_self)))
                elif a == SDW_ASSIGN:
                    eff = z3.And(pc[t + 1][k] == nxt, tab[t + 1] == slf[t][k], keep_self, keep_ret, keep_lock)
                elif a == SDR_DISCARD:
                    eff = z3.And(keep_tab, keep_self, keep_ret, keep_lock,
                                 pc[t + 1][k] == z3.If(tab[t] != 0, alt, nxt))
                elif a == SDW_DISCARD:
                    eff = z3.And(pc[t + 1][k] == nxt, tab[t + 1] == slf[t][k], keep_self, keep_ret, keep_lock)
                elif a == LOAD_LOCAL:
                    eff = z3.And(pc[t + 1][k] == nxt, loc[t + 1][k][s.slot] == tab[t], keep_tab, keep_self,
                                 keep_ret, keep_lock)
                elif a == LOADTEST_LOCAL:
                    eff = z3.And(pc[t + 1][k] == z3.If(tab[t] != 0, nxt, alt), loc[t + 1][k][s.slot] == tab[t],
                                 keep_tab, keep_self, keep_ret, keep_lock)
                elif a == TEST_LOCAL:
                    eff = z3.And(pc[t + 1][k] == z3.If(loc[t][k][s.slot] != 0, nxt, alt), keep_tab, keep_self,
                                 keep_ret, keep_lock)
                elif a == RET_LOCAL:
                    eff = z3.And(pc[t + 1][k] == nxt, ret[t + 1][k] == loc[t][k][s.slot], keep_tab, keep_self, lk)
                elif a == RET_OTHER:
                    eff = z3.And(pc[t + 1][k] == nxt, ret[t + 1][k] == -1, keep_tab, keep_self, lk)
                elif a == LOCK_ACQ:
                    # enabled only when the lock is free (a blocked thread is not scheduled)
                    S.add(z3.Implies(here, lock[t] == 0))
                    eff = z3.And(pc[t + 1][k] == nxt, lock[t + 1] == k + 1, keep_tab, keep_self, keep_ret)
                elif a == LOCK_REL:
                    eff = z3.And(pc[t + 1][k] == nxt, lock[t + 1] == 0, keep_tab, keep_self, keep_ret)
                else:
                    raise HarnessError(f"no transition for {NAMES[a]}")
                cases.append(z3.Implies(here, z3.And(eff, keep_loc)))
            S.add(*cases)
            S.add(z3.And(pc[t][k] >= 0, pc[t][k] <= end))
    done = z3.And(*[pc[maxlen][k] == end for k in range(threads)])
    differ = z3.Or(*[ret[maxlen][a] != ret[maxlen][b] for a in range(threads) for b in range(a + 1, threads)],
                   *[tab[maxlen] != ret[maxlen][a] for a in range(threads)])
    import time

    # reachability witness (vacuity guard): some schedule completes
    t0 = time.time()
    S.push()
    S.add(done)
    witness = str(S.check())
    S.pop()
    S.add(done, differ)
    r = str(S.check())
    out: Dict[str, Any] = {"result": r, "witness": witness, "steps": n, "horizon": maxlen,
                           "solver_s": time.time() - t0, "threads": threads,
                           "variables": (maxlen + 1) * (3 * threads + 2) + maxlen}
    if r == "sat":
        m = S.model()
        sc = [m.eval(sched[t], model_completion=True).as_long() for t in range(maxlen)]
        # drop scheduling of finished threads
        pcs = [0] * threads
        trace = []
        for t in range(maxlen):
            k = sc[t]
            cur = m.eval(pc[t][k], model_completion=True).as_long()
            if cur != end:
                trace.append((k, steps[cur].line, NAMES[steps[cur].action], steps[cur].src))
        out["schedule"] = [k for k, _, _, _ in trace]
        out["trace"] = trace
        out["rets"] = [m.eval(ret[maxlen][k], model_completion=True).as_long() for k in range(threads)]
        out["table"] = m.eval(tab[maxlen], model_completion=True).as_long()
    return out
