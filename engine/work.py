"""Worker-side accumulator shared by the E1 property harnesses."""

from __future__ import annotations

from fractions import Fraction
from typing import Any, Callable, Dict, List, Optional, Sequence

import z3

from . import symnum
from .symnum import Case, Exploration, Path, Prover


class Acc:
    """Collects obligations / violations / statistics in a picklable form."""

    def __init__(self, timeout_ms: int = 10000) -> None:
        self.P = Prover(timeout_ms)
        self.out: Dict[str, Any] = {"obs": [], "viol": [], "paths": 0, "queries": 0,
                                    "solver_s": 0.0, "stubs": set(), "samples": [],
                                    "selfchecked": 0, "counters": {}}

    def count(self, name: str, n: int = 1) -> None:
        c = self.out["counters"]
        c[name] = c.get(name, 0) + n

    def ob(self, status: str, name: str, key: Any = None) -> None:
        self.out["obs"].append((status, name, key))

    def explored(self, ex: Exploration, case: Optional[Case] = None) -> None:
        self.out["paths"] += len(ex.paths)
        self.out["queries"] += ex.queries
        self.out["solver_s"] += ex.solver_s
        self.out["stubs"].update(ex.stubs)
        if not ex.complete:
            raise symnum.HarnessError("path limit reached")

    def sample(self, s: Any, limit: int = 3) -> None:
        if len(self.out["samples"]) < limit:
            self.out["samples"].append(s)

    def prove(self, case: Case, path: Path, goal: z3.BoolRef, name: str, key: Any,
              sig: str, what: str,
              replay: Callable[[Dict[str, Fraction]], str],
              extra_cond: Sequence[z3.BoolRef] = (),
              shape_extra: Sequence[z3.BoolRef] = (), soft_fallback: bool = False,
              always_soft: bool = False) -> str:
        """Ask `path.cond and extra_cond => goal`.  On `sat`, look for a shaped model and
        hand it to `replay` (which renders a standalone script)."""
        conds = [path.cond, *extra_cond]
        r, _ = self.P.check(*conds, z3.Not(goal))
        if r == "unsat":
            self.ob("unsat", name, key)
            return r
        if r == "unknown":
            self.ob("unknown", name, key)
            return r
        m = self.P.shaped_model([*conds, z3.Not(goal), *shape_extra], list(case.vars.values()))
        fallback = False
        if m is None and shape_extra:
            m = self.P.shaped_model([*conds, z3.Not(goal)], list(case.vars.values()))
            fallback = True
        if m is None:
            self.ob("unknown", name + "(real-model-only)", key)
            return "unknown"
        self.ob("sat", name, key)
        # soft_fallback: only a witness outside the preferred shape exists (e.g. inside the zone the
        # replay treats as a rounding tie); if the replay does not show it, it is inconclusive
        self.out["viol"].append((sig, f"{what} at { {k: str(v) for k, v in m.items()} }",
                                 replay(m)) + (("soft",) if ((fallback and soft_fallback) or always_soft) else ()))
        return "sat"

    def finish(self, case_selfchecked: int = 0) -> Dict[str, Any]:
        self.out["queries"] += self.P.asked
        self.out["solver_s"] += self.P.solver_s
        self.out["stubs"] = sorted(self.out["stubs"])
        self.out["selfchecked"] += case_selfchecked
        return self.out


def merge(rep: Any, results: Sequence[Dict[str, Any]], sample_limit: int = 8) -> None:
    """Merge worker outputs into a report.Report; violations are replayed there."""
    for r in results:
        for status, name, key in r["obs"]:
            rep.ob(status, name, key)
        rep.merge_stats(queries=r["queries"], solver_s=r["solver_s"], paths=r["paths"],
                        stubs=r["stubs"])
        for sig, what, body, *flags in r["viol"]:
            rep.violation(sig, what, body, soft=bool(flags and flags[0] == "soft"))
        for s in r["samples"]:
            rep.sample(s, sample_limit)
        rep.coverage["selfchecked_paths"] = rep.coverage.get("selfchecked_paths", 0) + \
            r["selfchecked"]
        for k, v in r.get("counters", {}).items():
            rep.coverage[k] = rep.coverage.get(k, 0) + v


def lit(kind: str, f: Fraction) -> str:
    """Python literal for a model value of the given numeric kind."""
    if kind == "int":
        return repr(int(f))
    if kind == "float":
        return repr(f.numerator / f.denominator)
    return f"(Decimal({f.numerator}) / Decimal({f.denominator}))"
