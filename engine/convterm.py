"""Symbolic conversion: run the real `Quantity.in_unit` on a solver-backed magnitude and
return the exact affine map the library applies, `m -> c*m + d` (rational c, d)."""

from __future__ import annotations

from fractions import Fraction
from typing import Any, Dict, List, Optional, Tuple

import z3

from . import robust, symnum
from .symnum import explore, mk, real, term, var


class Conv:
    __slots__ = ("outcome", "c", "d", "unit_ok", "msg", "paths", "queries", "solver_s", "kind_ok", "fork_models")

    def __init__(self) -> None:
        self.outcome = "?"
        self.c: Optional[Fraction] = None
        self.d: Optional[Fraction] = None
        self.unit_ok = False
        self.kind_ok = True
        self.msg = ""
        self.paths = 0
        self.queries = 0
        self.solver_s = 0.0
        self.fork_models: list = []

    def as_tuple(self) -> Tuple:
        return (self.outcome, self.c, self.d, self.unit_ok)


_M = {k: var(k, f"m_{k}") for k in ("int", "float", "dec")}


def _num(t: z3.ArithRef) -> Optional[Fraction]:
    t = z3.simplify(t)
    if z3.is_int_value(t):
        return Fraction(t.as_long())
    if z3.is_rational_value(t):
        return Fraction(t.numerator_as_long(), t.denominator_as_long())
    return None


def convert(src: Any, dst: Any, kind: str = "float", P: Optional[symnum.Prover] = None) -> Conv:
    """Real code executed: Quantity.in_unit -> conversions.convert -> _plan_conversion (the
    planner runs concretely: its control flow depends only on the unit objects)."""
    mv = _M[kind]
    out = Conv()

    def fn() -> Any:
        from measured import Quantity

        q = Quantity(mk(kind, mv), src)
        return q.in_unit(dst)

    ex = explore(fn, max_paths=8)
    out.paths, out.queries, out.solver_s = len(ex.paths), ex.queries, ex.solver_s
    if len(ex.paths) != 1:
        # a conversion whose control flow depends on the magnitude
        out.outcome = "forks"
        out.msg = "; ".join(f"{p.outcome}:{[str(c) for c in p.pc]}" for p in ex.paths)[:400]
        # one magnitude per path (a model of its condition), for replays that must take that path
        PP = P or symnum.Prover(10000)
        for p in ex.paths:
            for extra in ([real(mv) != 0], []):
                mm = PP.shaped_model([p.cond, *extra], [mv])
                if mm is not None:
                    out.fork_models.append(next(iter(mm.values())))
                    break
        return out
    p = ex.paths[0]
    if p.exc is not None:
        out.outcome = type(p.exc).__name__
        out.msg = str(p.exc)[:200]
        return out
    res = p.result
    out.outcome = "ok"
    out.unit_ok = res.unit is dst
    mag = res.magnitude
    if not symnum.is_sym(mag):
        # magnitude independent of the input: c = 0
        out.c, out.d = Fraction(0), Fraction(mag)
        return out
    want_kind = {"int": ("int", "float"), "float": ("float",), "dec": ("dec",)}[kind]
    out.kind_ok = symnum.kind_of(mag) in want_kind
    t = real(mag.t)
    m = real(mv)
    d = _num(z3.substitute(t, (mv, z3.IntVal(0) if kind == "int" else z3.RealVal(0))))
    one = _num(z3.substitute(t, (mv, z3.IntVal(1) if kind == "int" else z3.RealVal(1))))
    if d is None or one is None:
        out.outcome = "nonlinear"
        out.msg = str(z3.simplify(t))[:200]
        return out
    c = one - d
    # the solver confirms the extraction: for all m, term == c*m + d
    s = z3.Solver()
    s.set("timeout", 10000)
    s.add(t != symnum.q(c) * m + symnum.q(d))
    r, _ = robust.check(s, 10000)
    out.queries += 1
    if r != "unsat":
        out.outcome = "nonlinear"
        out.msg = f"term is not affine ({r}): {str(z3.simplify(t))[:160]}"
        return out
    out.c, out.d = c, d
    return out


def within(c: Fraction, d: Fraction, rho: Fraction, tol: float) -> z3.BoolRef:
    """forall m. |c*m + d - rho*m| <= tol*|rho*m|   as a formula with m free (negate and ask)."""
    m = z3.Real("m")
    lhs = symnum.q(c) * m + symnum.q(d) - symnum.q(rho) * m
    rhs = symnum.q(Fraction(tol)) * symnum.q(abs(rho)) * z3.If(m >= 0, m, -m)
    return z3.And(lhs <= rhs, -lhs <= rhs)
