"""E2 `internmodel` -- the intern tables and registries as symbolic state.

The real `Dimension/Prefix/Unit.__new__/__init__` and the real operators run on *shadow
instances* (`object.__new__(cls)` with z3-Int-backed exponents) while the class-level tables are
replaced by map models that never hash their keys and log every write.  Pattern: arbitrary
valid pre-state, one public operation, invariant / normal form asserted on what the
constructor was handed.
"""

from __future__ import annotations

from typing import Any, Dict, Iterable, List, Optional, Sequence, Tuple

import z3

from . import symnum
from .symnum import SInt, ctx, is_sym, term


class MapModel:
    """Stand-in for `_known` / `_by_name` / `_by_symbol`.

    mode 'absent'  : every looked-up key is new (the path on which the constructor creates);
    mode 'symbolic': membership is a fresh symbolic Boolean per lookup (forks), present keys
                     yield `on_present(key)`;
    writes are logged, keys are compared structurally through z3 (never hashed)."""

    def __init__(self, name: str, mode: str = "absent", on_present: Any = None,
                 concrete: Optional[Dict[Any, Any]] = None) -> None:
        self.name, self.mode, self.on_present = name, mode, on_present
        self.writes: List[Tuple[Any, Any]] = []
        self.deletes: List[Any] = []
        self.lookups: List[Any] = []
        self.concrete = dict(concrete or {})
        self._answers: Dict[int, bool] = {}

    def _decide(self, key: Any) -> bool:
        for k, v in self.writes:
            if k is key:
                return True
        if self.mode == "absent":
            return False
        if self.mode == "concrete":
            try:
                return key in self.concrete
            except symnum.HarnessError:
                raise
        c = ctx()
        b = z3.Bool(f"{self.name}_has!{len(self.lookups)}")
        self.lookups.append(key)
        return c.decide(b)

    def __contains__(self, key: Any) -> bool:
        return self._decide(key)

    def __getitem__(self, key: Any) -> Any:
        for k, v in reversed(self.writes):
            if k is key:
                return v
        if self.mode == "concrete" and key in self.concrete:
            return self.concrete[key]
        if self.on_present is not None:
            return self.on_present(key)
        raise KeyError(key)

    def get(self, key: Any, default: Any = None) -> Any:
        return self[key] if key in self else default

    def __setitem__(self, key: Any, value: Any) -> None:
        self.writes.append((key, value))

    def __delitem__(self, key: Any) -> None:
        self.deletes.append(key)

    def setdefault(self, key: Any, value: Any) -> Any:
        if key in self:
            return self[key]
        self.writes.append((key, value))
        return value

    def values(self) -> List[Any]:
        return [v for _, v in self.writes]

    def items(self) -> List[Tuple[Any, Any]]:
        return list(self.writes)


class AssocTable:
    """A finite store with possibly symbolic tuple keys: a list of (key, value) entries; a lookup
    compares the key with every entry through z3 (`decide` forks on undetermined equalities).
    Used for pre-states that list their entries explicitly (Dimension.define rewrites the table)."""

    def __init__(self, entries: Sequence[Tuple[Any, Any]] = ()) -> None:
        self.entries: List[Tuple[Any, Any]] = list(entries)

    @staticmethod
    def _eq(k1: Any, k2: Any) -> bool:
        if k1 is k2:
            return True
        if not isinstance(k1, tuple) or not isinstance(k2, tuple):
            raise symnum.HarnessError("AssocTable keys are tuples")
        if len(k1) != len(k2):
            return False
        conds = []
        for a, b in zip(k1, k2):
            if symnum.is_sym(a) or symnum.is_sym(b):
                conds.append(symnum.term(a) == symnum.term(b))
            elif a != b:
                return False
        if not conds:
            return True
        return ctx().decide(z3.And(*conds))

    def _find(self, key: Any) -> Optional[int]:
        for i, (k, _) in enumerate(self.entries):
            if self._eq(k, key):
                return i
        return None

    def __contains__(self, key: Any) -> bool:
        return self._find(key) is not None

    def __getitem__(self, key: Any) -> Any:
        i = self._find(key)
        if i is None:
            raise KeyError(key)
        return self.entries[i][1]

    def get(self, key: Any, default: Any = None) -> Any:
        i = self._find(key)
        return default if i is None else self.entries[i][1]

    def __setitem__(self, key: Any, value: Any) -> None:
        i = self._find(key)
        if i is None:
            self.entries.append((key, value))
        else:
            self.entries[i] = (self.entries[i][0], value)

    def __delitem__(self, key: Any) -> None:
        i = self._find(key)
        if i is None:
            raise KeyError(key)
        del self.entries[i]

    def setdefault(self, key: Any, value: Any) -> Any:
        i = self._find(key)
        if i is None:
            self.entries.append((key, value))
            return value
        return self.entries[i][1]

    def values(self) -> List[Any]:
        return [v for _, v in self.entries]

    def keys(self) -> List[Any]:
        return [k for k, _ in self.entries]

    def items(self) -> List[Tuple[Any, Any]]:
        return list(self.entries)

    def __iter__(self) -> Any:
        return iter(self.keys())

    def __len__(self) -> int:
        return len(self.entries)


class Tables:
    """Context manager swapping the class-level tables of Dimension / Prefix / Unit."""

    def __init__(self, mode: str = "absent", names_mode: str = "concrete") -> None:
        self.mode, self.names_mode = mode, names_mode
        self.saved: List[Tuple[Any, str, Any]] = []
        self.models: Dict[str, MapModel] = {}

    def __enter__(self) -> "Tables":
        import measured

        # error-message formatting is not the subject: FractionalDimensionError renders the
        # (symbolic) degree and value into its text; give it an empty body
        fde = measured.FractionalDimensionError
        self.saved.append((fde, "__init__", fde.__dict__["__init__"]))
        fde.__init__ = lambda self_, degree, value: ValueError.__init__(  # type: ignore
            self_, "fractional exponent")
        for cls in (measured.Dimension, measured.Prefix, measured.Unit):
            m = MapModel(f"{cls.__name__}._known", self.mode)
            self.saved.append((cls, "_known", cls.__dict__["_known"]))
            setattr(cls, "_known", m)
            self.models[f"{cls.__name__}._known"] = m
        # data the classes keep besides their tables (a remembered last construction, ...) must not
        # carry symbolic values from one path into the next: put back before every path
        classes = (measured.Dimension, measured.Prefix, measured.Unit)
        snaps = [(cls, symnum.class_scratch(cls)) for cls in classes]

        def hook() -> None:
            for cls, snap in snaps:
                symnum.restore_class_scratch(cls, snap)

        self._hook = hook
        symnum.PATH_START_HOOKS.append(hook)
        return self

    def __exit__(self, *exc: Any) -> None:
        hook = getattr(self, "_hook", None)
        if hook is not None:
            hook()
            if hook in symnum.PATH_START_HOOKS:
                symnum.PATH_START_HOOKS.remove(hook)
        for cls, name, old in reversed(self.saved):
            setattr(cls, name, old)
        self.saved = []

    def reset(self) -> None:
        for m in self.models.values():
            m.writes.clear()
            m.lookups.clear()
            m.deletes.clear()


# --------------------------------------------------------------------------------------
# shadow instances

NDIM = None


def ndim() -> int:
    import measured

    return len(measured.Number.exponents)


def shadow_dimension(exponents: Sequence[Any]) -> Any:
    import measured

    d = object.__new__(measured.Dimension)
    d._initialized = True
    d.exponents = tuple(exponents)
    d.name = None
    d.symbol = None
    return d


def shadow_prefix(base: int, exponent: Any, symbol: Optional[str] = None) -> Any:
    import measured

    p = object.__new__(measured.Prefix)
    p._initialized = True
    p.base = base
    p.exponent = exponent
    p.name = None
    p.symbol = symbol
    return p


def shadow_base_unit(dim_exponents: Sequence[Any], tag: str, prefix: Any = None) -> Any:
    """A base unit (factors == {self: 1}) of an arbitrary, possibly symbolic dimension."""
    import measured

    u = object.__new__(measured.Unit)
    u._initialized = True
    u.prefix = prefix if prefix is not None else measured.IdentityPrefix
    u.factors = {u: 1}
    u.dimension = shadow_dimension(dim_exponents)
    u.names = (tag,)
    u.symbols = (tag,)
    return u


def shadow_unit(prefix: Any, factors: Dict[Any, Any], dimension: Any) -> Any:
    import measured

    u = object.__new__(measured.Unit)
    u._initialized = True
    u.prefix = prefix
    u.factors = dict(factors)
    u.dimension = dimension
    u.names = ()
    u.symbols = ()
    return u


def dim_of_factors(factors: Dict[Any, Any], n: int) -> List[Any]:
    """The oracle side of C01: sum_f factors[f] * f.dimension.exponents[j], as z3 terms."""
    out = []
    for j in range(n):
        acc: Any = z3.IntVal(0)
        for f, e in factors.items():
            fe = f.dimension.exponents[j]
            acc = acc + term(e) * term(fe)
        out.append(acc)
    return out


def inv_terms(u: Any) -> List[z3.BoolRef]:
    """Inv(u): u.dimension.exponents[j] == sum_f u.factors[f] * dim(f)[j] for every j."""
    from measured import One

    n = len(u.dimension.exponents)
    fs = {f: e for f, e in u.factors.items() if f is not One}
    want = dim_of_factors(fs, n)
    return [term(u.dimension.exponents[j]) == want[j] for j in range(n)]
