"""Enumerated configuration families (units, prefixes, shapes) and code rendering for
replay scripts.  Everything is derived from the live registries after import."""

from __future__ import annotations

import importlib
import itertools
import random
from typing import Any, Dict, Iterable, List, Optional, Sequence, Tuple

from . import oracle as oracle_mod

Spec = Tuple[Tuple[int, Any], Tuple[Tuple[str, int], ...]]

_index: Optional[Dict[int, str]] = None
_orc: Optional[oracle_mod.Oracle] = None


def boot(modules: Optional[Sequence[str]] = None) -> oracle_mod.Oracle:
    """Load the library with the declaration recorder installed (once per process)."""
    global _orc
    if _orc is None:
        _orc = oracle_mod.load(modules)
    return _orc


def orc() -> oracle_mod.Oracle:
    return boot()


def _build_index() -> Dict[int, str]:
    import measured

    idx: Dict[int, str] = {}
    mods = ["measured"] + [f"measured.{m}" for m in oracle_mod.ALL_MODULES]
    for mn in mods:
        try:
            m = importlib.import_module(mn)
        except Exception:
            continue
        for attr, val in vars(m).items():
            if attr.startswith("_"):
                continue
            if isinstance(val, (measured.Unit, measured.Prefix, measured.Dimension,
                                measured.Logarithm, measured.LogarithmicUnit)):
                if not attr.isidentifier():
                    continue
                idx.setdefault(id(val), f"{mn}.{attr}")
    return idx


def code(obj: Any) -> str:
    """Python source (public API only) that evaluates to `obj` after `import measured.systems`."""
    import measured

    global _index
    if _index is None:
        _index = _build_index()
    if id(obj) in _index:
        return _index[id(obj)]
    if isinstance(obj, measured.Prefix):
        return f"measured.Prefix({obj.base!r}, {obj.exponent!r})"
    if isinstance(obj, measured.Unit):
        if obj.name:
            return f"measured.Unit.named({obj.name!r})"
        parts = []
        if obj.prefix.base != 0:
            parts.append(code(obj.prefix))
        for f, e in obj.factors.items():
            parts.append(code(f) if e == 1 else f"{code(f)}**{e}")
        return "(" + " * ".join(parts) + ")"
    if isinstance(obj, measured.Dimension):
        return f"measured.Dimension({obj.exponents!r})"
    raise ValueError(f"no code for {obj!r}")


REPLAY_IMPORTS = "import measured, measured.systems\n" + "".join(
    f"import measured.{m}\n" for m in oracle_mod.ALL_MODULES)


def spec_of(u: Any) -> Spec:
    return ((u.prefix.base, u.prefix.exponent),
            tuple((f.name, e) for f, e in u.factors.items()))


def unit_of(spec: Spec) -> Any:
    import measured

    (base, exp), factors = spec
    u = measured.One
    for name, e in factors:
        u = u * measured.Unit.named(name) ** e
    if base != 0:
        u = measured.Prefix(base, exp) * u
    return u


def show(u: Any) -> str:
    try:
        return str(u)
    except Exception:
        return repr(u)


# --------------------------------------------------------------------------------------
# unit families


def named_units() -> List[Any]:
    import measured

    seen, out = set(), []
    for name, u in measured.Unit._by_name.items():
        if id(u) not in seen:
            seen.add(id(u))
            out.append(u)
    return out


def offset_free(units: Iterable[Any]) -> List[Any]:
    off = orc().offset_units
    return [u for u in units if u not in off and not any(f in off for f in u.factors)]


def by_dimension(units: Iterable[Any]) -> Dict[Any, List[Any]]:
    d: Dict[Any, List[Any]] = {}
    for u in units:
        d.setdefault(u.dimension, []).append(u)
    return d


def si_prefixes() -> List[Any]:
    import measured

    return [p for p in measured.Prefix._known.values() if p.base == 10 and p.name]


def iec_prefixes() -> List[Any]:
    import measured

    return [p for p in measured.Prefix._known.values() if p.base == 2 and p.name]


CORE_NAMES = [
    "meter", "foot", "inch", "yard", "mile", "second", "minute", "hour", "gram", "kilogram",
    "pound", "ounce", "liter", "gallon", "acre", "hectare", "newton", "pound-force", "joule",
    "calorie", "watt", "horsepower", "pascal", "pounds per square inch", "coulomb", "ampere",
    "volt", "bit", "byte", "hertz", "knot", "radian", "British thermal unit",
]


def core_units() -> List[Any]:
    import measured

    out = []
    for n in CORE_NAMES:
        u = measured.Unit._by_name.get(n)
        if u is not None:
            out.append(u)
    return out


def shuffled(seq: Sequence[Any], seed: int) -> List[Any]:
    out = list(seq)
    random.Random(seed).shuffle(out)
    return out


def compound_shapes(units: Sequence[Any], max_degree: int, max_factors: int = 3,
                    max_exp: int = 3) -> Iterable[Any]:
    """Products of integer powers of `units`, breadth-first by total degree."""
    from measured import One

    seen = set()
    for nf in range(1, max_factors + 1):
        for combo in itertools.combinations(units, nf):
            for exps in itertools.product(
                    [e for e in range(-max_exp, max_exp + 1) if e], repeat=nf):
                if sum(abs(e) for e in exps) > max_degree:
                    continue
                u = One
                for f, e in zip(combo, exps):
                    u = u * f ** e
                if id(u) not in seen and u is not One:
                    seen.add(id(u))
                    yield u
