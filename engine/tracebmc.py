"""E4b `tracebmc` -- step systems derived from executions of the real constructor under a symbolic
intern table, and bounded model checking of their interleavings.

The AST extractor of `stepbmc` understands a fixed set of statement forms.  This module gets the
same kind of step system from *running* the real `cls(*args)` with the class's `_known` table
replaced by a scripted stand-in whose answers ("is the key there?", "what does setdefault
return?") are enumerated exhaustively by re-execution: for fixed arguments a constructor's control
flow depends on the shared state only through those answers, so the set of traces over all answer
scripts *is* its program.  Helpers, aliases (`known = cls._known`), `try/except KeyError`,
`.get`, walrus tests and so on need no special support.

One step = one `sys.settrace` line event in a function that is on the call stack of some table
operation (the constructor and the helpers it interns through); everything a step does to the
table is recorded with it.  z3 then searches the schedules of T threads, each following one of
the recorded traces, such that every answer a trace assumed is the answer the shared table gives
at that moment; a schedule after which the threads hold different objects, or the table holds
another one, is replayed on real threads under a line scheduler over the same functions.
"""

from __future__ import annotations

import ast
import inspect
import sys
import textwrap
import time
import types
from typing import Any, Callable, Dict, List, Optional, Sequence, Tuple

import z3

from .symnum import HarnessError

MINE = "mine"


class _Abort(BaseException):
    pass


class Op:
    __slots__ = ("kind", "outcome", "value", "reg")

    def __init__(self, kind: str, outcome: Optional[str] = None, value: Any = None, reg: Optional[int] = None) -> None:
        # kind: contains | getitem | get | setdefault | setitem | sd_read | sd_write
        # outcome: 'present' | 'absent' (reads), 'inserted' | 'existing' (setdefault), None (stores)
        # value: what a store writes: MINE or ('reg', j);  reg: register receiving a value read
        self.kind, self.outcome, self.value, self.reg = kind, outcome, value, reg

    def __repr__(self) -> str:
        return f"{self.kind}:{self.outcome or ''}{'' if self.value is None else ' value=' + str(self.value)}" \
               f"{'' if self.reg is None else ' -> r' + str(self.reg)}"


class Step:
    __slots__ = ("code", "line", "ops", "src", "acquire", "inside")

    def __init__(self, code: Any, line: int) -> None:
        self.code, self.line = code, line
        self.ops: List[Op] = []
        self.src = ""
        self.acquire = False      # the line of a `with <lock>:` statement
        self.inside = False       # a line in the body of such a statement

    def __repr__(self) -> str:
        return f"<{self.code.co_name}:{self.line} {self.ops} {'ACQ' if self.acquire else ''}{'CS' if self.inside else ''}>"


class Trace:
    def __init__(self, steps: List[Step], ret: Any, script: List[int]) -> None:
        self.steps, self.ret, self.script = steps, ret, script


class TraceTable:
    """Stands in for `cls._known` during extraction; answers come from a decision script."""

    def __init__(self, owner: "Extraction") -> None:
        self.o = owner

    # reads
    def __contains__(self, key: Any) -> bool:
        self.o.key(key)
        present = self.o.decide(2) == 1
        self.o.op(Op("contains", "present" if present else "absent"))
        return present

    def __getitem__(self, key: Any) -> Any:
        pending = getattr(self, "_pending", None)
        if pending is not None:
            self._pending = None
            if key in pending:
                return pending[key]        # second half of dict(table): no new answer
        self.o.key(key)
        if self.o.decide(2) == 1:
            j, s = self.o.sentinel()
            self.o.op(Op("getitem", "present", reg=j))
            return s
        self.o.op(Op("getitem", "absent"))
        raise KeyError(key)

    def get(self, key: Any, default: Any = None) -> Any:
        self.o.key(key)
        if self.o.decide(2) == 1:
            j, s = self.o.sentinel()
            self.o.op(Op("get", "present", reg=j))
            return s
        self.o.op(Op("get", "absent"))
        return default

    # writes
    def setdefault(self, key: Any, value: Any = None) -> Any:
        self.o.key(key)
        if self.o.decide(2) == 1:
            j, s = self.o.sentinel()
            self.o.op(Op("setdefault", "existing", value=self.o.tag(value), reg=j))
            return s
        self.o.op(Op("setdefault", "inserted", value=self.o.tag(value)))
        return value

    def __setitem__(self, key: Any, value: Any) -> None:
        self.o.key(key)
        self.o.op(Op("setitem", None, value=self.o.tag(value)))

    # private copies: `dict(table)`, `table.copy()`, `{**table}` -- a snapshot of the one key
    def _snapshot(self) -> Dict[Any, Any]:
        if not self.o.keys:
            raise HarnessError("the table is copied before the key is known: outside the single-key model")
        key = self.o.keys[0]
        if self.o.decide(2) == 1:
            j, s = self.o.sentinel()
            self.o.op(Op("snapshot", "present", reg=j), depth=3)
            return {key: s}
        self.o.op(Op("snapshot", "absent"), depth=3)
        return {}

    def copy(self) -> Dict[Any, Any]:
        return self._snapshot()

    def keys(self) -> Any:
        self._pending = self._snapshot()
        return list(self._pending)

    def __iter__(self) -> Any:
        return iter(self.keys())

    # live iteration: `for k, v in table.items()` in Python code runs bytecode between the items; if
    # another thread inserts in between, CPython raises RuntimeError (dictionary changed size during
    # iteration).  The iterator records when it starts and every time it advances; the search knows
    # the table's size-change counter.  (Consumed by C code in one step -- list(table.items()) --
    # all of it lands on one step and no preemption fits in between.)
    def _live(self, pick: Any) -> Any:
        entries = list(self._snapshot().items())
        real = getattr(self.o, "real_table", None)
        if real:
            for k, v in real.items():
                if not any(k is kk or self.o._same(k, kk) for kk, _ in entries):
                    entries.append((k, v))        # some other entry: the loop runs at least twice
                    break
        return LiveIter(self.o, [pick(e) for e in entries])

    def items(self) -> Any:
        return self._live(lambda e: e)

    def values(self) -> Any:
        return self._live(lambda e: e[1])

    def _unmodelled(self, *a: Any, **k: Any) -> Any:
        raise HarnessError("the constructor uses a table operation the trace model has no semantics for")

    __delitem__ = pop = popitem = clear = update = __len__ = _unmodelled


class LiveIter:
    def __init__(self, owner: "Extraction", entries: List[Any]) -> None:
        self.o, self.entries, self.i = owner, entries, 0
        self.o.op(Op("iter_begin"), depth=1)

    def __iter__(self) -> "LiveIter":
        return self

    def __next__(self) -> Any:
        self.o.op(Op("iter_next"), depth=1)
        if self.i >= len(self.entries):
            raise StopIteration
        self.i += 1
        return self.entries[self.i - 1]


class Extraction:
    """All traces of `call()` (which must construct one object of `cls` for one fixed key)."""

    def __init__(self, cls: Any, call: Callable[[], Any], files: Sequence[str]) -> None:
        # `files`: path prefixes (the package directory) whose functions are traced
        self.cls, self.call, self.files = cls, call, tuple(files)
        self.script: List[int] = []
        self.pos = 0
        self.events: List[Tuple[Any, int]] = []
        self.ops_at: List[Tuple[int, Op]] = []
        self.stacks: List[Tuple[Any, ...]] = []
        self.sentinels: List[Any] = []
        self.keys: List[Any] = []
        self.proto: Any = None
        # plain data the class keeps besides its table (a remembered last construction): put back
        # before every run, and what a run changes is reported (shared state outside the step system)
        from .symnum import class_scratch

        self.scratch0 = class_scratch(cls)
        self.extra_state_written: set = set()

    # -- callbacks of TraceTable --------------------------------------------------------
    def decide(self, n: int) -> int:
        if self.pos < len(self.script):
            d = self.script[self.pos]
        else:
            d = 0
            self.script.append(0)
        self.pos += 1
        return d

    def sentinel(self) -> Tuple[int, Any]:
        """What the table hands out is somebody else's finished object for the same key: a
        field-by-field clone of the object an undisturbed construction produces."""
        s = object.__new__(self.cls)
        proto = self.proto
        if proto is not None:
            for klass in type(proto).__mro__:
                for slot in getattr(klass, "__slots__", ()):
                    if slot in ("__weakref__", "__dict__") or not hasattr(proto, slot):
                        continue
                    try:
                        object.__setattr__(s, slot, getattr(proto, slot))
                    except (AttributeError, TypeError):
                        pass
            if hasattr(proto, "__dict__"):
                s.__dict__.update(proto.__dict__)
        else:
            s._initialized = True
        self.sentinels.append(s)
        return len(self.sentinels) - 1, s

    def tag(self, value: Any) -> Any:
        for j, s in enumerate(self.sentinels):
            if value is s:
                return ("reg", j)
        return MINE

    def key(self, key: Any) -> None:
        if not any(k is key or self._same(k, key) for k in self.keys):
            self.keys.append(key)

    @staticmethod
    def _same(a: Any, b: Any) -> bool:
        try:
            return bool(a == b)
        except Exception:
            return False

    def op(self, op: Op, depth: int = 2) -> None:
        # attribute the operation to the innermost library frame that is executing a line
        f = sys._getframe(depth)
        stack = []
        while f is not None:
            if f.f_code.co_filename.startswith(self.files):
                stack.append(f.f_code)
            f = f.f_back
        self.stacks.append(tuple(stack))
        self.ops_at.append((len(self.events) - 1, op))

    # -- one run --------------------------------------------------------------------------
    def run_once(self) -> Tuple[List[Tuple[Any, int]], List[Tuple[int, Op]], Any]:
        self.pos = 0
        self.events, self.ops_at, self.sentinels, self.keys = [], [], [], []

        def published() -> None:
            """`cls._known = <another table>`: the class attribute was rebound during the step that
            just ended; what the new table holds for the key becomes the shared entry."""
            cur = self.cls.__dict__["_known"]
            if cur is table:
                return
            key = self.keys[0] if self.keys else None
            try:
                val = cur.get(key) if key is not None else None
            except Exception:
                raise HarnessError("the table was replaced by an object the model cannot read")
            self.ops_at.append((len(self.events) - 1, Op("publish", None, value=None if val is None else self.tag(val))))
            self.stacks.append(tuple(c for c, _ in self.events[-1:]))
            type.__setattr__(self.cls, "_known", table)

        def local(frame: Any, event: str, arg: Any) -> Any:
            if event in ("line", "return"):
                published()
            if event == "line":
                self.events.append((frame.f_code, frame.f_lineno))
            return local

        def glob(frame: Any, event: str, arg: Any) -> Any:
            if event == "call" and frame.f_code.co_filename.startswith(self.files):
                return local
            return None

        from .symnum import restore_class_scratch

        restore_class_scratch(self.cls, self.scratch0)
        saved = self.cls.__dict__["_known"]
        self.real_table = saved if isinstance(saved, dict) else None
        table = TraceTable(self)
        type.__setattr__(self.cls, "_known", table)
        old = sys.gettrace()
        sys.settrace(glob)
        result: Any = None
        try:
            result = self.call()
        except HarnessError:
            raise
        except Exception:
            # answers no real table gives in this order (present, then gone) make the constructor
            # raise; the trace is kept and is simply never feasible in the search
            result = None
        finally:
            sys.settrace(old)
            type.__setattr__(self.cls, "_known", saved)
            self.extra_state_written.update(restore_class_scratch(self.cls, self.scratch0))
        self.last_result = result
        if len(self.keys) > 1:
            raise HarnessError(f"the constructor consults the table under {len(self.keys)} different keys in one "
                               f"call: outside the single-key model")
        return self.events, self.ops_at, self.tag(result) if isinstance(result, self.cls) else "other"

    def all_traces(self, limit: int = 64) -> Tuple[List[Trace], List[Any]]:
        raw = []
        # the undisturbed construction (every answer "absent") gives the prototype of a finished object
        self.script = []
        self.run_once()
        self.proto = self.last_result if isinstance(self.last_result, self.cls) else None
        self.stacks = []
        self.script = []
        relevant: set = set()
        while True:
            self.script = list(self.script)
            ev, ops, ret = self.run_once()
            used = self.script[:self.pos]
            raw.append((list(ev), list(ops), ret, list(used)))
            for st in self.stacks:
                relevant.update(st)
            if len(raw) > limit:
                raise HarnessError("more traces than the limit: the constructor loops on table answers")
            # next script in DFS order: flip the last 0 to 1
            nxt = list(used)
            while nxt and nxt[-1] == 1:
                nxt.pop()
            if not nxt:
                break
            nxt[-1] = 1
            self.script = nxt
            self.stacks = []
        self.stacks = []
        if not relevant:
            raise HarnessError("the constructor never consults the intern table")
        traces = []
        for ev, ops, ret, used in raw:
            keep = [i for i, (code, _) in enumerate(ev) if code in relevant]
            index = {old: new for new, old in enumerate(keep)}
            steps = [Step(*ev[i]) for i in keep]
            for at, op in ops:
                # the operation belongs to the last relevant line event at or before `at`
                while at >= 0 and at not in index:
                    at -= 1
                if at < 0:
                    raise HarnessError("a table operation precedes every traced line")
                steps[index[at]].ops.append(op)
            traces.append(Trace(steps, ret, used))
        return traces, sorted(relevant, key=lambda c: (c.co_filename, c.co_firstlineno))


# ----------------------------------------------------------------------------------------------
# locks: `with <something lock>:` statements in the traced functions


def _is_lock(expr: str, code: Any, cls: Any) -> bool:
    """Does the context expression of a `with` denote a lock?  Evaluated in the globals of the
    module the function lives in (with `cls` bound); failing that, by its spelling."""
    env: Dict[str, Any] = {}
    for mod in list(sys.modules.values()):
        if getattr(mod, "__file__", None) == code.co_filename:
            env = dict(vars(mod))
            break
    env["cls"] = cls
    try:
        obj = eval(expr, env)
        return hasattr(obj, "acquire") and hasattr(obj, "release")
    except Exception:
        return "lock" in expr.lower()


def lock_regions(codes: Sequence[Any], cls: Any = None) -> Dict[Any, List[Tuple[int, int, int]]]:
    """code -> [(with line, first body line, last body line)] for with-statements on a lock."""
    out: Dict[Any, List[Tuple[int, int, int]]] = {}
    for code in codes:
        try:
            fn_src = inspect.getsource(code)
        except (OSError, TypeError):
            continue
        tree = ast.parse(textwrap.dedent(fn_src))
        off = code.co_firstlineno - 1
        for n in ast.walk(tree):
            if isinstance(n, ast.With) and any(_is_lock(ast.unparse(i.context_expr), code, cls) for i in n.items):
                last = max(getattr(x, "end_lineno", n.lineno) or n.lineno for x in ast.walk(n))
                out.setdefault(code, []).append((n.lineno + off, n.body[0].lineno + off, last + off))
    return out


def annotate(traces: List[Trace], codes: Sequence[Any], atomic_setdefault: bool, cls: Any = None) -> None:
    regions = lock_regions(codes, cls)
    for tr in traces:
        new_steps: List[Step] = []
        for st in tr.steps:
            for (w, a, b) in regions.get(st.code, []):
                if st.line == w:
                    st.acquire = True
                elif a <= st.line <= b:
                    st.inside = True
            try:
                lines, first = inspect.getsourcelines(st.code)
                st.src = lines[st.line - first].strip()[:70]
            except Exception:
                st.src = ""
            if not atomic_setdefault and any(o.kind == "setdefault" for o in st.ops):
                # a Python-level setdefault: look-up, preemption point, unconditional store
                if len([o for o in st.ops if o.kind == "setdefault"]) > 1:
                    raise HarnessError("two setdefault calls on one line with a non-atomic table")
                before: List[Op] = []
                after: List[Op] = []
                sd = None
                for o in st.ops:
                    if o.kind == "setdefault":
                        sd = o
                    elif sd is None:
                        before.append(o)
                    else:
                        after.append(o)
                assert sd is not None
                if sd.outcome == "existing":
                    st.ops = before + [Op("sd_read", "present", reg=sd.reg)] + after
                    new_steps.append(st)
                else:
                    st.ops = before + [Op("sd_read", "absent")]
                    new_steps.append(st)
                    w = Step(st.code, st.line)
                    w.src = "<the store inside the table's own setdefault>"
                    w.ops = [Op("sd_write", None, value=sd.value)] + after
                    w.inside = st.inside
                    new_steps.append(w)
                continue
            new_steps.append(st)
        tr.steps = new_steps


# ----------------------------------------------------------------------------------------------
# bounded model checking of the interleavings


def search(traces: List[Trace], threads: int, timeout_ms: int = 120000) -> Dict[str, Any]:
    P = len(traces)
    maxsteps = max(len(t.steps) for t in traces)
    R = max([1] + [1 + max([o.reg for s in t.steps for o in s.ops if o.reg is not None] or [0]) for t in traces])
    horizon = maxsteps * threads
    S = z3.Solver()
    S.set("timeout", timeout_ms)
    path = [z3.Int(f"path{k}") for k in range(threads)]
    sched = [z3.Int(f"sched{t}") for t in range(horizon)]
    pc = [[z3.Int(f"pc{t}_{k}") for k in range(threads)] for t in range(horizon + 1)]
    reg = [[[z3.Int(f"reg{t}_{k}_{j}") for j in range(R)] for k in range(threads)] for t in range(horizon + 1)]
    tab = [z3.Int(f"tab{t}") for t in range(horizon + 1)]
    lock = [z3.Int(f"lock{t}") for t in range(horizon + 1)]
    ver = [z3.Int(f"ver{t}") for t in range(horizon + 1)]          # how often the table changed size
    itv = [[z3.Int(f"itv{t}_{k}") for k in range(threads)] for t in range(horizon + 1)]
    err = [z3.Bool(f"err{t}") for t in range(horizon + 1)]         # some live iteration saw the size change
    S.add(tab[0] == 0, lock[0] == 0, ver[0] == 0, z3.Not(err[0]), *[itv[0][k] == 0 for k in range(threads)])
    for k in range(threads):
        S.add(path[k] >= 0, path[k] < P, pc[0][k] == 0, *[reg[0][k][j] == 0 for j in range(R)])

    def val(v: Any, t: int, k: int, regs_now: List[Any]) -> Any:
        return z3.IntVal(k + 1) if v == MINE else regs_now[v[1]]

    for t in range(horizon):
        S.add(sched[t] >= 0, sched[t] < threads)
        for k in range(threads):
            active = sched[t] == k
            S.add(z3.Implies(z3.Not(active), z3.And(pc[t + 1][k] == pc[t][k], itv[t + 1][k] == itv[t][k],
                                                    *[reg[t + 1][k][j] == reg[t][k][j] for j in range(R)])))
            for p, tr in enumerate(traces):
                n = len(tr.steps)
                # a finished thread that is scheduled idles
                S.add(z3.Implies(z3.And(active, path[k] == p, pc[t][k] >= n),
                                 z3.And(pc[t + 1][k] == pc[t][k], tab[t + 1] == tab[t], lock[t + 1] == lock[t],
                                        ver[t + 1] == ver[t], err[t + 1] == err[t], itv[t + 1][k] == itv[t][k],
                                        *[reg[t + 1][k][j] == reg[t][k][j] for j in range(R)])))
                for i, st in enumerate(tr.steps):
                    here = z3.And(active, path[k] == p, pc[t][k] == i)
                    cur = tab[t]
                    regs_now = list(reg[t][k])
                    conds = []
                    vnow: Any = ver[t]
                    inow: Any = itv[t][k]
                    enow: Any = err[t]
                    for o in st.ops:
                        before_op = cur
                        if o.kind == "iter_begin":
                            inow = vnow
                            continue
                        if o.kind == "iter_next":
                            enow = z3.Or(enow, inow != vnow)
                            continue
                        if o.kind == "publish":
                            cur = z3.IntVal(0) if o.value is None else val(o.value, t, k, regs_now)
                        elif o.kind in ("contains", "getitem", "get", "sd_read", "snapshot"):
                            if o.outcome == "present":
                                conds.append(cur != 0)
                                if o.reg is not None:
                                    regs_now[o.reg] = cur
                            else:
                                conds.append(cur == 0)
                        elif o.kind == "setdefault":
                            if o.outcome == "existing":
                                conds.append(cur != 0)
                                regs_now[o.reg] = cur
                            else:
                                conds.append(cur == 0)
                                cur = val(o.value, t, k, regs_now)
                        elif o.kind in ("setitem", "sd_write"):
                            cur = val(o.value, t, k, regs_now)
                        else:
                            raise HarnessError(f"no semantics for {o.kind}")
                        vnow = vnow + z3.If(z3.And(before_op == 0, cur != 0), 1, 0)
                    # locks
                    if st.acquire:
                        conds.append(z3.Or(lock[t] == 0, lock[t] == k + 1))
                    if st.inside:
                        conds.append(lock[t] == k + 1)
                    nxt_inside = i + 1 < n and tr.steps[i + 1].inside
                    holds_after = (st.acquire or st.inside) and nxt_inside
                    lock_after = z3.IntVal(k + 1) if holds_after else (
                        z3.IntVal(0) if (st.acquire or st.inside) else lock[t])
                    # the trace assumed these answers: a thread on this trace can only be here when
                    # the table really gives them (otherwise it is on another trace)
                    S.add(z3.Implies(here, z3.And(*conds, pc[t + 1][k] == i + 1, tab[t + 1] == cur,
                                                  lock[t + 1] == lock_after, ver[t + 1] == vnow,
                                                  itv[t + 1][k] == inow, err[t + 1] == enow,
                                                  *[reg[t + 1][k][j] == regs_now[j] for j in range(R)])))
    T = horizon
    done = z3.And(*[z3.Or(*[z3.And(path[k] == p, pc[T][k] >= len(tr.steps)) for p, tr in enumerate(traces)])
                    for k in range(threads)])

    def ret_of(k: int) -> Any:
        e: Any = z3.IntVal(-1)
        for p, tr in enumerate(traces):
            v = z3.IntVal(-1) if tr.ret == "other" else (z3.IntVal(k + 1) if tr.ret == MINE else reg[T][k][tr.ret[1]])
            e = z3.If(path[k] == p, v, e)
        return e

    rets = [ret_of(k) for k in range(threads)]
    differ = z3.Or(*[rets[a] != rets[b] for a in range(threads) for b in range(a + 1, threads)],
                   *[tab[T] != rets[a] for a in range(threads)], err[T])
    t0 = time.time()
    S.push()
    S.add(done)
    witness = str(S.check())
    S.pop()
    S.add(done, differ)
    r = str(S.check())
    out: Dict[str, Any] = {"result": r, "witness": witness, "steps": maxsteps, "horizon": horizon,
                           "traces": P, "solver_s": time.time() - t0, "threads": threads,
                           "variables": (horizon + 1) * (threads * (1 + R) + 2) + horizon + threads}
    if r == "sat":
        m = S.model()
        ev = lambda x: m.eval(x, model_completion=True).as_long()
        paths = [ev(path[k]) for k in range(threads)]
        trace = []
        for t in range(horizon):
            k = ev(sched[t])
            i = ev(pc[t][k])
            tr = traces[paths[k]]
            if i < len(tr.steps):
                st = tr.steps[i]
                trace.append((k, st.line, ",".join(map(repr, st.ops)) or "-", f"{st.code.co_name}: {st.src}"))
        out["schedule"] = [k for k, *_ in trace]
        out["trace"] = trace
        out["rets"] = [ev(x) for x in rets]
        out["table"] = ev(tab[T])
        out["paths"] = paths
    return out
