"""C09 -- shipped definitions mutually consistent and connected to SI.

(a) All cycles at once: exists x. AND_e |A_e x - ln r_e| <= ln(1 + 1e-5 g_e) over real
    potentials x_u = ln size(u), one guarded constraint per recorded declaration (QF_LRA).
    By Farkas' lemma this is satisfiable iff no integer combination of declarations whose unit
    coefficients cancel has a residual beyond the sum of its edges' tolerances.  `unsat` comes
    with an unsat core = a violating set of declarations (minimised by deletion).
(b) Connectivity: for every named unit of a physical dimension the real in_unit to and from
    the coherent SI unit runs on a solver-backed magnitude and must return the oracle's value.
"""

from __future__ import annotations

import sys
from fractions import Fraction
from typing import Any, Dict, List, Tuple

import z3

from engine import convterm, families, par, report, symnum, work
from props import conv_common as cc

PID = "C09"


def core_signature(core: List[Any]) -> str:
    return "C09:cycle:" + " & ".join(sorted(d.signature() for d in core))


def core_replay(core: List[Any]) -> str:
    sigs = [d.signature() for d in core]
    return f"""
sys.path.insert(0, {report.ROOT!r})
from engine import oracle          # declaration recorder only; no solver is used here
orc = oracle.load()
want = {sigs!r}
decls = [d for d in orc.decls if d.signature() in want]
print('declarations forming the disagreeing chains:')
for d in decls:
    print('   ', d.describe())
if len(decls) < len(want):
    print('declarations not present any more'); sys.exit(0)
r = oracle.cycle_residual(decls)
print(r)
if r and r['inconsistent']:
    print('REPRODUCED: multiplying out these shipped declarations leaves a residual of '
          f"exp({{r['residual']:.3g}}), allowed exp({{r['allowance']:.3g}})")
    sys.exit(1)
sys.exit(0)
"""


def si_unit(dim: Any) -> Any:
    """Coherent SI unit of a dimension, from kilogram, metre, second, kelvin, coulomb, mole,
    candela (and bit for information)."""
    import measured
    from measured import One
    from measured.si import Candela, Coulomb, Kelvin, Kilogram, Meter, Mole, Second

    bit = measured.Unit._by_name.get("bit")
    by_dim = {measured.Length: Meter, measured.Time: Second, measured.Mass: Kilogram,
              measured.Temperature: Kelvin, measured.Charge: Coulomb,
              measured.AmountOfSubstance: Mole, measured.LuminousIntensity: Candela,
              measured.Information: bit}
    u = One
    for fund, e in zip(measured.Dimension.fundamental(), dim.exponents):
        if e:
            base = by_dim.get(fund)
            if base is None:
                return None
            u = u * base ** e
    return u


def worker(task: Tuple) -> Dict[str, Any]:
    mode, items = task
    families.boot()
    orc = cc.oracle_with_readings()
    acc = work.Acc()
    import measured

    with symnum.Shims():
        for name in items:
            u = measured.Unit._by_name[name]
            si = si_unit(u.dimension)
            if si is None:
                acc.count("no_si_unit")
                continue
            if si is u:
                continue
            for src, dst, direction in ((u, si, "to-SI"), (si, u, "from-SI")):
                label = f"{name}:{direction}"
                key = (label,)
                cv = convterm.convert(src, dst, "float")
                acc.out["paths"] += cv.paths
                acc.out["queries"] += cv.queries
                code_s, code_d = families.code(src), families.code(dst)
                rep_body = families.REPLAY_IMPORTS + f"""
src, dst = {code_s}, {code_d}
try:
    print((1 * src).in_unit(dst))
except Exception as e:
    print('REPRODUCED: named unit does not convert', type(e).__name__, e); sys.exit(1)
sys.exit(0)
"""
                if cv.outcome != "ok":
                    acc.ob("sat", label + ":returns", key)
                    acc.out["viol"].append((f"C09:connectivity:{name}:{direction}",
                                            f"{name} {direction} ({families.show(si)}) raises "
                                            f"{cv.outcome}", rep_body))
                    continue
                acc.ob("unsat", label + ":returns", key)
                if u in orc.offset_units:
                    acc.count("offset_scale_value_checked_in_C10")
                    continue
                ratios = orc.ratios(src, dst)
                if not ratios:
                    acc.ob("sat", label + ":oracle-size", key)
                    acc.out["viol"].append((f"C09:unsized:{name}",
                                            f"no declaration chain gives {name} a size relative to SI",
                                            rep_body.replace("sys.exit(0)\n", "print('REPRODUCED: "
                                                             "converts but no declaration chain "
                                                             "links it to SI'); sys.exit(1)\n")))
                    continue
                tol = 1e-5 * orc.degree(src, dst)
                ok = None
                for i, (rho, ex, dropped) in enumerate(ratios):
                    r, _ = acc.P.check(z3.Not(convterm.within(cv.c, cv.d, rho, tol)))
                    if r == "unsat":
                        ok = i
                        break
                if ok is None:
                    acc.ob("sat", label + ":value", key)
                    from props import c04

                    acc.out["viol"].append((f"C09:value:{name}:{direction}",
                                            f"{label}: library m*{float(cv.c)!r}, declarations "
                                            f"m*{float(ratios[0][0])!r}",
                                            c04.replay(code_s, code_d, "float", ratios[0][0], tol)))
                else:
                    acc.ob("unsat", label + ":value" + ("" if ok == 0 else ":ambiguous"), key)
                    if ok:
                        acc.count("ambiguous_by_inconsistent_declarations")
        acc.sample({"unit": items[0], "si": families.show(si_unit(
            measured.Unit._by_name[items[0]].dimension))})
    return acc.finish()


def module_worker(modname: str) -> Dict[str, Any]:
    """One unit module imported on its own (with what it imports itself): the declarations
    visible then must be consistent too, and its named units must reach SI."""
    from engine import oracle as om

    orc = om.load([modname])
    families._orc = orc
    res = orc.consistency(1e-5)
    import measured

    out = {"module": modname, "declarations": res["declarations"], "status": res["status"],
           "cores": [(core_signature(c), " ; ".join(d.describe() for d in c), core_replay(c))
                     for c in res["cores"]], "unconnected": [], "units": 0, "queries": res["queries"],
           "solver_s": res["solver_s"]}
    with symnum.Shims():
        for n, u in list(measured.Unit._by_name.items()):
            if u.dimension is measured.Number:
                continue
            si = si_unit(u.dimension)
            if si is None or si is u:
                continue
            out["units"] += 1
            for src, dst in ((u, si), (si, u)):
                cv = convterm.convert(src, dst, "float")
                if cv.outcome != "ok":
                    out["unconnected"].append((n, cv.outcome))
                    break
    return out


def main(tier: str, selftest_cases: int = 0) -> int:
    rep = report.Report(PID, tier, "other")
    orc = families.boot()
    import measured

    # (a) all cycles at once
    res = orc.consistency(1e-5, timeout_ms=60000 if tier == "quick" else 300000)
    rep.merge_stats(queries=res["queries"], solver_s=res["solver_s"])
    rep.coverage["declarations"] = res["declarations"]
    rep.coverage["potentials"] = res["potentials"]
    if res["status"] != "decided":
        rep.ob("unknown", "cycle-consistency")
    else:
        rep.ob("unsat" if not res["cores"] else "sat", "cycle-consistency(all cycles, Farkas)",
               ("cycles",))
        for core in res["cores"]:
            what = "shipped declarations disagree: " + " ; ".join(d.describe() for d in core)
            rep.violation(core_signature(core), what, core_replay(core))
        # every single declaration is an obligation of its own once the system is feasible
        for d in orc.decls:
            rep.ob("unsat" if not any(d in c for c in res["cores"]) else "sat",
                   f"decl:{d.where}", ("decl", d.index))
    if tier == "thorough" and res["status"] == "decided":
        # cross-check the verdict with cvc5 on the same constraints
        try:
            st = cvc5_crosscheck(orc, res)
            rep.coverage["cvc5_crosscheck"] = st
            if st == "disagree":
                raise symnum.HarnessError("z3 and cvc5 disagree on the consistency query")
        except ImportError:
            rep.coverage["cvc5_crosscheck"] = "cvc5 not importable"
    rep.sample({"declaration": orc.decls[5].describe(), "as_constraint":
                "|x_a - x_b - ln r| <= ln(1 + 1e-5*g)"})
    # (b) connectivity
    names = []
    seen = set()
    for n, u in measured.Unit._by_name.items():
        if id(u) in seen or u.dimension is measured.Number:
            continue
        seen.add(id(u))
        names.append(n)
    names = families.shuffled(names, rep.seed)
    results = par.run("props.c09", "worker", [("conn", ch) for ch in par.chunks(names, 16)])
    work.merge(rep, results)
    if tier == "thorough":
        mods = ["si", "us", "avoirdupois", "troy", "energy", "astronomical", "natural", "metric", "iec",
                "iso", "eu", "fff", "apocrypha", "computing", "acoustics", "electronics", "music"]
        for r in par.run("props.c09", "module_worker", mods, maxtasksperchild=1):
            rep.merge_stats(queries=r["queries"], solver_s=r["solver_s"])
            rep.ob("unsat" if r["status"] == "decided" and not r["cores"] else
                   ("unknown" if r["status"] != "decided" else "sat"),
                   f"module {r['module']} imported alone: {r['declarations']} declarations consistent",
                   ("module", r["module"]))
            for sig, what, body in r["cores"]:
                rep.violation(sig, f"(module {r['module']} alone) shipped declarations disagree: {what}", body)
            names_bad = sorted({n for n, _ in r["unconnected"]})
            rep.ob("unsat" if not names_bad else "sat",
                   f"module {r['module']} imported alone: {r['units']} named units reach SI", ("modconn", r["module"]))
            for n in names_bad:
                rep.violation(f"C09:connectivity:{n}:to-SI", f"(module {r['module']} alone) {n} does not "
                              "convert to/from SI", families.REPLAY_IMPORTS + f"""
u = measured.Unit.named({n!r})
from props_c09_si import si_unit
""".replace("from props_c09_si import si_unit\n", "") + f"""
import measured.si as si
from measured import One
by = {{measured.Length: si.Meter, measured.Time: si.Second, measured.Mass: si.Kilogram, measured.Temperature: si.Kelvin,
      measured.Charge: si.Coulomb, measured.AmountOfSubstance: si.Mole, measured.LuminousIntensity: si.Candela,
      measured.Information: measured.Unit._by_name.get('bit')}}
S = One
for fund, e in zip(measured.Dimension.fundamental(), u.dimension.exponents):
    if e: S = S * by[fund] ** e
try:
    print((1 * u).in_unit(S), (1 * S).in_unit(u))
except Exception as e:
    print('REPRODUCED: named unit does not convert to/from SI:', type(e).__name__); sys.exit(1)
sys.exit(0)
""")
    rep.functions.update(cc.FUNCTIONS + ["measured.conversions.equate (recorded)",
                                         "measured.conversions.translate (recorded)",
                                         "all shipped unit modules (declarations)"])
    rep.coverage["named_units_checked"] = len(names)
    rep.coverage["exhaustive"] = True
    rep.coverage["selftest_cases"] = selftest_cases
    rep.coverage["bounds"] = ("all recorded declarations of measured.systems (every equals()/"
                              "scale() call, including overwritten ones); every cycle of any "
                              "length is covered by the feasibility query; every named unit of "
                              "a non-Number dimension for connectivity")
    rep.coverage["explanation"] = (
        "QF_LRA potential-feasibility over all declarations decides every cycle of the "
        "definition graph at once (Farkas); unsat cores name the disagreeing chains. "
        "Connectivity: real in_unit on a symbolic magnitude to and from the coherent SI unit.")
    rep.assumptions += [
        "ln r enclosed to 1e-12 and the most permissive end used",
        "tolerance 1e-5 per unit of exponent degree of each declaration",
    ]
    return rep.finish()


def cvc5_crosscheck(orc: Any, res: Dict[str, Any]) -> str:
    import math

    import cvc5
    from cvc5 import Kind

    dropped = {c[-1].index for c in res["cores"]}
    tm = cvc5.TermManager() if hasattr(cvc5, "TermManager") else None
    slv = cvc5.Solver(tm) if tm is not None else cvc5.Solver()
    mkr = tm if tm is not None else slv
    slv.setLogic("QF_LRA")
    real_sort = mkr.getRealSort()
    xs: Dict[Any, Any] = {}

    def x(u: Any) -> Any:
        if u not in xs:
            xs[u] = mkr.mkConst(real_sort, f"x{len(xs)}")
        return xs[u]

    def num(v: float) -> Any:
        f = Fraction(v)
        return mkr.mkReal(f.numerator, f.denominator) if f.denominator < 2 ** 62 and \
            abs(f.numerator) < 2 ** 62 else mkr.mkReal(str(f))

    for coefs, val, d in orc.equations():
        if d.index in dropped or not coefs:
            continue
        terms = [mkr.mkTerm(Kind.MULT, mkr.mkReal(c), x(u)) for u, c in coefs.items()]
        lhs = terms[0] if len(terms) == 1 else mkr.mkTerm(Kind.ADD, *terms)
        lnv = math.log(val.numerator) - math.log(val.denominator)
        g = sum(abs(e) for e in d.a_unit.factors.values()) + \
            sum(abs(e) for e in d.b_unit.factors.values())
        tol = math.log1p(1e-5 * max(g, 1)) + 1e-12
        slv.assertFormula(mkr.mkTerm(Kind.GEQ, lhs, num(lnv - tol)))
        slv.assertFormula(mkr.mkTerm(Kind.LEQ, lhs, num(lnv + tol)))
    r = slv.checkSat()
    return "agree(sat)" if r.isSat() else ("disagree" if r.isUnsat() else "cvc5-unknown")
