"""C14 -- uncertainty propagates by first-order Gaussian rules (E1, level: proof).

Real code executed on proxies: Measurement.__add__/__radd__/__sub__/__rsub__/__mul__/
__rmul__/__truediv__/__rtruediv__/__pow__/_join_uncertainties/__init__, and through them
Quantity.__add__/__sub__/__mul__/__truediv__/__pow__/root/__abs__/in_unit,
conversions.convert.  Symbolic: measurands a, b (any sign, zero), uncertainties s, t >= 0.
Enumerated: operator, operand kinds, numeric kinds, n in [-4, 4], unit choices.
"""

from __future__ import annotations

import itertools
import os
from fractions import Fraction
from typing import Any, Dict, List, Tuple

import z3

from engine import families, par, report, symnum
from engine.symnum import Case, Prover, bool_term, is_sym, real, term

PID = "C14"
TOL = 1e-9  # relative, absorbs float rounding of concrete conversion constants

FUNCTIONS = [
    "measured.Measurement.__init__", "measured.Measurement.__add__",
    "measured.Measurement.__radd__", "measured.Measurement.__sub__",
    "measured.Measurement.__rsub__", "measured.Measurement.__mul__",
    "measured.Measurement.__rmul__", "measured.Measurement.__truediv__",
    "measured.Measurement.__rtruediv__", "measured.Measurement.__pow__",
    "measured.Measurement._join_uncertainties", "measured.Quantity.__add__",
    "measured.Quantity.__sub__", "measured.Quantity.__mul__", "measured.Quantity.__truediv__",
    "measured.Quantity.__pow__", "measured.Quantity.root", "measured.Quantity.__abs__",
    "measured.Quantity.in_unit", "measured.conversions.convert", "measured._add",
    "measured._sub", "measured._mul", "measured._div", "measured._pow",
]

UNIT_CHOICES = [
    ("measured.si.Meter", "measured.si.Meter"),
    ("measured.si.Meter", "measured.us.Foot"),
    ("(measured.si.Kilo * measured.si.Meter)", "measured.si.Meter"),
    ("measured.us.Inch", "(measured.si.Centi * measured.si.Meter)"),
    ("measured.si.Meter", "measured.si.Second"),  # only for * and /
    ("(measured.si.Meter / measured.si.Second)", "(measured.us.Mile / measured.si.Hour)"),
]


def _ns() -> Dict[str, Any]:
    import measured
    import measured.systems  # noqa

    return {"measured": measured}


def make_build(op: str, shape: str, u1c: str, u2c: str, n: int):
    """Returns build(vals) -> observables, using public API only."""
    ns = _ns()
    U1, U2 = eval(u1c, ns), eval(u2c, ns)
    import measured
    from measured import Measurement

    def operand(kind: str, mag: Any, unc: Any, unit: Any) -> Any:
        qn = mag * unit
        return Measurement(qn, unc) if kind == "M" else qn

    def build(v: Dict[str, Any]) -> Dict[str, Any]:
        # the plain-quantity operation first: where Python itself leaves it undefined
        # (x / 0, 0 ** -1, Decimal 0 ** 0) nothing is asked of the measurement
        try:
            if op == "pow":
                plain = (v["a"] * U1) ** n
            else:
                qa, qb = v["a"] * U1, v["b"] * U2
                plain = {"add": lambda: qa + qb, "sub": lambda: qa - qb,
                         "mul": lambda: qa * qb, "div": lambda: qa / qb}[op]()
        except symnum.HarnessError:
            raise
        except Exception as e:
            return {"plain_raises": type(e).__name__}
        pm = plain.magnitude
        if not is_sym(pm) and (pm != pm or pm in (float("inf"), float("-inf"))):
            return {"plain_raises": "NonFinite"}
        if op == "pow":
            x = Measurement(v["a"] * U1, v["s"])
            r = x ** n
        else:
            x = operand(shape[0], v["a"], v["s"], U1)
            y = operand(shape[1], v["b"], v["t"], U2)
            r = {"add": lambda: x + y, "sub": lambda: x - y, "mul": lambda: x * y,
                 "div": lambda: x / y}[op]()
        if not isinstance(r, Measurement):
            raise symnum.HarnessError(f"result is {type(r).__name__}, not a Measurement")
        return {
            "measurand": r.measurand.magnitude,
            "uncertainty": r.uncertainty.magnitude,
            "plain": plain.magnitude,
            "unit": r.measurand.unit,
            "plain_unit": plain.unit,
            "unc_unit_ok": r.uncertainty.unit is r.measurand.unit,
        }

    return build, U1, U2


def replay_body(op: str, shape: str, u1c: str, u2c: str, n: int, kinds: Dict[str, str],
                model: Dict[str, Fraction], expect: str) -> str:
    def lit(name: str) -> str:
        k, f = kinds[name], model[name]
        if k == "int":
            return repr(int(f))
        if k == "float":
            return repr(f.numerator / f.denominator)
        return f"Decimal({f.numerator}) / Decimal({f.denominator})"

    L = [families.REPLAY_IMPORTS, "from decimal import Decimal", "import math",
         "from measured import Measurement",
         f"U1, U2 = {u1c}, {u2c}"]
    if op == "pow":
        L += [f"a, s, n = {lit('a')}, {lit('s')}, {n}",
              "expr = lambda: Measurement(a * U1, s) ** n",
              "plain_expr = lambda: (a * U1) ** n",
              "sigma = abs(n * float(a) ** (n - 1) * float(s)) if n != 0 else 0.0",
              "defined = not (n < 0 and a == 0)"]
    else:
        L += [f"a, s, b, t = {lit('a')}, {lit('s')}, {lit('b')}, {lit('t')}"]
        mk = {"M": "Measurement({m} * {u}, {s})", "Q": "({m} * {u})"}
        x = mk[shape[0]].format(m="a", u="U1", s="s")
        y = mk[shape[1]].format(m="b", u="U2", s="t")
        pyop = {"add": "+", "sub": "-", "mul": "*", "div": "/"}[op]
        L += [f"expr = lambda: {x} {pyop} {y}",
              f"plain_expr = lambda: (a * U1) {pyop} (b * U2)",
              f"s_ = float(s) if {shape[0] == 'M'!r} else 0.0",
              f"t_ = float(t) if {shape[1] == 'M'!r} else 0.0",
              "rho = float((1 * U2).in_unit(U1).magnitude) if U1.dimension is U2.dimension else 1.0"]
        if op in ("add", "sub"):
            L += ["sigma = math.sqrt(s_ ** 2 + (rho * t_) ** 2)", "defined = True"]
        elif op == "mul":
            L += ["sigma = math.sqrt((float(b) * s_) ** 2 + (float(a) * t_) ** 2)",
                  "defined = True"]
        else:
            L += ["defined = b != 0",
                  "sigma = math.sqrt((s_ / float(b)) ** 2 + (float(a) * t_ / float(b) ** 2) ** 2) if defined else None"]
    L += [
        "try:",
        "    r = expr()",
        "except Exception as e:",
        "    if defined:",
        "        print('REPRODUCED: raised', type(e).__name__, e); sys.exit(1)",
        "    print('operation undefined, exception acceptable'); sys.exit(0)",
        # sigma is stated in the unit the plain operation returns; the measurement may come back in
        # another unit of the same quantity (a folded prefix, the other operand's unit)
        "plain = plain_expr()",
        "ru = r.measurand.unit",
        "k = 1.0 if ru is plain.unit else float((1 * ru).in_unit(plain.unit).magnitude)",
        "u = float(r.uncertainty.magnitude) * k",
        "print('result', r, ' uncertainty in', plain.unit, ':', u, ' first-order propagation', sigma)",
        "if u < 0 or abs(u - sigma) > 1e-6 * max(abs(sigma), 1e-300) + 1e-12:",
        "    print('REPRODUCED: uncertainty', u, 'expected', sigma); sys.exit(1)",
        "sys.exit(0)",
    ]
    return "\n".join(L) + "\n"


def worker(task: Tuple) -> Dict[str, Any]:
    op, shape, u1c, u2c, n, kinds = task
    families.boot()
    orc = families.orc()
    out: Dict[str, Any] = {"obs": [], "viol": [], "paths": 0, "queries": 0, "solver_s": 0.0,
                           "stubs": [], "sample": None, "selfchecked": 0}
    build, U1, U2 = make_build(op, shape, u1c, u2c, n)
    P = Prover(10000)
    with symnum.Shims():
        def assume(vs: Dict[str, z3.ArithRef]) -> List[z3.BoolRef]:
            a = [vs["s"] >= 0]
            if "t" in vs:
                a.append(vs["t"] >= 0)
            return a

        case = Case(build, kinds, assume, max_paths=64)
        ex = case.explore()
        a, s = real(case.vars["a"]), real(case.vars["s"])
        b = real(case.vars["b"]) if "b" in case.vars else None
        t = real(case.vars["t"]) if "t" in case.vars else None
        if shape[0] == "Q":
            s = z3.RealVal(0)
        if shape[1:2] == "Q":
            t = z3.RealVal(0)
        # oracle: sigma^2 in the result's unit, and the domain of the operation
        if op in ("add", "sub"):
            rr = orc.ratio(U2, U1)
            if rr is None:
                raise symnum.HarnessError(f"oracle cannot relate {U2} and {U1}")
            rho = symnum.q(rr[0])
            sigma2 = s * s + (rho * t) * (rho * t)
            defined = z3.BoolVal(True)
        elif op == "mul":
            sigma2 = (b * s) * (b * s) + (a * t) * (a * t)
            defined = z3.BoolVal(True)
        elif op == "div":
            sigma2 = (s / b) * (s / b) + (a * t / (b * b)) * (a * t / (b * b))
            defined = b != 0
        else:
            if n == 0:
                sigma2 = z3.RealVal(0)
            else:
                d = symnum._ipow(a, n - 1) if n >= 1 else 1 / symnum._ipow(a, 1 - n)
                sigma2 = (n * d * s) * (n * d * s)
            defined = z3.BoolVal(True) if n >= 0 else a != 0
        cfg = f"{op}/{shape}/{u1c}/{u2c}/n={n}/{','.join(kinds.values())}"
        for i, p in enumerate(ex.paths):
            key = (cfg, i)
            name = f"{cfg}#path{i}"
            if p.exc is not None:
                if isinstance(p.exc, TypeError) and ("decimal" in str(p.exc).lower()
                                                      or "Decimal" in str(p.exc)):
                    # float/Decimal mixtures Python itself rejects
                    out["obs"].append(("unsat", name + ":python-rejects-mix", None))
                    continue
                # exception must be confined to where the mathematical operation is undefined
                r, _ = P.check(p.cond, defined)
                if r == "unsat":
                    out["obs"].append(("unsat", name + ":exception-only-where-undefined", key))
                    case.selfcheck(p, P)
                    continue
                if r == "unknown":
                    out["obs"].append(("unknown", name + ":exception", key))
                    continue
                m = P.shaped_model([p.cond, defined], list(case.vars.values()))
                if m is None:
                    out["obs"].append(("unknown", name + ":exception(real-model-only)", key))
                    continue
                sig = f"C14:{op}:{shape}:{type(p.exc).__name__}"
                out["obs"].append(("sat", name, key))
                out["viol"].append((sig, f"{type(p.exc).__name__} escapes from {cfg} at "
                                    f"{ {k: str(v) for k, v in m.items()} }",
                                    replay_body(op, shape, u1c, u2c, n, kinds, m, "raise")))
                continue
            res = p.result
            case.selfcheck(p, P)
            if "plain_raises" in res:
                r, _ = P.check(p.cond, defined)
                out["obs"].append(("unsat" if r == "unsat" or res["plain_raises"] in
                                   ("InvalidOperation", "NonFinite") else "unknown",
                                   name + ":plain-operation-undefined", key))
                continue
            U, M, PL = real(term(res["uncertainty"])), real(term(res["measurand"])), \
                real(term(res["plain"]))
            # the result may legitimately be expressed in the other operand's unit
            # (Quantity + Measurement dispatches to Measurement.__radd__): compare physically
            kk = orc.ratio(res["unit"], res["plain_unit"])
            if kk is None or res["unc_unit_ok"] is not True:
                raise symnum.HarnessError(f"{cfg}: result unit {res['unit']} not comparable "
                                          f"with {res['plain_unit']}")
            k = symnum.q(kk[0])
            if res["unit"] is res["plain_unit"]:
                same = M == PL
            else:
                absz = lambda e: z3.If(e >= 0, e, -e)
                scale = absz(a) + (absz(rho * b) if op in ("add", "sub") else 0)
                same = absz(M * k - PL) <= TOL * scale
            Uk = U * k
            goals = {
                "measurand-equals-plain-op": same,
                "uncertainty-nonnegative": U >= 0,
                "uncertainty-first-order": z3.And(Uk * Uk - sigma2 <= TOL * sigma2,
                                                   sigma2 - Uk * Uk <= TOL * sigma2),
            }
            for gname, goal in goals.items():
                r, _ = P.prove(p.cond, goal)
                if r == "unsat":
                    out["obs"].append(("unsat", f"{name}:{gname}", key))
                    continue
                if r == "unknown":
                    out["obs"].append(("unknown", f"{name}:{gname}", key))
                    continue
                m = P.shaped_model([p.cond, z3.Not(goal)], list(case.vars.values()))
                if m is None:
                    out["obs"].append(("unknown", f"{name}:{gname}(real-model-only)", key))
                    continue
                nn = f"n={n}" if op == "pow" else shape
                sig = f"C14:{op}:{nn}:{gname}"
                out["obs"].append(("sat", f"{name}:{gname}", key))
                out["viol"].append((sig, f"{gname} fails for {cfg} at "
                                    f"{ {k: str(v) for k, v in m.items()} }",
                                    replay_body(op, shape, u1c, u2c, n, kinds, m, gname)))
        out["paths"] = len(ex.paths)
        out["queries"] = ex.queries + P.asked
        out["solver_s"] = ex.solver_s + P.solver_s
        out["stubs"] = sorted(ex.stubs)
        out["selfchecked"] = case.selfchecked
        out["sample"] = {"config": cfg, "paths": [
            {"outcome": p.outcome, "pc": [str(c) for c in p.pc][:6],
             "uncertainty": str(z3.simplify(term(p.result["uncertainty"])))[:200]
             if p.exc is None and "uncertainty" in p.result else None}
            for p in ex.paths[:3]]}
        if not ex.complete:
            raise symnum.HarnessError(f"{cfg}: path limit reached")
    return out


def tasks_for(tier: str) -> List[Tuple]:
    kind_sets = [("float", "float"), ("int", "float"), ("int", "int"), ("dec", "dec")]
    if tier == "thorough":
        kind_sets = [("float", "float"), ("int", "float"), ("int", "int"), ("dec", "dec"),
                     ("dec", "int"), ("float", "int")]
    tasks = []
    for op in ("add", "sub", "mul", "div"):
        for shape in ("MM", "MQ", "QM"):
            for (u1, u2) in UNIT_CHOICES:
                same_dim = "Second" not in u2 or "Second" in u1
                if op in ("add", "sub") and not same_dim:
                    continue
                if tier == "quick" and (u1, u2) in UNIT_CHOICES[3:4]:
                    continue
                for mk_, uk in kind_sets:
                    if tier == "quick" and shape != "MM" and (mk_, uk) != ("float", "float"):
                        continue
                    kinds = {"a": mk_, "s": uk, "b": mk_, "t": uk}
                    tasks.append((op, shape, u1, u2, 0, kinds))
    for n in range(-4, 5):
        for (u1, _) in UNIT_CHOICES[:3]:
            for mk_, uk in kind_sets:
                tasks.append(("pow", "M", u1, u1, n, {"a": mk_, "s": uk}))
    return tasks


def main(tier: str, selftest_cases: int = 0) -> int:
    rep = report.Report(PID, tier, "proof")
    tasks = tasks_for(tier)
    seed = rep.seed
    tasks = families.shuffled(tasks, seed)
    results = par.run("props.c14", "worker", tasks)
    for tk, r in zip(tasks, results):
        for status, name, key in r["obs"]:
            rep.ob(status, name, key)
        rep.merge_stats(queries=r["queries"], solver_s=r["solver_s"], paths=r["paths"],
                        stubs=r["stubs"])
        for sig, what, body in r["viol"]:
            rep.violation(sig, what, body)
        if r["sample"]:
            rep.sample(r["sample"], 6)
        rep.coverage["selfchecked_paths"] = rep.coverage.get("selfchecked_paths", 0) + \
            r["selfchecked"]
    rep.functions.update(FUNCTIONS)
    rep.coverage["configurations"] = len(tasks)
    rep.coverage["exhaustive"] = True
    rep.coverage["selftest_cases"] = selftest_cases
    rep.coverage["bounds"] = ("symbolic: measurands a,b in R (or Z), uncertainties s,t >= 0, "
                              "unbounded; enumerated: operators + - * / ** with n in [-4,4], "
                              "operand kinds MM/MQ/QM, numeric kinds, unit choices "
                              f"{UNIT_CHOICES}")
    rep.coverage["explanation"] = (
        "Every configuration's real Measurement operator is executed on solver-backed "
        "numbers; per path z3 (NRA) proves measurand == plain operation, uncertainty >= 0 "
        "and uncertainty^2 == sum((df/dx_i sigma_i)^2) for all reals, and that exceptions "
        "occur only where the operation is mathematically undefined.")
    rep.assumptions += [
        "exact real arithmetic over the binary constants present in the code; IEEE rounding "
        "and Decimal context rounding are outside the claim (tolerance 1e-9 relative absorbs "
        "rounding of concrete conversion constants)",
        "math.sqrt stub: y >= 0 and y*y == x; x ** (1/2): same",
        "unit sizes for the +/- oracle come from engine/oracle.py (declarations, exact Fractions)",
    ]
    return rep.finish()
