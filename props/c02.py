"""C02 -- canonical objects, abelian group laws up to identity (E2; key laws at proof level).

Identity of interned objects = equality of intern keys (obligation C of C01, re-run here for all
three classes).  Each law is proved as equality of the *key terms* produced by the real operators
on shadow operands with unbounded symbolic exponents; both sides of a law are evaluated in the
same symbolic run so that they share one path condition.
"""

from __future__ import annotations

import itertools
import math
from fractions import Fraction
from typing import Any, Callable, Dict, List, Optional, Tuple

import z3

from engine import families, internmodel as im, par, report, symnum, work
from engine.symnum import SInt, explore, term

PID = "C02"
N = 0

BASE_SETS = [["meter", "foot", "second"], ["pound-force", "meter", "kilogram"],
             ["acre", "inch", "coulomb"], ["jansky", "second", "bit"]]

# law name -> (expression of lhs, expression of rhs) over x, y, z (operands), a, b, n (ints), One
UNIT_LAWS: Dict[str, Tuple[str, str, str]] = {
    "commutative": ("x * y", "y * x", ""),
    "associative": ("(x * y) * z", "x * (y * z)", ""),
    "one-neutral-right": ("x * One", "x", ""),
    "one-neutral-left": ("One * x", "x", ""),
    "inverse": ("x * x**-1", "One", ""),
    "division": ("x / y", "x * y**-1", ""),
    "power-sum": ("x**a * x**b", "x**(a + b)", ""),
    "power-product": ("(x**a)**b", "x**(a * b)", ""),
    "root-of-power": ("(x**n).root(n)", "x", "n != 0"),
    "mixed-1": ("((x * y)**a / z).root(1)", "x**a * y**a * z**-1", ""),
    "mixed-2": ("(x / y)**a * (y / x)**a", "One", ""),
    "mixed-3": ("((x**n) * (y**n)).root(n) / y", "x", "n != 0"),
    "mixed-4": ("(x * y / z)**-1", "z / (x * y)", ""),
    "div-self": ("x / x", "One", ""),
    "one-over": ("One / x", "x**-1", ""), "over-one": ("x / One", "x", ""),
    "zeroth-power": ("x**0", "One", ""), "first-power": ("x**1", "x", ""),
    "double-inverse": ("(x**-1)**-1", "x", ""),
    "root-of-dimensionless-quotient": ("(((x * y) / y)**n).root(n)", "x", "n != 0"),
    "root-of-power-of-quotient-by-self": ("((x / x)**n).root(n)", "One", "n != 0"),
    # a prefix applied from either side of a (possibly already prefixed) unit
    "prefix-either-side": ("x * q", "q * x", ""),
    "prefix-after-prefix": ("(q * x) * r", "(q * r) * x", ""),
    "prefix-right-associates": ("(x * q) * r", "x * (q * r)", ""),
    "prefix-undone": ("(x * q) * q**-1", "x", ""),
    "identity-prefix-right": ("x * I", "x", ""),
    # a bare number that still carries a prefix (what km / m is measured in) on either side of / and *
    "prefix-only-divides": ("(q * One) / y", "q * y**-1", ""),
    "prefix-divided-by-only": ("x / (q * One)", "q**-1 * x", ""),
    "prefix-only-left-over": ("((q * x) / x) / y", "(q * x) / (x * y)", ""),
    "prefix-only-times": ("(q * One) * y", "q * y", ""),
    # k: a REGISTERED base unit as it is (real object, real dimension, its own name and symbol): code
    # that looks at what a unit is called (kilogram = kilo + gram) meets the real registries here
    "prefix-on-registered-unit-divides": ("(q * k) / k", "q * (k / k)", ""),
    "prefix-on-registered-unit-times": ("(q * k) * y", "q * (k * y)", ""),
    "prefix-stacks-on-registered-unit": ("r * (q * k)", "(r * q) * k", ""),
    "prefix-on-registered-unit-undone": ("q**-1 * (q * k)", "k", ""),
}
DIM_LAWS = {k: v for k, v in UNIT_LAWS.items() if "prefix" not in k}
PREFIX_LAWS = {
    "commutative": ("p * q", "q * p", ""), "associative": ("(p * q) * r", "p * (q * r)", ""),
    "identity-right": ("p * I", "p", ""), "identity-left": ("I * p", "p", ""),
    "inverse": ("p / p", "I", ""), "division": ("p / q", "p * q**-1", ""),
    "power-sum": ("p**a * p**b", "p**(a + b)", ""), "power-product": ("(p**a)**b", "p**(a * b)", ""),
    "root-of-power": ("(p**n).root(n)", "p", "n != 0"),
    "mixed": ("((p * q)**a / r).root(1)", "p**a * q**a * r**-1", ""),
    "identity-over": ("I / p", "p**-1", ""), "over-identity": ("p / I", "p", ""),
    "identity-power": ("I**a", "I", ""), "identity-root": ("I.root(n)", "I", "n != 0"),
}


def key_equal(l: Any, r: Any) -> Tuple[bool, z3.BoolRef, str]:
    """(structurally comparable, z3 condition for equal intern keys, description)."""
    import measured

    if isinstance(l, measured.Dimension):
        return True, z3.And(*[term(a) == term(b) for a, b in zip(l.exponents, r.exponents)]), "exponents"
    if isinstance(l, measured.Prefix):
        if l.base == 0 or r.base == 0:
            # the identity prefix: the other side must be it too (or have exponent zero -> it is)
            other = r if l.base == 0 else l
            if other.base == 0:
                return True, z3.BoolVal(True), "identity"
            return False, z3.BoolVal(False), "identity vs non-identity prefix object"
        return l.base == r.base, term(l.exponent) == term(r.exponent), "prefix"
    # units
    ok, pc, why = key_equal(l.prefix, r.prefix)
    if not ok:
        return False, z3.BoolVal(False), why
    lf, rf = dict(l.factors), dict(r.factors)
    if set(map(id, lf)) != set(map(id, rf)):
        return False, z3.BoolVal(False), "different factor key sets"
    conds = [pc]
    for f, e in lf.items():
        conds.append(term(e) == term(rf[f]))
    dk = key_equal(l.dimension, r.dimension)
    return True, z3.And(*conds, dk[1]), "unit"


def run_law(kind: str, law: Tuple[str, str, str], bases: List[str], pbases: Tuple[int, int, int]):
    import measured
    from measured import Dimension, One, Prefix, Unit

    def fn() -> Any:
        a, b, n = SInt(z3.Int("a")), SInt(z3.Int("b")), SInt(z3.Int("n"))
        env: Dict[str, Any] = {"a": a, "b": b, "n": n}
        if kind == "unit":
            bs = [measured.Unit._by_name[nm] for nm in bases]

            def opnd(tag: str, idx: List[int], pb: int) -> Any:
                fs = {bs[i]: SInt(z3.Int(f"{tag}_e{i}")) for i in idx}
                dim = im.shadow_dimension([SInt(z3.simplify(t)) for t in im.dim_of_factors(fs, N)])
                pre = im.shadow_prefix(pb, SInt(z3.Int(f"{tag}_p"))) if pb else measured.IdentityPrefix
                return im.shadow_unit(pre, fs, dim)

            env.update(x=opnd("x", [0, 1], pbases[0]), y=opnd("y", [1, 2], pbases[1]),
                       z=opnd("z", [0, 2], pbases[2]), One=One, I=measured.IdentityPrefix, k=bs[2])
            if "q" in law[0] + law[1]:
                qb = pbases[0] or 10
                env.update(q=im.shadow_prefix(qb, SInt(z3.Int("q_e"))), r=im.shadow_prefix(qb, SInt(z3.Int("r_e"))))
        elif kind == "dimension":
            # the doubly nonlinear law ((x**n)*(y**n)).root(n)/y over 9 positions takes z3
            # minutes; it is asked over 2 symbolic positions (the code treats positions
            # uniformly through zip), every other law over all 9
            npos = 3 if law[0].count("**n") > 1 else N
            for tag in "xyz":
                env[tag] = im.shadow_dimension([0] + [SInt(z3.Int(f"{tag}_g{j}")) if j < npos else 0
                                                      for j in range(1, N)])
            env["One"] = measured.Number
        else:
            env.update(p=im.shadow_prefix(pbases[0], SInt(z3.Int("p_e"))),
                       q=im.shadow_prefix(pbases[1], SInt(z3.Int("q_e"))),
                       r=im.shadow_prefix(pbases[2], SInt(z3.Int("r_e"))), I=measured.IdentityPrefix)
        lhs = eval(law[0], {}, env)
        rhs = eval(law[1], {}, env)
        return lhs, rhs

    pre = []
    if law[2]:
        pre = [eval(law[2], {}, {"n": z3.Int("n")})]
    # representation invariant of valid operands: a registered prefix of non-zero base has a
    # non-zero exponent (otherwise it IS the identity prefix) and a unit's factor map holds no
    # zero exponents (Unit._simplify)
    if kind == "unit":
        for tag, idx, pb in (("x", [0, 1], pbases[0]), ("y", [1, 2], pbases[1]), ("z", [0, 2], pbases[2])):
            pre += [z3.Int(f"{tag}_e{i}") != 0 for i in idx]
            if pb:
                pre.append(z3.Int(f"{tag}_p") != 0)
        pre += [z3.Int("q_e") != 0, z3.Int("r_e") != 0]
    elif kind == "prefix":
        pre += [z3.Int(f"{t}_e") != 0 for t in "pqr"]
    with symnum.Shims(), im.Tables("absent"):
        ex = explore(fn, assumptions=pre, max_paths=3000, query_timeout_ms=20000)
    return ex


def replay(kind: str, lawname: str, law: Tuple[str, str, str], bases: List[str],
           pbases: Tuple[int, int, int], m: Dict[str, int]) -> str:
    g = lambda k, d=0: m.get(k, d)
    if kind == "unit":
        def opnd(tag: str, idx: List[int], pb: int) -> str:
            e = " * ".join(f"measured.Unit.named({bases[i]!r})**{g(f'{tag}_e{i}')}" for i in idx)
            return f"(measured.Prefix({pb}, {g(tag + '_p')}) * ({e}))" if pb else f"({e})"
        defs = (f"x = {opnd('x', [0, 1], pbases[0])}\ny = {opnd('y', [1, 2], pbases[1])}\n"
                f"z = {opnd('z', [0, 2], pbases[2])}\nOne = measured.One\nI = measured.IdentityPrefix\nk = measured.Unit.named({bases[2]!r})\n"
                f"q = measured.Prefix({pbases[0] or 10}, {g('q_e', 1)})\nr = measured.Prefix({pbases[0] or 10}, {g('r_e', 1)})\n")
    elif kind == "dimension":
        defs = "".join(f"{t} = measured.Dimension({tuple([0] + [g(f'{t}_g{j}') for j in range(1, N)])!r})\n"
                       for t in "xyz") + "One = measured.Number\n"
    else:
        defs = (f"p = measured.Prefix({pbases[0]}, {g('p_e')})\nq = measured.Prefix({pbases[1]}, {g('q_e')})\n"
                f"r = measured.Prefix({pbases[2]}, {g('r_e')})\nI = measured.IdentityPrefix\n")
    return families.REPLAY_IMPORTS + defs + f"""a, b, n = {g('a')}, {g('b')}, {g('n', 1)}
try:
    lhs = {law[0]}
    rhs = {law[1]}
except measured.FractionalDimensionError as e:
    print('rejected as fractional', e); sys.exit(0)
print({lawname!r}, ':', repr(lhs), 'vs', repr(rhs), '-> identical:', lhs is rhs)
if lhs is not rhs:
    print('REPRODUCED: the two expressions denote the same element but are different objects'); sys.exit(1)
sys.exit(0)
"""


def small_model(cond: Any, neg: Any, extra: List[Any] = ()) -> Optional[Dict[str, int]]:
    vs = {str(v): v for e in (cond, neg) for v in z3_vars(e) if v.sort() == z3.IntSort()}
    ints = list(vs.values())
    for bound in (3, 6, 20, 1000):
        s = z3.Solver()
        s.set("timeout", 10000)
        s.add(cond, neg, *extra, *[z3.And(v >= -bound, v <= bound) for v in ints])
        if str(s.check()) == "sat":
            mm = s.model()
            return {str(v): mm.eval(v, model_completion=True).as_long() for v in ints}
    return None


def z3_vars(e: Any) -> List[Any]:
    out, seen, stack = [], set(), [e]
    while stack:
        t = stack.pop()
        if t.get_id() in seen:
            continue
        seen.add(t.get_id())
        if z3.is_const(t) and t.decl().kind() == z3.Z3_OP_UNINTERPRETED:
            out.append(t)
        stack.extend(t.children())
    return out


def worker(task: Tuple) -> Dict[str, Any]:
    global N
    families.boot()
    N = im.ndim()
    acc = work.Acc(30000)
    if task[0] == "mixed-base":
        mixed_base(acc, task[1], task[2])
        return acc.finish()
    kind, lawname, bases, pbases, bounded = task
    law = {"unit": UNIT_LAWS, "dimension": DIM_LAWS, "prefix": PREFIX_LAWS}[kind][lawname]
    ex = run_law(kind, law, bases, pbases)
    acc.explored(ex)
    cfg = f"{kind}/{lawname}/{','.join(bases)}/prefix-bases={pbases}"
    extra = []
    if bounded:
        extra = [z3.And(z3.Int(v) >= -6, z3.Int(v) <= 6) for v in ("a", "b", "n")]
    for i, p in enumerate(ex.paths):
        key = (cfg, i)
        name = f"{cfg}#p{i}"
        if p.exc is not None:
            if type(p.exc).__name__ == "FractionalDimensionError":
                # a root that the library rejects although the law says it exists?
                r, _ = acc.P.check(p.cond, *extra)
                if lawname in ("root-of-power", "mixed-3", "mixed-1", "mixed") and r == "sat":
                    sm = small_model(p.cond, z3.BoolVal(True), extra)
                    acc.ob("sat", name + ":root-rejected", key)
                    acc.out["viol"].append((f"C02:{kind}:{lawname}:rejects", f"{cfg}: the root is "
                                            f"rejected as fractional at {sm}",
                                            replay(kind, lawname, law, bases, pbases, sm or {}).replace(
                                                "print('rejected as fractional', e); sys.exit(0)",
                                                "print('REPRODUCED: rejected as fractional', e); sys.exit(1)")))
                else:
                    acc.ob("unsat", name + ":infeasible-or-legit-rejection", key)
                continue
            raise symnum.HarnessError(f"{cfg}: unexpected {p.outcome}: {p.exc}")
        lhs, rhs = p.result
        comparable, cond, why = key_equal(lhs, rhs)
        goal = cond if comparable else z3.BoolVal(False)
        st, _ = acc.P.check(p.cond, *extra, z3.Not(goal))
        if st == "unsat":
            acc.ob("unsat", name + (":bounded[-6,6]" if bounded else ""), key)
            continue
        if st == "unknown":
            acc.ob("unknown", name, key)
            continue
        sm = small_model(p.cond, z3.Not(goal), extra)
        if sm is None:
            acc.ob("unknown", name + "(no small model)", key)
            continue
        acc.ob("sat", name, key)
        # equal intern keys with different dimensions: on the real table the first registration is what
        # both sides return (the law holds by identity; a wrong stored dimension is C01's subject), so
        # this shows only where neither side was registered before: a candidate
        dim_only = False
        if kind == "unit" and comparable:
            import measured

            if isinstance(lhs, measured.Unit):
                st2, _ = acc.P.check(p.cond, *extra, z3.Not(goal),
                                     z3.Not(key_equal(lhs.dimension, rhs.dimension)[1]))
                st3, _ = acc.P.check(p.cond, *extra, z3.Not(goal), key_equal(lhs.dimension, rhs.dimension)[1])
                dim_only = st2 == "sat" and st3 == "unsat"
        acc.out["viol"].append((f"C02:{kind}:{lawname}", f"{cfg}: keys differ ({why}) at {sm}",
                                replay(kind, lawname, law, bases, pbases, sm)) + (("soft",) if dim_only else ()))
    acc.sample({"config": cfg, "paths": len(ex.paths), "law": f"{law[0]}  is  {law[1]}"})
    return acc.finish()


def mixed_base(acc: work.Acc, b1: int, b2: int) -> None:
    """Prefixes of different bases: the laws hold for the numeric scale within 1e-9 (log space)."""
    import measured

    L1, L2 = Fraction(math.log(b1)), Fraction(math.log(b2))
    laws = {
        "commutative": ("p * q", "q * p"), "division": ("p / q", "p * q**-1"),
        "inverse-mixed": ("(p * q) / q", "p"), "associative": ("(p * q) * p2", "p * (q * p2)"),
        "power": ("(p * q)**a", "p**a * q**a"),
    }
    absz = lambda e: z3.If(e >= 0, e, -e)
    for lname, (le, re_) in laws.items():
        def fn() -> Any:
            env = {"p": im.shadow_prefix(b1, SInt(z3.Int("p_e"))), "q": im.shadow_prefix(b2, SInt(z3.Int("q_e"))),
                   "p2": im.shadow_prefix(b1, SInt(z3.Int("r_e"))), "a": SInt(z3.Int("a"))}
            return eval(le, {}, env), eval(re_, {}, env)

        bounds = [z3.And(z3.Int(v) >= -40, z3.Int(v) <= 40, z3.Int(v) != 0)
                  for v in ("p_e", "q_e", "r_e")] + [z3.And(z3.Int("a") >= -4, z3.Int("a") <= 4)]
        with symnum.Shims(), im.Tables("absent"):
            ex = explore(fn, assumptions=bounds, max_paths=400, query_timeout_ms=20000)
        acc.explored(ex)
        cfg = f"prefix-mixed-base/{lname}/{b1},{b2}"
        for i, p in enumerate(ex.paths):
            key = (cfg, i)
            if p.exc is not None:
                raise symnum.HarnessError(f"{cfg}: {p.outcome}: {p.exc}")
            lhs, rhs = p.result

            def logval(pf: Any) -> Any:
                if pf.base == 0:
                    return z3.RealVal(0)
                return symnum.real(term(pf.exponent)) * symnum.q(L1 if pf.base == b1 else L2)

            lv, rv = logval(lhs), logval(rhs)
            scale = absz(z3.ToReal(z3.Int("p_e")) * symnum.q(L1)) + absz(z3.ToReal(z3.Int("q_e")) * symnum.q(L2)) + \
                absz(z3.ToReal(z3.Int("r_e")) * symnum.q(L1)) + 1
            goal = absz(lv - rv) <= symnum.q(Fraction(1, 10 ** 9)) * scale
            st, _ = acc.P.check(p.cond, z3.Not(goal))
            acc.ob("unsat" if st == "unsat" else ("unknown" if st == "unknown" else "sat"),
                   f"{cfg}#p{i}:scale-within-1e-9(log space)", key)
            if st == "sat":
                sm = small_model(p.cond, z3.Not(goal)) or {}
                g = lambda k: sm.get(k, 1)
                acc.out["viol"].append((f"C02:prefix-mixed:{lname}", f"{cfg}: scales differ at {sm}",
                                        families.REPLAY_IMPORTS + f"""
p, q, p2, a = measured.Prefix({b1}, {g('p_e')}), measured.Prefix({b2}, {g('q_e')}), measured.Prefix({b1}, {g('r_e')}), {g('a')}
l, r = {le}, {re_}
lv, rv = l.quantify(), r.quantify()
print(l, r, lv, rv)
if abs(lv - rv) > 1e-9 * max(abs(lv), abs(rv)):
    print('REPRODUCED: numeric scales differ'); sys.exit(1)
sys.exit(0)
"""))
        acc.sample({"config": cfg, "paths": len(ex.paths)})


def constructor_model(rep: report.Report) -> None:
    from props import c01

    c01.N = im.ndim()
    c01.constructor_model_check(rep)


DEFINE_REPLAY = """
from measured import Dimension, Length, Time, Number
a, b = {a}, {b}
D = Length**a * Time**b                      # a derived dimension known before the definition
if D.name is not None:                       # the model's derived dimension is anonymous: take one nobody named
    a, b = a + 11, b - 13
    D = Length**a * Time**b
n = len(Length.exponents)
New = Dimension.define(name='c02 fresh dimension', symbol='c02fd')
print('exponents before/after:', n, len(Length.exponents), len(D.exponents), len(New.exponents))
bad = []
if not (Length**a * Time**b is D): bad.append('Length**a * Time**b is no longer the object it was')
if not (Dimension(D.exponents) is D): bad.append('the table no longer maps D.exponents to D')
if not (D * Number is D and D / D is Number): bad.append('neutral / inverse law')
if len(D.exponents) != n + 1 or len(New.exponents) != n + 1: bad.append('exponent vectors of unequal length')
if not ((New * D) / D is New and (New**2).root(2) is New): bad.append('laws over the fresh dimension')
if bad:
    print('REPRODUCED:', bad); sys.exit(1)
sys.exit(0)
"""


def define_step(rep: report.Report) -> None:
    """One step of the real Dimension.define from an arbitrary table: n fundamental dimensions
    (unit vectors), Number, and two derived dimensions with symbolic exponent vectors.  After
    the step every earlier object is still the one its (resized) exponents are mapped to, and
    the real operators still land on it."""
    import measured
    from measured import Dimension

    P = symnum.Prover(20000)
    a, b, c, d, p_, q_ = (z3.Int(x) for x in ("da", "db", "dc", "dd", "dp", "dq"))
    n = 3

    def fn() -> Any:
        # representation invariant of the table (what define itself establishes): with n
        # fundamental dimensions every exponent vector has n + 1 entries, the last one zero
        number = im.shadow_dimension([0, 0, 0, 0])
        f1 = im.shadow_dimension([0, 1, 0, 0])
        f2 = im.shadow_dimension([0, 0, 1, 0])
        D = im.shadow_dimension([0, SInt(a), SInt(b), 0])
        E = im.shadow_dimension([0, SInt(c), SInt(d), 0])
        pre = [number, f1, f2, D, E]
        table = im.AssocTable([(x.exponents, x) for x in pre])
        saved = {k: Dimension.__dict__[k] for k in ("_known", "_fundamental", "_by_name")}
        Dimension._known, Dimension._fundamental, Dimension._by_name = table, [number, f1, f2], {}
        try:
            old = [x.exponents for x in pre]
            new = Dimension.define("c02-new", "c02n")
            entries = len(table)
            prod = Dimension._multiply.__wrapped__(f1 ** SInt(p_), f2 ** SInt(q_))
            return {"pre": pre, "old": old, "new": new, "prod": prod, "D": D,
                    "lookups": [table.get(x.exponents) for x in pre],
                    "fundamental": list(Dimension._fundamental), "entries": entries}
        finally:
            for k, v in saved.items():
                setattr(Dimension, k, v)

    distinct = [z3.Or(a != c, b != d)] + [z3.Or(x != u, y != v) for x, y in ((a, b), (c, d))
                                           for u, v in ((0, 0), (1, 0), (0, 1))]
    with symnum.Shims():
        ex = explore(fn, assumptions=distinct + [p_ == a, q_ == b], max_paths=400)
    rep.merge_stats(queries=ex.queries, solver_s=ex.solver_s, paths=len(ex.paths))
    rep.coverage["define_step_paths"] = len(ex.paths)
    T = symnum.term
    for i, p in enumerate(ex.paths):
        key = ("define", i)
        if p.exc is not None:
            rep.ob("sat", f"define-step#p{i}: raises {p.outcome}", key)
            rep.violation("C02:define:raises", f"Dimension.define raises {p.outcome} from a valid table",
                          families.REPLAY_IMPORTS + DEFINE_REPLAY.format(a=2, b=-1))
            continue
        r = p.result
        goals = {
            "resized": z3.And(*[z3.BoolVal(len(x.exponents) == n + 2) for x in r["pre"]],
                              *[z3.And(*[T(u) == T(v) for u, v in zip(x.exponents, o + (0,))])
                                for x, o in zip(r["pre"], r["old"]) if len(x.exponents) == n + 2]),
            "still-mapped": z3.BoolVal(all(l is x for l, x in zip(r["lookups"], r["pre"]))),
            "fresh-is-unit-vector": z3.BoolVal(
                len(r["new"].exponents) == n + 2 and len(r["fundamental"]) == n + 1 and
                r["fundamental"][-1] is r["new"] and r["entries"] == len(r["pre"]) + 1) if True else None,
            "operators-land-on-the-same-object": z3.BoolVal(r["prod"] is r["D"]),
        }
        if len(r["new"].exponents) == n + 2:
            goals["fresh-is-unit-vector"] = z3.And(goals["fresh-is-unit-vector"],
                                                   *[T(e) == (1 if j == n else 0)
                                                     for j, e in enumerate(r["new"].exponents)])
        for g, goal in goals.items():
            st, mdl = P.prove(p.cond, goal)
            rep.ob("unsat" if st == "unsat" else ("unknown" if st == "unknown" else "sat"),
                   f"define-step#p{i}:{g}", key + (g,))
            if st == "sat":
                sm = small_model(p.cond, z3.Not(goal)) or {}
                av, bv = sm.get("da", 2), sm.get("db", -1)
                rep.violation(f"C02:define:{g}", f"after Dimension.define, {g} fails for the derived dimension "
                              f"F1**{av} * F2**{bv}", families.REPLAY_IMPORTS + DEFINE_REPLAY.format(a=av, b=bv))
    rep.functions.add("measured.Dimension.define")


def tasks_for(tier: str) -> List[Tuple]:
    tasks: List[Tuple] = []
    sets = BASE_SETS if tier == "thorough" else BASE_SETS[:2]
    pcombos = [(10, 10, 10), (0, 10, 0), (2, 2, 0)] if tier == "thorough" else [(10, 10, 0), (0, 0, 0)]
    for bases in sets:
        for pb in pcombos:
            for lname in UNIT_LAWS:
                nonlinear = lname in ("power-product",)
                tasks.append(("unit", lname, bases, pb, False))
                if nonlinear:
                    tasks.append(("unit", lname, bases, pb, True))
    for lname in DIM_LAWS:
        tasks.append(("dimension", lname, [], (0, 0, 0), False))
        if lname == "power-product":
            tasks.append(("dimension", lname, [], (0, 0, 0), True))
    for base in (10, 2):
        for lname in PREFIX_LAWS:
            tasks.append(("prefix", lname, [], (base, base, base), False))
            if lname == "power-product":
                tasks.append(("prefix", lname, [], (base, base, base), True))
    tasks.append(("mixed-base", 10, 2))
    tasks.append(("mixed-base", 2, 10))
    return tasks


def main(tier: str, selftest_cases: int = 0) -> int:
    global N
    rep = report.Report(PID, tier, "proof")
    families.boot()
    N = im.ndim()
    constructor_model(rep)
    define_step(rep)
    tasks = families.shuffled(tasks_for(tier), rep.seed)
    results = par.run("props.c02", "worker", tasks)
    work.merge(rep, results)
    rep.functions.update(["measured.Unit._multiply", "measured.Unit._divide", "measured.Unit.__pow__",
                          "measured.Unit.root", "measured.Unit._simplify", "measured.Unit.__new__",
                          "measured.Unit._build_key", "measured.Prefix.__mul__", "measured.Prefix.__truediv__",
                          "measured.Prefix.__pow__", "measured.Prefix.root", "measured.Prefix.__new__",
                          "measured.Dimension._multiply", "measured.Dimension._divide",
                          "measured.Dimension.__pow__", "measured.Dimension.root", "measured.Dimension.__new__"])
    rep.coverage["configurations"] = len(tasks)
    rep.coverage["exhaustive"] = True
    rep.coverage["selftest_cases"] = selftest_cases
    rep.coverage["bounds"] = (
        "symbolic (unbounded ints): every exponent, power and degree; the nonlinear law "
        "(x**a)**b is additionally asked with a,b in [-6,6]. Enumerated: 14 law/tree shapes up to "
        "depth 3 over <= 3 registered base units per set (incl. base units of derived dimension), "
        "prefix-base combinations {0,2,10}; dimensions with all 9 positions symbolic; same-base "
        "prefixes base 10 and 2; different-base prefixes with exponents in [-40,40] in log space.")
    rep.coverage["explanation"] = (
        "Identity of interned objects is equality of intern keys (real __new__/__init__ checked "
        "against the table model). Both sides of each law are evaluated by the real operators in "
        "one symbolic run; z3 proves the key terms equal on every path.")
    rep.assumptions += ["ln 2, ln 10 taken as the doubles math.log returns (mixed-base laws, 1e-9)",
                        "trees deeper than 3 not covered"]
    return rep.finish()
