"""C19 -- declared names/symbols bind faithfully; failed definitions change nothing.

(1) Failure atomicity (E2): the real Unit.define / alias / derive, Dimension.unit / scale / derive,
    Prefix construction run against registry models whose membership answers are symbolic
    Booleans (present? bound to this object or to another one?); the solver enumerates every
    registry pre-state.  If the call raises, no registry and no attribute may have been written;
    if it returns, every declared name and symbol maps to the object and nothing bound to another
    object was overwritten.
(2) Anonymous-then-named: per class, the life-cycle automaton {absent, anonymous, named} whose
    transitions are *computed by running the real constructors*; z3 searches operation orders of
    length <= 4 that end with a name declared but not bound (bounded model checking).
(3) Shipped declarations: every (name, symbol) literal in the shipped modules (AST) must resolve to
    the object that reports it, under several import orders; finite audit of the real registries.
"""

from __future__ import annotations

import ast
import itertools
import json
import os
import subprocess
import sys
from typing import Any, Dict, List, Optional, Tuple

from fractions import Fraction

import z3

from engine import families, internmodel as im, par, report, symnum, work
from engine.symnum import ctx, explore

PID = "C19"
SRC = os.environ.get("VERIF_REPO", "/repo") + "/src/measured"
OTHER = object()


class Registry:
    """Symbolic-membership model of a name/symbol registry for one object under definition."""

    def __init__(self, name: str, subject: List[Any]) -> None:
        self.name, self.subject = name, subject
        self.writes: List[Tuple[Any, Any]] = []
        self.state: Dict[Any, str] = {}   # key -> 'absent' | 'self' | 'other'

    def _state(self, key: Any) -> str:
        for k, v in self.writes:
            if k == key:
                return "self" if v is self.subject[0] else "other"
        if key not in self.state:
            c = ctx()
            if isinstance(key, str) and " " in key and "symbol" in self.name:
                # registry invariant: alias never registers a symbol containing a space
                self.state[key] = "absent"
            elif c.decide(z3.Bool(f"{self.name}[{key!r}] present")):
                # before the subject exists nothing can be bound to it
                self.state[key] = "other" if self.subject[0] is None else (
                    "self" if c.decide(z3.Bool(f"{self.name}[{key!r}] is subject")) else "other")
            else:
                self.state[key] = "absent"
        return self.state[key]

    def pre_state(self, key: Any) -> str:
        """The state the key had before the call, decided now if the code never asked: a
        definition that does not even look must still be right for every pre-state."""
        if key not in self.state:
            # (bound to the subject itself is not a pre-state to add here: the subject would
            # report such a label -- a representation invariant -- and the shadow subject does not)
            saved, self.writes = self.writes, []
            subj, self.subject[0] = self.subject[0], None
            try:
                self._state(key)
            finally:
                self.writes = saved
                self.subject[0] = subj
        return self.state[key]

    def __contains__(self, key: Any) -> bool:
        return self._state(key) != "absent"

    def __getitem__(self, key: Any) -> Any:
        for k, v in reversed(self.writes):
            if k == key:
                return v
        st = self._state(key)
        if st == "absent":
            raise KeyError(key)
        if st == "self":
            if self.subject[0] is None:
                # "present and bound to the subject" is impossible before the subject exists
                raise symnum.HarnessError("infeasible registry pre-state")
            return self.subject[0]
        return OTHER

    def get(self, key: Any, default: Any = None) -> Any:
        return self[key] if key in self else default

    def __setitem__(self, key: Any, value: Any) -> None:
        self.writes.append((key, value))

    def add(self, value: Any) -> None:
        self.writes.append(("<add>", value))


CASES = [
    # (label, callable source using U (an existing unit), name, symbol)
    ("Unit.alias", "U.alias(name={n!r}, symbol={s!r})"),
    ("Unit.derive", "measured.Unit.derive(U, {n!r}, {s!r})"),
    ("Unit.define", "measured.Unit.define(measured.Length, {n!r}, {s!r})"),
    ("Dimension.unit", "measured.Length.unit({n!r}, {s!r})"),
    ("Dimension.scale", "measured.Temperature.scale(5 * K, {n!r}, {s!r})"),
]
ARGS = [("nm", "sy"), ("nm", "s y"), ("nm", None), (None, "sy"), (None, "s y")]


def atomicity_worker(task: Tuple) -> Dict[str, Any]:
    families.boot()
    import measured
    from measured import Unit, conversions

    acc = work.Acc()
    label, template, n, s = task[1:]
    if label in ("Unit.define", "Dimension.unit", "Dimension.scale") and (n is None or s is None):
        return acc.finish()
    subject: List[Any] = [None]
    regs: Dict[str, Registry] = {}

    def fn() -> Any:
        existing = label in ("Unit.alias", "Unit.derive")
        U = im.shadow_unit(measured.IdentityPrefix, {}, measured.Length) if existing else None
        if U is not None:
            U.factors = {U: 1}
            U.names, U.symbols = ("old",), ("ol",)
        subject[0] = U
        saved = {k: Unit.__dict__[k] for k in ("_by_name", "_by_symbol", "_known", "_base")}
        saved_r = (conversions._ratios, conversions._offsets)
        regs.clear()
        regs.update(by_name=Registry("Unit._by_name", subject), by_symbol=Registry("Unit._by_symbol", subject),
                    known=Registry("Unit._known", subject), base=Registry("Unit._base", subject))
        ratio_w: List[Any] = []

        class RatioModel(dict):
            def __missing__(self, k: Any) -> Any:
                d = LoggingDict(ratio_w)
                dict.__setitem__(self, k, d)
                return d

        class LoggingDict(dict):
            def __init__(self, log: List[Any]) -> None:
                super().__init__()
                self.log = log

            def __setitem__(self, k: Any, v: Any) -> None:
                self.log.append((k, v))
                super().__setitem__(k, v)

        Unit._by_name, Unit._by_symbol = regs["by_name"], regs["by_symbol"]
        Unit._known = im.MapModel("Unit._known", "absent")
        Unit._base = regs["base"]
        conversions._ratios, conversions._offsets = RatioModel(), RatioModel()
        before = (U.names, U.symbols) if U is not None else None
        raised = None
        result = None
        try:
            try:
                env = {"measured": measured, "U": U, "K": measured.Unit._known_real_kelvin}
                result = eval(template.format(n=n, s=s), env)
            except symnum.HarnessError:
                raise
            except Exception as e:
                raised = e
            obj = U if U is not None else (result if isinstance(result, Unit) else None)
            created = [v for _, v in Unit._known.writes]
            if n is not None:
                regs["by_name"].pre_state(n)
            if s is not None:
                regs["by_symbol"].pre_state(s)
            return {"raised": raised, "obj": obj, "created": created,
                    "by_name": list(regs["by_name"].writes), "by_symbol": list(regs["by_symbol"].writes),
                    "base": list(regs["base"].writes), "ratios": list(ratio_w),
                    "attrs_before": before,
                    "attrs_after": (obj.names, obj.symbols) if obj is not None and hasattr(obj, "names") else None,
                    "name_state": dict(regs["by_name"].state), "symbol_state": dict(regs["by_symbol"].state)}
        finally:
            for k, v in saved.items():
                setattr(Unit, k, v)
            conversions._ratios, conversions._offsets = saved_r

    measured.Unit._known_real_kelvin = measured.Unit._by_name.get("kelvin")
    if measured.Unit._known_real_kelvin is None:
        import measured.si  # noqa
        measured.Unit._known_real_kelvin = measured.Unit._by_name["kelvin"]
    with symnum.Shims():
        ex = explore(fn, max_paths=256)
    del measured.Unit._known_real_kelvin
    acc.explored(ex)
    cfg = f"{label}(name={n!r}, symbol={s!r})"
    for i, p in enumerate(ex.paths):
        if p.exc is not None:
            if "infeasible registry pre-state" in str(p.exc):
                continue
            raise symnum.HarnessError(f"{cfg}: harness path failed: {p.exc!r}")
        r = p.result
        pre = {"names": r["name_state"], "symbols": r["symbol_state"]}
        key = (cfg, i)
        if r["raised"] is not None:
            dirty = []
            if r["by_name"]:
                dirty.append(f"_by_name{[k for k, _ in r['by_name']]}")
            if r["by_symbol"]:
                dirty.append(f"_by_symbol{[k for k, _ in r['by_symbol']]}")
            if r["base"]:
                dirty.append("_base")
            if r["created"]:
                dirty.append("_known(+1 unit)")
            if r["ratios"]:
                dirty.append("_ratios/_offsets")
            if r["attrs_before"] is not None and r["attrs_after"] != r["attrs_before"]:
                dirty.append("names/symbols")
            ok = not dirty
            what = f"{cfg} raised {type(r['raised']).__name__} but left writes in {dirty} (pre-state {pre})"
            sig = f"C19:atomicity:{label}:{'+'.join(sorted(d.split('[')[0].split('(')[0] for d in dirty))}"
        else:
            obj = r["obj"]
            problems = []
            for kind, val, writes, state in (("name", n, r["by_name"], r["name_state"]),
                                             ("symbol", s, r["by_symbol"], r["symbol_state"])):
                if val is None:
                    continue
                bound = any(k == val and v is obj for k, v in writes) or state.get(val) == "self"
                if not bound:
                    problems.append(f"{kind} {val!r} not bound to the object")
                if state.get(val) == "other" and any(k == val for k, _ in writes):
                    problems.append(f"{kind} {val!r} was bound to another object and got overwritten")
                attr = obj.names if kind == "name" else obj.symbols
                if val not in attr:
                    problems.append(f"object does not report {kind} {val!r}")
            ok = not problems
            what = f"{cfg} returned but {problems} (pre-state {pre})"
            sig = f"C19:binding:{label}"
        acc.ob("unsat" if ok else "sat", f"{cfg}#p{i}:{'raises-clean' if r['raised'] else 'binds'}", key)
        if not ok:
            acc.out["viol"].append((sig, what, atomicity_replay(label, template, n, s, pre)))
    acc.sample({"config": cfg, "registry_pre_states_explored": len(ex.paths)})
    return acc.finish()


def atomicity_replay(label: str, template: str, n: Optional[str], s: Optional[str],
                     pre: Dict[str, Dict[str, str]]) -> str:
    """Materialise the registry pre-state with real calls, perform the call, diff the registries."""
    setup = ["U = measured.Length.unit('c19-subject', 'c19-subj')",
             "OTHER = measured.Length.unit('c19-other', 'c19-oth')", "K = measured.si.Kelvin"]
    for kind, states in (("name", pre["names"]), ("symbol", pre["symbols"])):
        for key, st in states.items():
            if st == "other":
                setup.append(f"OTHER.alias({kind}={key!r})")
            elif st == "self":
                setup.append(f"U.alias({kind}={key!r})")
    return families.REPLAY_IMPORTS + "\n".join(setup) + f"""
from measured import Unit, conversions
def snap():
    return (dict(Unit._by_name), dict(Unit._by_symbol), set(Unit._known.values()), set(Unit._base),
            {{k: dict(v) for k, v in conversions._ratios.items()}}, U.names, U.symbols)
before = snap()
try:
    r = {template.format(n=n, s=s)}
    raised = None
except Exception as e:
    raised = e
after = snap()
print('call:', {template.format(n=n, s=s)!r}, '->', repr(raised) if raised else 'returned')
if raised is not None:
    changed = [nm for nm, a, b in zip(('_by_name', '_by_symbol', '_known', '_base', '_ratios', 'names', 'symbols'), before, after) if a != b]
    if changed:
        print('REPRODUCED: the call raised but changed', changed); sys.exit(1)
    sys.exit(0)
obj = U if {label!r} in ('Unit.alias', 'Unit.derive') else r
bad = []
if {n!r} is not None and (Unit._by_name.get({n!r}) is not obj or {n!r} not in obj.names): bad.append('name')
if {s!r} is not None and (Unit._by_symbol.get({s!r}) is not obj or {s!r} not in obj.symbols): bad.append('symbol')
for k, v in before[0].items():
    if after[0].get(k) is not v: bad.append('name ' + k + ' rebound')
for k, v in before[1].items():
    if after[1].get(k) is not v: bad.append('symbol ' + k + ' rebound')
if bad:
    print('REPRODUCED:', bad); sys.exit(1)
sys.exit(0)
"""


def dimension_derive_worker(task: Tuple) -> Dict[str, Any]:
    """Dimension.derive against a symbolic-membership model of Dimension._by_name."""
    families.boot()
    import measured
    from measured import Dimension

    acc = work.Acc()
    _, name, symbol = task
    subject: List[Any] = [None]
    reg: Dict[str, Registry] = {}

    def fn() -> Any:
        d = im.shadow_dimension([0, 3, -7] + [0] * (im.ndim() - 3))
        subject[0] = d
        saved = Dimension.__dict__["_by_name"]
        reg["n"] = Registry("Dimension._by_name", subject)
        Dimension._by_name = reg["n"]
        before = (d.name, d.symbol)
        raised = None
        reg["n"]._state(name)      # fork on the pre-state even if the code never looks
        try:
            try:
                Dimension.derive(d, name, symbol)
            except symnum.HarnessError:
                raise
            except Exception as e:
                raised = e
            return {"raised": raised, "writes": list(reg["n"].writes), "state": dict(reg["n"].state),
                    "before": before, "after": (d.name, d.symbol), "d": d}
        finally:
            Dimension._by_name = saved

    with symnum.Shims():
        ex = explore(fn, max_paths=16)
    acc.explored(ex)
    cfg = f"Dimension.derive(name={name!r}, symbol={symbol!r})"
    for i, p in enumerate(ex.paths):
        if p.exc is not None:
            raise symnum.HarnessError(f"{cfg}: {p.exc!r}")
        r = p.result
        st = r["state"].get(name, "absent")
        if r["raised"] is not None:
            ok = not r["writes"] and r["before"] == r["after"]
            what = f"{cfg} raised but changed the registry / the dimension's name (pre-state {r['state']})"
            sig = "C19:atomicity:Dimension.derive"
        else:
            overwrote = st == "other" and any(k == name for k, _ in r["writes"])
            bound = any(k == name and v is r["d"] for k, v in r["writes"]) or st == "self"
            ok = bound and not overwrote and r["after"][0] == name
            what = (f"{cfg} returned with the name "
                    f"{'taken away from another dimension' if overwrote else 'not bound / not reported'} "
                    f"(pre-state {r['state']})")
            sig = "C19:binding:Dimension.derive:" + ("rebinds-a-name-of-another-dimension" if overwrote else "unbound")
        acc.ob("unsat" if ok else "sat", f"{cfg}#p{i}", (cfg, i))
        if not ok:
            acc.out["viol"].append((sig, what, families.REPLAY_IMPORTS + f"""
from measured import Dimension, Length, Time
first = Dimension.derive(Length**3 / Time**7, 'c19-dim-name')
other = Length**5 * Time**3
try:
    Dimension.derive(other, 'c19-dim-name')
    raised = False
except ValueError:
    raised = True
print('second derive raised:', raised, ' lookup returns the first:', Dimension.named('c19-dim-name') is first,
      ' first still reports it:', first.name)
if not raised and Dimension.named('c19-dim-name') is not first and first.name == 'c19-dim-name':
    print('REPRODUCED: one name, two dimensions: the lookup returns one, the other still reports it'); sys.exit(1)
sys.exit(0)
"""))
    acc.sample({"config": cfg, "registry_pre_states_explored": len(ex.paths)})
    return acc.finish()


# ------------------------------------------------------------------------------------
# (2) life-cycle automaton per class, transitions computed from the real constructors

LIFECYCLE_LIB = r"""
import json, sys
import measured, measured.si
from measured import Dimension, Prefix, Unit, Quantity, Logarithm, LogarithmicUnit, Length, Time, One
def L(i):
    return "".join("abcdefghij"[int(c)] for c in str(i))
class World:
    # one key of class `cls`, a supply of fresh names; ops act on that key
    def __init__(self, cls, k):
        self.cls, self.k, self.j = cls, k, 0
        self.bases = [Length.unit(f"cnba{L(k)}", f"cba{L(k)}"), Time.unit(f"cnbb{L(k)}", f"cbb{L(k)}")] \
            if cls in ("Unit", "LogarithmicUnit") else []
        self.lg = Logarithm(17.0 + k) if cls == "LogarithmicUnit" else None
        self.sbase = {}
    def names(self):
        # the name and symbol the next declaring operation uses; a Unit's symbol is a prefix
        # symbol followed by another unit's symbol, so that it resolves (to something else)
        # before it is declared
        t = L(self.k) + "x" + L(self.j)
        if self.cls == "Unit":
            if self.j not in self.sbase:
                self.sbase[self.j] = Length.unit(f"cnbs{t}", f"cbs{t}")
            return f"cnn{t}", "M" + f"cbs{t}"
        return f"cnn{t}", f"cns{t}"
    def make(self, named):
        nm, sy = self.names() if named else (None, None)
        k = self.k
        if self.cls == "Prefix":
            return Prefix(7, 100 + k, nm, sy)
        if self.cls == "Dimension":
            return Dimension(tuple([0, 50 + k] + [0] * (len(Length.exponents) - 2)), nm, sy)
        if self.cls == "Logarithm":
            return Logarithm(3.0 + k, Prefix(0, 0), nm, sy)
        if self.cls == "Unit":
            return Unit(Prefix(0, 0), {self.bases[0]: 3 + k, self.bases[1]: -2}, Length ** (3 + k) / Time ** 2, nm, sy)
        return LogarithmicUnit(self.lg, (2 + k) * self.bases[0], nm, sy)
    def lookups(self, nm, sy):
        # every public way of asking for a name / symbol
        out = {}
        def ask(label, f):
            try:
                out[label] = f()
            except Exception as e:
                out[label] = type(e).__name__
        if self.cls == "Unit":
            ask("Unit.named", lambda: Unit.named(nm))
            ask("Unit.resolve_symbol", lambda: Unit.resolve_symbol(sy))
            ask("Unit.resolve_symbol(name)", lambda: Unit.resolve_symbol(nm))
            ask("Unit.parse", lambda: Unit.parse(sy))
            ask("Quantity(1, symbol)", lambda: Quantity(1, sy).unit)
            ask("Quantity.parse", lambda: Quantity.parse("1 " + sy).unit)
        elif self.cls == "Prefix":
            ask("Prefix.resolve_symbol", lambda: Prefix.resolve_symbol(sy))
        elif self.cls == "Dimension":
            ask("Dimension.named", lambda: Dimension.named(nm))
        return out
    def observe(self, obj, nm, sy):
        reports = (getattr(obj, "name", None) == nm) or nm in getattr(obj, "names", ())
        post = {"reports": bool(reports)}
        by_name = getattr(type(obj), "_by_name", None)
        if by_name is not None:
            post["by_name"] = by_name.get(nm) is obj
        by_symbol = getattr(type(obj), "_by_symbol", None)
        if by_symbol is not None:
            post["by_symbol"] = by_symbol.get(sy) is obj
        for label, got in self.lookups(nm, sy).items():
            post[label] = got is obj
        return post
    def run(self, seq):
        post = {"declared": False}
        o = None
        for op in seq:
            post = {"declared": False}
            if op == "lookup":
                self.lookups(*self.names())
                post["named_now"] = bool(getattr(o, "name", None)) if o is not None else False
                continue
            if op == "construct-anonymous":
                o = self.make(False)
            elif op == "construct-named":
                nm, sy = self.names()
                o = self.make(True)
                self.j += 1
                post = {"declared": True, **self.observe(o, nm, sy)}
            else:
                o = self.make(False)
                nm, sy = self.names()
                if self.cls == "Unit":
                    Unit.derive(o, nm, sy)
                elif self.cls == "Dimension":
                    Dimension.derive(o, nm, sy)
                elif self.cls in ("Logarithm", "LogarithmicUnit"):
                    o.alias(nm, sy)
                else:
                    return {"declared": False, "unsupported": True}
                self.j += 1
                post = {"declared": True, **self.observe(o, nm, sy)}
            post["named_now"] = bool(getattr(o, "name", None))
        return post
"""

LIFECYCLE_SRC = LIFECYCLE_LIB + r"""
cls = sys.argv[1]
PREFIX = {"absent": [], "anonymous": ["construct-anonymous"], "named": ["construct-named"]}
table = {}
k = 0
for state in ("absent", "anonymous", "named"):
    for looked in (0, 1):
        for op in ("construct-anonymous", "construct-named", "derive-or-alias"):
            k += 1
            seq = PREFIX[state] + (["lookup"] if looked else []) + [op]
            try:
                post = World(cls, k).run(seq)
                post["next"] = "named" if post.pop("named_now", False) else "anonymous"
            except Exception as e:
                post = {"declared": False, "raised": type(e).__name__, "next": state}
            table[f"{state}|{looked}|{op}"] = post
print(json.dumps(table))
"""

NOT_OBSERVATIONS = ("declared", "next", "raised", "unsupported", "named_now")


def lifecycle(rep: report.Report) -> None:
    states = ["absent", "anonymous", "named"]
    ops = ["construct-anonymous", "construct-named", "derive-or-alias", "lookup"]
    for cls in ("Prefix", "Dimension", "Unit", "Logarithm", "LogarithmicUnit"):
        p = subprocess.run([report.REPO_PY, "-c", LIFECYCLE_SRC, cls], capture_output=True, text=True,
                           timeout=120, cwd="/")
        if p.returncode != 0:
            raise symnum.HarnessError(f"life-cycle extraction for {cls} failed: {p.stderr[-500:]}")
        table = json.loads(p.stdout.strip().splitlines()[-1])
        # BMC over the extracted automaton: sequence of <= 5 operations from 'absent' whose last
        # operation declares a name that is then not bound / not reported / not found by a
        # public lookup.  State = (life-cycle state of the object, whether the name about to be
        # declared has been looked up already)
        S = z3.Solver()
        S.set("timeout", 10000)
        L = 5
        st = [z3.Int(f"s{i}") for i in range(L + 1)]
        lk = [z3.Int(f"l{i}") for i in range(L + 1)]
        op = [z3.Int(f"o{i}") for i in range(L)]
        ln = z3.Int("len")
        S.add(st[0] == 0, lk[0] == 0, ln >= 1, ln <= L)
        bad_terms = []
        declaring = {"Prefix": ["construct-named"], "Logarithm": ["construct-named", "derive-or-alias"],
                     "Unit": ["derive-or-alias"], "Dimension": ["derive-or-alias"],
                     "LogarithmicUnit": ["derive-or-alias"]}[cls]
        allowed = set(declaring) | {"construct-anonymous", "lookup"}
        for i in range(L):
            S.add(op[i] >= 0, op[i] < len(ops))
            S.add(z3.Implies(op[i] == 3, z3.And(st[i + 1] == st[i], lk[i + 1] == 1)))
            S.add(z3.Implies(op[i] != 3, lk[i + 1] == 0))
            for si, sname in enumerate(states):
                for looked in (0, 1):
                    for oi, oname in enumerate(ops[:3]):
                        post = table[f"{sname}|{looked}|{oname}"]
                        here = z3.And(st[i] == si, lk[i] == looked, op[i] == oi)
                        if post.get("unsupported") or oname not in allowed:
                            S.add(z3.Implies(i < ln, z3.Not(here)))
                        nxt = states.index(post.get("next", sname))
                        S.add(z3.Implies(here, st[i + 1] == nxt))
                        unbound = post.get("declared") and not post.get("unsupported") and any(
                            v is False for kk, v in post.items() if kk not in NOT_OBSERVATIONS)
                        # first naming only: re-declaring another name for an already named
                        # object through the constructor is outside the property
                        if unbound and oname in declaring and sname != "named":
                            bad_terms.append(z3.And(ln == i + 1, here))
        rep.queries += 1
        S.add(z3.Or(*bad_terms) if bad_terms else z3.BoolVal(False))
        r = str(S.check())
        rep.ob("unsat" if r == "unsat" else ("unknown" if r == "unknown" else "sat"),
               f"lifecycle:{cls}:no order of <= {L} operations (constructions, declarations, lookups) leaves a "
               f"declared name unbound", ("lifecycle", cls))
        rep.coverage.setdefault("lifecycle_tables", {})[cls] = table
        if r == "sat":
            for shortest in range(1, L + 1):        # report a shortest history
                S.push()
                S.add(ln == shortest)
                if str(S.check()) == "sat":
                    break
                S.pop()
            m = S.model()
            n = m.eval(ln).as_long()
            seq = [ops[m.eval(op[i], model_completion=True).as_long()] for i in range(n)]
            rep.violation(f"C19:lifecycle:{cls}:{'>'.join(seq)}",
                          f"{cls}: after {seq} the declared name/symbol is not bound to / reported by / "
                          f"found for the object", lifecycle_replay(cls, seq))


def lifecycle_replay(cls: str, seq: List[str]) -> str:
    return "import json\n" + f"LIB = {LIFECYCLE_LIB!r}\n" + f"""
exec(LIB)
post = World({cls!r}, 77).run({seq!r})
print({seq!r}, '->', post)
bad = [k for k, v in post.items() if v is False and k not in {NOT_OBSERVATIONS!r}]
if post.get('declared') and bad:
    print('REPRODUCED: a declared name/symbol is not bound to, reported by or found for the object:', bad); sys.exit(1)
sys.exit(0)
"""


# ------------------------------------------------------------------------------------
# (3) shipped declarations

AUDIT_SRC = r'''
import ast, importlib, json, os, sys
first = sys.argv[1] if len(sys.argv) > 1 else ""
if first:
    importlib.import_module("measured." + first)
import measured, measured.systems
from measured import Dimension, Prefix, Unit
SRC = os.path.dirname(measured.__file__)
decls = []
for fn in sorted(os.listdir(SRC)):
    if not fn.endswith(".py") or fn in ("_parser.py", "hypothesis.py", "pytest.py", "cli.py"):
        continue
    tree = ast.parse(open(os.path.join(SRC, fn)).read())
    for node in ast.walk(tree):
        if not isinstance(node, ast.Call):
            continue
        f = node.func
        fname = f.attr if isinstance(f, ast.Attribute) else (f.id if isinstance(f, ast.Name) else "")
        if fname not in ("Prefix", "unit", "scale", "derive", "alias", "define"):
            continue
        args = {}
        pos = [a.value if isinstance(a, ast.Constant) else None for a in node.args]
        kw = {k.arg: (k.value.value if isinstance(k.value, ast.Constant) else None) for k in node.keywords}
        if fname == "Prefix":
            name = kw.get("name", pos[2] if len(pos) > 2 else None)
            symbol = kw.get("symbol", pos[3] if len(pos) > 3 else None)
            kind = "Prefix"
        elif fname in ("unit", "define") and not (isinstance(f, ast.Attribute) and isinstance(f.value, ast.Name) and f.value.id == "cls"):
            strs = [p for p in pos if isinstance(p, str)]
            name = kw.get("name", strs[0] if strs else None)
            symbol = kw.get("symbol", strs[1] if len(strs) > 1 else None)
            kind = "Unit" if not (fname == "define" and isinstance(f.value, ast.Name) and f.value.id == "Dimension") else "Dimension"
        elif fname == "scale":
            strs = [p for p in pos if isinstance(p, str)]
            name = kw.get("name", strs[0] if strs else None)
            symbol = kw.get("symbol", strs[1] if len(strs) > 1 else None)
            kind = "Unit"
        elif fname == "derive":
            strs = [p for p in pos if isinstance(p, str)]
            name = kw.get("name", strs[0] if strs else None)
            symbol = kw.get("symbol", strs[1] if len(strs) > 1 else None)
            owner = f.value.id if isinstance(f, ast.Attribute) and isinstance(f.value, ast.Name) else ""
            kind = "Dimension" if owner == "Dimension" else "Unit"
        else:  # alias
            strs = [p for p in pos if isinstance(p, str)]
            name = kw.get("name", strs[0] if strs else None)
            symbol = kw.get("symbol", strs[1] if len(strs) > 1 else None)
            kind = "alias"
        if not isinstance(name, str) and not isinstance(symbol, str):
            continue
        decls.append({"file": fn, "line": node.lineno, "kind": kind, "name": name if isinstance(name, str) else None,
                      "symbol": symbol if isinstance(symbol, str) else None})
problems = []
seen_symbol = {}
for d in decls:
    k = d["kind"]
    if k == "alias":
        # Unit.alias / Logarithm.alias / LogarithmicUnit.alias: resolve among units first
        k = "Unit" if (d["name"] in Unit._by_name or d["symbol"] in Unit._by_symbol) else "Other"
    if k == "Other":
        continue
    cls = {"Unit": Unit, "Prefix": Prefix, "Dimension": Dimension}[k]
    obj = None
    if d["name"]:
        obj = cls._by_name.get(d["name"])
        if obj is None:
            problems.append({"what": "name-not-bound", **d})
            continue
        reported = (d["name"] in getattr(obj, "names", ())) or getattr(obj, "name", None) == d["name"]
        if not reported:
            problems.append({"what": "name-not-reported", **d})
    if d["symbol"] and k != "Dimension":
        sobj = cls._by_symbol.get(d["symbol"])
        if sobj is None:
            problems.append({"what": "symbol-not-bound", **d})
        elif obj is not None and sobj is not obj:
            problems.append({"what": "symbol-bound-to-another-object", "bound_to": getattr(sobj, "name", None), **d})
        elif sobj is not None and not ((d["symbol"] in getattr(sobj, "symbols", ())) or getattr(sobj, "symbol", None) == d["symbol"]):
            problems.append({"what": "symbol-not-reported", **d})
        key = (k, d["symbol"])
        owner = d["name"]
        if key in seen_symbol and seen_symbol[key]["name"] != owner and owner and seen_symbol[key]["name"]:
            a, b = cls._by_name.get(seen_symbol[key]["name"]), cls._by_name.get(owner)
            if a is not None and b is not None and a is not b:
                problems.append({"what": "symbol-declared-for-two-objects", "other": seen_symbol[key], **d})
        seen_symbol.setdefault(key, d)
    if k == "Unit" and d["symbol"] and obj is not None:
        try:
            if Unit.resolve_symbol(d["symbol"]) is not obj:
                problems.append({"what": "resolve_symbol-returns-another-object", **d})
        except KeyError:
            problems.append({"what": "resolve_symbol-fails", **d})
print(json.dumps({"declarations": len(decls), "problems": problems, "sample": decls[:3]}))
'''


def audit(rep: report.Report, tier: str) -> None:
    orders = [""] + (sorted(m for m in ("si", "iec", "us", "energy", "astronomical", "natural", "metric",
                                        "iso", "eu", "fff", "apocrypha", "computing", "avoirdupois", "troy",
                                        "acoustics", "electronics", "music"))
                     if tier == "thorough" else ["iec", "us", "music"])
    seen = set()
    for first in orders:
        p = subprocess.run([report.REPO_PY, "-c", AUDIT_SRC, first], capture_output=True, text=True,
                           timeout=300, cwd="/")
        if p.returncode != 0:
            raise symnum.HarnessError(f"audit (import {first or 'systems'} first) failed: {p.stderr[-600:]}")
        res = json.loads(p.stdout.strip().splitlines()[-1])
        rep.coverage["shipped_declarations"] = res["declarations"]
        bad_lines = {(q["file"], q["line"]) for q in res["problems"]}
        for _ in range(res["declarations"] - len(bad_lines)):
            rep.ob("unsat", "shipped-declaration-resolves", None)
        rep.nontrivial.add(("audit", first))
        for q in res["problems"]:
            sig = f"C19:shipped:{q['what']}:{q['kind']}:{q['name']}:{q['symbol']}"
            rep.ob("sat", f"{q['file']}:{q['line']}:{q['what']} (import order: {first or 'systems'})",
                   ("audit", q["file"], q["line"]))
            if sig in seen:
                continue
            seen.add(sig)
            rep.violation(sig, f"{q['file']}:{q['line']}: {q['what']}: name={q['name']!r} "
                          f"symbol={q['symbol']!r} {q.get('bound_to') or q.get('other') or ''}",
                          audit_replay(q))
        rep.sample({"audit_import_first": first or "(systems)", "declarations": res["declarations"],
                    "sample": res["sample"]})


def audit_replay(q: Dict[str, Any]) -> str:
    cls = {"Unit": "measured.Unit", "Prefix": "measured.Prefix", "Dimension": "measured.Dimension",
           "alias": "measured.Unit"}[q["kind"]]
    return families.REPLAY_IMPORTS + f"""
cls = {cls}
name, symbol = {q['name']!r}, {q['symbol']!r}
byn = cls._by_name.get(name) if name else None
bys = getattr(cls, '_by_symbol', {{}}).get(symbol) if symbol else None
print({q['file']!r}, {q['line']}, 'declares', name, symbol, '-> by name:', repr(byn), ' by symbol:', repr(bys))
bad = []
if name and byn is None: bad.append('name not bound')
if name and byn is not None and not (name in getattr(byn, 'names', ()) or getattr(byn, 'name', None) == name): bad.append('name not reported')
if symbol and hasattr(cls, '_by_symbol'):
    if bys is None: bad.append('symbol not bound')
    elif byn is not None and bys is not byn: bad.append('symbol bound to another object: ' + repr(bys))
if bad:
    print('REPRODUCED:', bad); sys.exit(1)
sys.exit(0)
"""


def worker(task: Tuple) -> Dict[str, Any]:
    if task[0] == "dimension-derive":
        return dimension_derive_worker(task)
    return atomicity_worker(task)


def tasks_for(tier: str) -> List[Tuple]:
    return [("atomic", label, tmpl, n, s) for (label, tmpl) in CASES for (n, s) in ARGS] + \
        [("dimension-derive", "dname", "DS"), ("dimension-derive", "dname", None)]


DECL_REPLAY = """
from decimal import Decimal
from measured import Length, Temperature, conversions
A = Length.unit('c19-decl-a', 'c19da'); B = Length.unit('c19-decl-b', 'c19db')
def snapshot():
    return ({{u: dict(v) for u, v in conversions._ratios.items() if v}},
            {{u: dict(v) for u, v in conversions._offsets.items() if v}})
before = snapshot()
x, y = {x}, {y}
try:
    {call}
    print('the declaration was accepted'); sys.exit(0)
except Exception as e:
    print('the declaration raised', type(e).__name__, e)
after = snapshot()
print('entries before:', sum(map(len, before[0].values())), ' after:', sum(map(len, after[0].values())))
if after != before:
    print('REPRODUCED: a declaration that raised left part of itself in the conversion tables')
    try:
        print('   and it is used:', (1 * A).in_unit(B))
    except Exception as e:
        print('  ', type(e).__name__)
    sys.exit(1)
sys.exit(0)
"""


def declaration_atomicity(rep: report.Report) -> None:
    """equals / equate / translate are definition calls too: with symbolic magnitudes on both
    sides, a call that raises (a zero magnitude divides) must leave the conversion tables as
    they were."""
    import measured
    from measured import Length, conversions

    x, y = z3.Real("dx"), z3.Real("dy")
    P = symnum.Prover()
    a_u = Length.unit("c19-decl-sym-a", "c19dsa")
    b_u = Length.unit("c19-decl-sym-b", "c19dsb")
    calls = {
        "Unit.equals": (lambda X, Y: a_u.equals(Y * b_u), "A.equals(y * B)"),
        "conversions.equate": (lambda X, Y: conversions.equate(X * a_u, Y * b_u), "conversions.equate(x * A, y * B)"),
        "conversions.translate": (lambda X, Y: conversions.translate(a_u, Y * b_u), "conversions.translate(A, y * B)"),
    }
    for kind in ("float", "dec", "int"):
        for label, (call, code) in calls.items():
            log: List[Any] = []

            class LoggingDict(dict):
                def __setitem__(self, k: Any, v: Any) -> None:
                    log.append((k, v))
                    dict.__setitem__(self, k, v)

            class TableModel(dict):
                def __missing__(self, k: Any) -> Any:
                    d = LoggingDict()
                    dict.__setitem__(self, k, d)
                    return d

            def fn() -> Any:
                log.clear()
                saved = (conversions._ratios, conversions._offsets)
                conversions._ratios, conversions._offsets = TableModel(), TableModel()
                try:
                    X = symnum.mk(kind, x if kind != "int" else z3.Int("dxi"))
                    Y = symnum.mk(kind, y if kind != "int" else z3.Int("dyi"))
                    try:
                        call(X, Y)
                        return {"raised": None, "writes": list(log)}
                    except symnum.HarnessError:
                        raise
                    except Exception as e:
                        return {"raised": type(e).__name__, "writes": list(log)}
                finally:
                    conversions._ratios, conversions._offsets = saved

            with symnum.Shims():
                ex = explore(fn, max_paths=64)
            rep.merge_stats(queries=ex.queries, solver_s=ex.solver_s, paths=len(ex.paths))
            for i, p in enumerate(ex.paths):
                key = ("declaration", label, kind, i)
                if p.exc is not None:
                    rep.ob("unknown", f"{label}/{kind}#p{i}: {p.outcome}", key)
                    continue
                r = p.result
                if r["raised"] is None or not r["writes"]:
                    rep.ob("unsat", f"{label}/{kind}#p{i}: {'accepted' if r['raised'] is None else 'raises and leaves no write'}", key)
                    continue
                vs = [x, y] if kind != "int" else [z3.Int("dxi"), z3.Int("dyi")]
                m = P.shaped_model([p.cond], vs) or {}
                xv, yv = (m.get(str(v), Fraction(1)) for v in vs)
                rep.ob("sat", f"{label}/{kind}#p{i}: raises {r['raised']} after {len(r['writes'])} table write(s)", key)
                rep.violation(f"C19:atomicity:{label}:_ratios/_offsets",
                              f"{label} with magnitudes {xv}, {yv} ({kind}) raises {r['raised']} but has already "
                              f"stored {len(r['writes'])} entr{'y' if len(r['writes']) == 1 else 'ies'} in the "
                              f"conversion tables",
                              families.REPLAY_IMPORTS + DECL_REPLAY.format(x=work.lit(kind, xv), y=work.lit(kind, yv),
                                                                           call=code))
    rep.functions.update(["measured.Unit.equals", "measured.conversions.equate"])


SCALE_REPLAY = """
from decimal import Decimal
from measured import Length, Temperature, Unit, conversions
from measured.si import Meter, Second, Kilo, Kelvin
def snapshot():
    return (dict(Unit._by_name), dict(Unit._by_symbol), set(Unit._base), dict(Unit._known),
            {{u: dict(v) for u, v in conversions._ratios.items() if v}},
            {{u: dict(v) for u, v in conversions._offsets.items() if v}})
before = snapshot()
zero = {zero}
try:
    Length.scale(zero, 'c19 scale', 'c19sc')
    print('the definition was accepted'); sys.exit(0)
except Exception as e:
    print('Length.scale(', repr(zero), ", 'c19 scale', 'c19sc') raised", type(e).__name__, e)
after = snapshot()
names = ('names', 'symbols', 'base units', 'interned units', 'ratios', 'offsets')
changed = [n for n, b, a in zip(names, before, after) if a != b]
print('registries changed by the failed definition:', changed)
if changed:
    print('REPRODUCED: a definition that raised left part of itself behind')
    try:
        Length.scale(3 * Meter, 'c19 scale', 'c19sc')
    except Exception as e:
        print('   and the corrected definition is now refused:', type(e).__name__, e)
    sys.exit(1)
sys.exit(0)
"""

SPECIALS = {"dec": ["Decimal('NaN')", "Decimal('sNaN')", "Decimal('Infinity')", "Decimal('-Infinity')"],
            "float": ["float('nan')", "float('inf')", "float('-inf')"], "int": []}
ZERO_SHAPES = [("a quantity of the dimension", "{m} * Meter"),
               ("a quantity of the dimension in a prefixed unit", "{m} * (Kilo * Meter)"),
               ("a quantity of another dimension", "{m} * Second"),
               ("a quantity of a compound unit of another dimension", "{m} * (Meter / Second)"),
               ("a plain number where a quantity is expected", "{m}")]


def scale_atomicity(rep: report.Report) -> None:
    """Dimension.scale defines a unit and then declares its zero point: if the second half raises,
    the first half must not stay behind.  The zero point ranges over: its shape (selector variable:
    a quantity of the dimension, prefixed, of another dimension, a plain number), and its magnitude
    (selector variable: a symbolic finite int / float / Decimal, or one of the special values of the
    type, which are concrete and go through the real arithmetic)."""
    import measured
    from decimal import Decimal
    from measured import Length, Unit, conversions
    from measured.si import Kilo, Meter, Second

    P = symnum.Prover()
    regs = [("Unit._by_name", Unit._by_name), ("Unit._by_symbol", Unit._by_symbol),
            ("Unit._known", Unit._known), ("Unit._base", Unit._base)]
    env = {"Meter": Meter, "Second": Second, "Kilo": Kilo, "Decimal": Decimal, "float": float}
    for kind in ("float", "dec", "int"):
        mv = symnum.var(kind, "c19_zero")
        sel_shape, sel_mag = z3.Int("c19_zero_shape"), z3.Int("c19_zero_special")
        specials = SPECIALS[kind]

        def fn() -> Any:
            c = symnum.ctx()
            # magnitude: 0 = finite (symbolic), i >= 1 = the i-th special value
            mag: Any = None
            mcode = None
            for i, sp in enumerate(specials, 1):
                if c.decide(sel_mag == i):
                    mag, mcode = eval(sp, dict(env)), sp
                    break
            if mag is None:
                c.assume(sel_mag == 0)
                mag = symnum.mk(kind, mv)
            shape = len(ZERO_SHAPES) - 1
            for j in range(len(ZERO_SHAPES) - 1):
                if c.decide(sel_shape == j):
                    shape = j
                    break
            else:
                c.assume(sel_shape == shape)
            zero = eval(ZERO_SHAPES[shape][1].format(m="M"), dict(env, M=mag))
            before = [dict(r) if isinstance(r, dict) else set(r) for _, r in regs]
            tables = ({u: dict(v) for u, v in conversions._ratios.items() if v},
                      {u: dict(v) for u, v in conversions._offsets.items() if v})
            raised = None
            try:
                Length.scale(zero, "c19 symbolic scale", "c19ssc")
            except symnum.HarnessError:
                raise
            except Exception as e:
                raised = type(e).__name__
            finally:
                changed = [n for (n, r), b in zip(regs, before) if (dict(r) if isinstance(r, dict) else set(r)) != b]
                t2 = ({u: dict(v) for u, v in conversions._ratios.items() if v},
                      {u: dict(v) for u, v in conversions._offsets.items() if v})
                if t2 != tables:
                    changed.append("conversion tables")
                # put everything back: every path starts from the same state
                for (_, r), b in zip(regs, before):
                    r.clear()
                    r.update(b)
                for tbl, old in zip((conversions._ratios, conversions._offsets), tables):
                    for u in list(tbl):
                        if u not in old:
                            del tbl[u]
                        else:
                            tbl[u].clear()
                            tbl[u].update(old[u])
                conversions._find_path.cache_clear()
                conversions._plan_conversion.cache_clear()
            return {"raised": raised, "changed": changed, "shape": shape, "special": mcode}

        with symnum.Shims():
            ex = explore(fn, max_paths=128)
        rep.merge_stats(queries=ex.queries, solver_s=ex.solver_s, paths=len(ex.paths))
        for i, p in enumerate(ex.paths):
            key = ("scale-atomicity", kind, i)
            if p.exc is not None:
                rep.ob("unknown", f"Dimension.scale/{kind}#p{i}: {p.outcome}", key)
                continue
            r = p.result
            what = f"{ZERO_SHAPES[r['shape']][0]}, magnitude {r['special'] or 'finite ' + kind}"
            if r["raised"] is None or not r["changed"]:
                rep.ob("unsat", f"Dimension.scale/{kind}#p{i} ({what}): "
                                f"{'accepted' if r['raised'] is None else 'raises ' + r['raised'] + ' and leaves nothing behind'}", key)
                continue
            rep.ob("sat", f"Dimension.scale/{kind}#p{i} ({what}): raises {r['raised']} after changing {r['changed']}", key)
            if r["special"]:
                mlit = r["special"]
            else:
                m = P.shaped_model([p.cond], [mv]) or {}
                mlit = work.lit(kind, m.get(str(mv), Fraction(3)))
            rep.violation("C19:atomicity:Dimension.scale",
                          f"Dimension.scale with {what} as the zero point raises {r['raised']} but has already changed "
                          f"{r['changed']}",
                          families.REPLAY_IMPORTS + SCALE_REPLAY.format(zero=ZERO_SHAPES[r["shape"]][1].format(m=mlit)))
    rep.functions.update(["measured.Dimension.scale", "measured.conversions.translate"])


LOOKUP_REPLAY = """
from measured import Length, Unit
B = Length.unit('c19 symbol owner', 'c19key')          # the text is B's symbol ...
A = Length.unit('c19key', 'c19 other symbol'.replace(' ', '-'))   # ... and A's name
def look(f, text):
    try:
        return f(text)
    except KeyError as e:
        print(f.__name__, 'raises KeyError', e)
        return None
got_named = look(Unit.named, 'c19key')
got_symbol = look(Unit.resolve_symbol, 'c19key')
print('named ->', got_named and got_named.names, ' resolve_symbol ->', got_symbol and got_symbol.names)
if got_named is not A or got_symbol is not B:
    print('REPRODUCED: a lookup by name (or symbol) answered from the other registry'); sys.exit(1)
sys.exit(0)
"""


def lookup_faithfulness(rep: report.Report) -> None:
    """Names and symbols are separate namespaces: Unit.named(text) answers from the name registry
    alone and an exact symbol hit of Unit.resolve_symbol(text) from the symbol registry alone.  The
    real lookups run with the membership of `text` in each registry chosen by solver variables (the
    other entries are the real ones); on every path the answer must be the object that registry binds."""
    from measured import Length, Unit

    A = Length.unit("c19 lookup name owner", "c19lno")
    B = Length.unit("c19 lookup symbol owner", "c19lso")
    # the second text is no fixed point of the usual text transforms (Unicode normalisation, case
    # folding): a lookup that rewrites its argument asks the registries about another key
    for key in ("c19lookupkey", "C19\u212bLookup\u2126Key"):

        class Sym(dict):
            def __init__(self, real: Dict[str, Any], tag: str, owner: Any) -> None:
                dict.__init__(self, real)
                self.tag, self.owner = tag, owner

            def _present(self) -> bool:
                return ctx().decide(z3.Bool(f"{self.tag}[{key!r}] present"))

            def __contains__(self, k: Any) -> bool:
                return self._present() if k == key else dict.__contains__(self, k)

            def __getitem__(self, k: Any) -> Any:
                if k == key:
                    if self._present():
                        return self.owner
                    raise KeyError(k)
                return dict.__getitem__(self, k)

            def get(self, k: Any, default: Any = None) -> Any:
                if k == key:
                    return self.owner if self._present() else default
                return dict.get(self, k, default)

        for which in ("named", "resolve_symbol"):
            def fn() -> Any:
                saved = (Unit._by_name, Unit._by_symbol)
                Unit._by_name, Unit._by_symbol = Sym(saved[0], "_by_name", A), Sym(saved[1], "_by_symbol", B)
                try:
                    try:
                        r = getattr(Unit, which)(key)
                        out = "A" if r is A else ("B" if r is B else f"another object ({r!r})"[:60])
                    except KeyError:
                        out = "KeyError"
                    # a lookup that never asked one of the registries must still be right for either state of it
                    ctx().decide(z3.Bool(f"_by_name[{key!r}] present"))
                    ctx().decide(z3.Bool(f"_by_symbol[{key!r}] present"))
                    return out
                finally:
                    Unit._by_name, Unit._by_symbol = saved

            ex = explore(fn, max_paths=16)
            rep.merge_stats(queries=ex.queries, solver_s=ex.solver_s, paths=len(ex.paths))
            np_, sp_ = z3.Bool(f"_by_name[{key!r}] present"), z3.Bool(f"_by_symbol[{key!r}] present")
            P = symnum.Prover()
            for i, p in enumerate(ex.paths):
                k = ("lookup", which, i)
                if p.exc is not None:
                    rep.ob("unknown", f"Unit.{which}#p{i}: {p.outcome}", k)
                    continue
                # what the answer must be on this path, from the registry the lookup is about
                name_in = P.check(p.cond, z3.Not(np_))[0] == "unsat"
                name_out = P.check(p.cond, np_)[0] == "unsat"
                sym_in = P.check(p.cond, z3.Not(sp_))[0] == "unsat"
                sym_out = P.check(p.cond, sp_)[0] == "unsat"
                if which == "named":
                    want = "A" if name_in else ("KeyError" if name_out else None)
                else:
                    # exact symbols first; a text that is no symbol may still be a name (documented fallback)
                    want = "B" if sym_in else (("A" if name_in else ("KeyError" if name_out else None)) if sym_out else None)
                ok = want is None or p.result == want
                rep.ob("unsat" if ok else "sat", f"Unit.{which}({key!r}) with name {'bound' if name_in else 'unbound' if name_out else 'either'}, "
                       f"symbol {'bound' if sym_in else 'unbound' if sym_out else 'either'}: answers {p.result}", k)
                if not ok:
                    rep.violation(f"C19:lookup:Unit.{which}" + ("" if key == "c19lookupkey" else ":text-rewritten"),
                                  f"Unit.{which}(text) answers {p.result} where the registry it looks in gives {want} "
                                  f"(name {'bound' if name_in else 'unbound'}, symbol {'bound' if sym_in else 'unbound'}): "
                                  f"names and symbols are not kept apart", families.REPLAY_IMPORTS + LOOKUP_REPLAY.replace('c19key', key if key != 'c19lookupkey' else 'c19key'),
                                  soft=True)    # e.g. a memoised lookup answers for the model's registries what it would not for the real ones
                    break
    rep.functions.update(["measured.Unit.named", "measured.Unit.resolve_symbol"])


def main(tier: str, selftest_cases: int = 0) -> int:
    rep = report.Report(PID, tier, "other")
    declaration_atomicity(rep)
    lookup_faithfulness(rep)
    scale_atomicity(rep)
    tasks = families.shuffled(tasks_for(tier), rep.seed)
    results = par.run("props.c19", "worker", tasks)
    work.merge(rep, results)
    lifecycle(rep)
    audit(rep, tier)
    rep.functions.update(["measured.Unit.define", "measured.Unit.alias", "measured.Unit.derive",
                          "measured.Unit.__new__", "measured.Unit.__init__", "measured.Dimension.unit",
                          "measured.Dimension.scale", "measured.Dimension.derive", "measured.Prefix.__new__",
                          "measured.Prefix.__init__", "measured.Logarithm.__new__", "measured.Logarithm.alias",
                          "measured.LogarithmicUnit.__new__", "measured.LogarithmicUnit.alias",
                          "measured.conversions.translate", "all shipped unit modules (AST literals)"])
    rep.coverage["selftest_cases"] = selftest_cases
    rep.coverage["bounds"] = (
        "atomicity: every registry pre-state (name/symbol absent, bound to this object, bound to "
        "another) x argument shapes (name/symbol given or not, symbol with a space) for 5 definition "
        "entry points; life-cycle: operation orders of length <= 4 per class; audit: all shipped "
        "literals under " + ("17" if tier == "thorough" else "4") + " import orders.")
    rep.coverage["explanation"] = (
        "Definition calls run as real code against registry models whose membership answers are "
        "solver-chosen Booleans, so every registry pre-state is enumerated by the solver; a raising "
        "call must leave all write logs empty. The naming life-cycle is model-checked (z3, bounded) "
        "over transition tables obtained by running the real constructors. Shipped declarations "
        "are a finite audit of the real registries (not a solver claim).")
    rep.assumptions += ["strings are concrete (two shapes: without and with a space)"]
    return rep.finish()
