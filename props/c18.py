"""C18 -- levels and quantities interconvert by the logarithmic definition (E1, ln/exp stubs).

Symbolic: quantity magnitude x > 0 and level magnitude l in [-200, 200].  Enumerated: logarithm
families x references (concrete: LogarithmicUnit._known hashes them) x the unit the quantity is
written in.  `math.log(r, b)` is ln(r)/ln(b) and `b ** y` is exp(ln(b)*y) over uninterpreted
ln/exp with the instance axioms of engine/symnum.py.
"""

from __future__ import annotations

from fractions import Fraction
from typing import Any, Dict, List, Tuple

import z3

from engine import families, par, report, symnum, work
from engine.symnum import LN, EXP, bool_term, explore, mk, real, var

PID = "C18"
X, X2, L = z3.Real("x"), z3.Real("x2"), z3.Real("l")
LI = z3.Int("li")

LOGS = {
    "bel": "measured.Bel", "decibel": "measured.Decibel", "neper": "measured.Neper",
    "octave": "measured.Octave", "semitone": "measured.music.Semitone",
    "centibel": "(measured.si.Centi * measured.Bel)", "millineper": "(measured.si.Milli * measured.Neper)",
    "kibioctave": "(measured.iec.Kibi * measured.Octave)",
    # bases that no dedicated math function covers
    "base3": "measured.Logarithm(3)", "base1.5": "measured.Logarithm(1.5)",
    "decibase7": "(measured.si.Deci * measured.Logarithm(7))",
}
# (reference, unit the quantity is written in, power(1) / root-power(2) by physics)
REFS = [
    ("1 * measured.si.Watt", "measured.si.Watt", 1),
    ("1 * measured.si.Milli * measured.si.Watt", "measured.si.Watt", 1),
    ("1 * measured.si.Watt", "(measured.si.Milli * measured.si.Watt)", 1),
    ("1 * (measured.si.Pico * measured.si.Watt) / measured.si.Meter**2",
     "(measured.si.Watt / measured.si.Meter**2)", 1),
    ("1 * measured.si.Volt", "measured.si.Volt", 2),
    ("1 * measured.si.Volt", "(measured.si.Milli * measured.si.Volt)", 2),
    ("20 * measured.si.Micro * measured.si.Pascal", "measured.si.Pascal", 2),
    ("20 * measured.si.Micro * measured.si.Pascal", "measured.us.PSI", 2),
    ("1 * measured.si.Meter / measured.si.Second", "(measured.us.Foot / measured.si.Second)", 2),
    ("1 * measured.si.Ampere", "measured.si.Ampere", 2),
    # the other root-power (field) quantities: field strength and the charge densities
    ("1 * (measured.si.Micro * measured.si.Volt) / measured.si.Meter", "(measured.si.Volt / measured.si.Meter)", 2),
    ("1 * measured.si.Coulomb / measured.si.Meter", "(measured.si.Coulomb / measured.si.Meter)", 2),
    ("1 * measured.si.Coulomb / measured.si.Meter**2", "(measured.si.Coulomb / measured.si.Meter**2)", 2),
    ("1 * measured.si.Coulomb / measured.si.Meter**3", "(measured.si.Coulomb / measured.si.Meter**3)", 2),
    # and power-like quantities that are not in any list: energy, power spectral density
    ("1 * measured.si.Joule", "measured.si.Joule", 1),
    ("1 * measured.si.Watt / measured.si.Hertz", "(measured.si.Watt / measured.si.Hertz)", 1),
    ("440 * measured.si.Hertz", "measured.si.Hertz", 1),
    ("2 * measured.si.Watt", "measured.energy.Horsepower", 1),
]
REL = Fraction(1, 10 ** 12)


def ns() -> Dict[str, Any]:
    import measured
    import measured.systems  # noqa
    import measured.music  # noqa

    return {"measured": measured}


def replay(lc: str, rc: str, qc: str, k: int, earlier: Any = None) -> str:
    pre = "" if not earlier else (f"# what the process had asked for before (another reference of the same family)\n"
                                  f"print('earlier:', (1 * {earlier[1]}).level({lc}[{earlier[0]}]))\n")
    return families.REPLAY_IMPORTS + f"""import math, measured.music
{pre}LU = {lc}[{rc}]
QU = {qc}
base, prefix = LU.logarithm.base, LU.logarithm.prefix
pv = float(prefix.base) ** prefix.exponent if prefix.base else 1.0
ref = ({rc})
bad = []
prev = None
for x in (0.001, 0.5, 1.0, 3.0, 1000.0, 12345.678):
    q = x * QU
    ratio = float(q.in_unit(ref.unit).magnitude) / float(ref.magnitude)
    want = ({k} / pv) * math.log(ratio) / math.log(base)
    try:
        lv = LU.level(q)
        back = lv.quantify().in_unit(QU)
    except Exception as e:
        bad.append(('raised', x, type(e).__name__, str(e))); continue
    print(q, '->', lv.magnitude, ' closed form', want, ' back', back.magnitude, ' equal?', lv == q, q == lv)
    if abs(lv.magnitude - want) > 1e-9 * max(abs(want), 1e-9):
        bad.append(('closed-form', x, lv.magnitude, want))
    if abs(float(back.magnitude) - x) > 1e-9 * x:
        bad.append(('round-trip', x, back.magnitude))
    if prev is not None and not (lv.magnitude > prev):
        bad.append(('monotone', x))
    prev = lv.magnitude
    if not (lv == lv.quantify()) or not (lv.quantify() == lv):
        bad.append(('level != the quantity it denotes', x))
for l in (-200, -3.5, 0, 1, 60, 200, 3, -7, 2, 0.0, 1.0):
    try:
        q = (l * LU).quantify()
        l2 = LU.level(q).magnitude
    except Exception as e:
        bad.append(('raised', l, type(e).__name__, str(e))); continue
    if abs(l2 - l) > 1e-9 * max(abs(l), 1e-9) + 1e-12:
        bad.append(('level round-trip', l, l2))
if bad:
    print('REPRODUCED:', bad); sys.exit(1)
sys.exit(0)
"""


def effective_argument(calls: List[Tuple[Any, Any]], var: Any) -> Any:
    """What the logarithm is taken of, whichever way the code writes it: one call log(q/q0), or two
    calls log(q) - log(q0) (then with the instance of ln(a/b) = ln a - ln b the obligations need).
    Returns (argument term, [axioms]) or None for any other shape."""
    from props.c01 import z3_vars

    if len(calls) == 1:
        return calls[0][0], []
    if len(calls) == 2:
        has = [any(v.eq(var) for v in z3_vars(c[0])) for c in calls]
        if has.count(True) == 1:
            num, den = (calls[0][0], calls[1][0]) if has[0] else (calls[1][0], calls[0][0])
            quot = z3.simplify(num / den)
            return quot, [LN(quot) == LN(z3.simplify(num)) - LN(z3.simplify(den)), den > 0]
    return None


def worker(task: List[Tuple]) -> Dict[str, Any]:
    orc = families.boot()
    n_ = ns()
    import measured

    acc = work.Acc()
    P = acc.P
    absz = lambda e: z3.If(e >= 0, e, -e)
    with symnum.Shims():
        for item in task:
            (lname, rc, qc, k_phys), earlier = item[:4], (item[4] if len(item) > 4 else None)
            lc = LOGS[lname]
            LG = eval(lc, n_)
            if earlier:
                # history: a level on another reference of the same family was asked for first
                try:
                    (1 * eval(earlier[1], n_)).level(LG[eval(earlier[0], n_)])
                except Exception:
                    pass
            ref = eval(rc, n_)
            LU = LG[ref]
            QU = eval(qc, n_)
            base = LG.base
            pfx = LG.prefix
            pv = Fraction(pfx.base) ** pfx.exponent if pfx.base else Fraction(1)
            refu = LU.reference  # unprefixed by the library
            rho = orc.ratio(QU, refu.unit)
            if rho is None:
                raise symnum.HarnessError(f"oracle cannot relate {qc} to the reference unit")
            r0 = Fraction(refu.magnitude)
            label = f"{lname}[{rc}] of {families.show(QU)}" + (f" after a level on {earlier[0]}" if earlier else "")
            rp = replay(lc, rc, qc, k_phys, earlier)

            def ask(cond: Any, goal: Any, name: str, sig: str) -> None:
                r, _ = P.check(cond, z3.Not(goal))
                st = "unsat" if r == "unsat" else ("unknown" if r == "unknown" else "sat")
                acc.ob(st, f"{label}:{name}", (label, name))
                if st == "sat":
                    # ln/exp are uninterpreted with instance axioms: a counterexample is a candidate
                    # that the replay on the real code confirms or not
                    acc.out["viol"].append((f"C18:{sig}:{lname}:{rc}:{qc}", f"{name} fails for {label}", rp, "soft"))

            # ---- level(x): closed form, monotone ---------------------------------------
            def f_level() -> Any:
                from measured import Quantity

                l1 = LU.level(Quantity(mk("float", X), QU))
                l2 = LU.level(Quantity(mk("float", X2), QU))
                return l1.magnitude, l2.magnitude, l1.unit

            ex = explore(f_level, assumptions=[X > 0, X2 > 0], max_paths=8)
            acc.explored(ex)
            oks = [p for p in ex.paths if p.exc is None]
            if len(oks) != 1 or len(ex.paths) != 1:
                acc.ob("sat", f"{label}:level-defined-for-positive", (label, "defined"))
                acc.out["viol"].append((f"C18:level-raises:{lname}:{rc}:{qc}",
                                        f"level() of a positive quantity raises/forks for {label}: "
                                        f"{[p.outcome for p in ex.paths]}", rp))
                continue
            p = oks[0]
            m1, m2, lu = p.result
            if lu is not LU:
                raise symnum.HarnessError("level unit identity")
            # the logarithm's argument for the first level() call (the calls of the second one,
            # on X2, come after it)
            eff = effective_argument(p.log_calls[:len(p.log_calls) // 2], X)
            if eff is None:
                acc.ob("unknown", f"{label}:the logarithm is taken in a form the harness does not recognise "
                                  f"({len(p.log_calls)} log calls)", (label, "shape"))
                continue
            arg1, ln_axioms = eff
            want_arg = symnum.q(rho[0] / r0) * X
            # (1) the argument of the logarithm is quantity/reference
            # (tolerance of the shipped definitions, as C04: redundant declaration chains such
            # as psi = 6894.757 Pa vs lbf/in**2 agree only to 1e-5 per degree)
            atol = symnum.q(Fraction(1, 10 ** 5) * orc.degree(QU, refu.unit))
            ask(p.cond, absz(arg1 - want_arg) <= atol * want_arg, "log-argument", "argument")
            # (2) magnitude == (k/prefix) * ln(arg)/ln(base), syntactically over ln
            lnb = LN(z3.simplify(real(symnum.q(base))))
            e_is_e = LN(symnum.E_CONST) == 1
            closed = symnum.q(Fraction(k_phys) / pv) * LN(z3.simplify(arg1)) / lnb
            ask(z3.And(p.cond, lnb != 0, e_is_e, *ln_axioms), absz(real(m1.t) - closed) <= symnum.q(REL) * absz(closed),
                "closed-form", "closed-form")
            # (3) strictly increasing
            ask(z3.And(p.cond, X < X2), real(m1.t) < real(m2.t), "strictly-increasing", "monotone")

            # ---- quantity -> level -> quantity (log space) -------------------------------
            def f_rt() -> Any:
                from measured import Quantity

                lv = LU.level(Quantity(mk("float", X), QU))
                q2 = lv.quantify()
                return q2.magnitude, q2.unit, (lv == q2), (q2 == lv)

            ex = explore(f_rt, assumptions=[X > 0], max_paths=16)
            acc.explored(ex)
            for i, p in enumerate(ex.paths):
                if p.exc is not None:
                    acc.ob("sat", f"{label}:round-trip#p{i}:raises", (label, "rt", i))
                    acc.out["viol"].append((f"C18:round-trip-raises:{lname}:{rc}:{qc}",
                                            f"{p.outcome} in level->quantity for {label}", rp))
                    continue
                qm, qu, e1, e2 = p.result
                # (Level.__eq__ may take logarithms of its own after the first level() call)
                ncalls = len(oks[0].log_calls) // 2
                eff = effective_argument(p.log_calls[:ncalls], X)
                if eff is None:
                    acc.ob("unknown", f"{label}:round-trip#p{i}: unrecognised logarithm form", (label, "rt", i))
                    continue
                arg, rt_axioms = eff
                lhs = LN(z3.simplify(real(qm.t) / symnum.q(r0)))
                rhs = LN(z3.simplify(arg))
                tol = symnum.q(Fraction(1, 2 ** 48)) * absz(rhs)
                ask(z3.And(p.cond, real(qm.t) / symnum.q(r0) == EXP(LN(real(qm.t) / symnum.q(r0))), *rt_axioms),
                    z3.And(real(qm.t) > 0, absz(lhs - rhs) <= tol), f"quantity-level-quantity#p{i}",
                    "round-trip")
                if qu is not refu.unit:
                    raise symnum.HarnessError("quantify() unit is not the reference unit")
                # a level equals the quantity it denotes, both ways round
                ask(p.cond, z3.And(bool_term(e1), bool_term(e2)), f"level-equals-its-quantity#p{i}",
                    "level-eq")

            # ---- level -> quantity -> level ----------------------------------------------
            def f_lrt() -> Any:
                lv = mk("float", L) * LU
                q = lv.quantify()
                return LU.level(q).magnitude

            ex = explore(f_lrt, assumptions=[L >= -200, L <= 200], max_paths=16)
            acc.explored(ex)
            for i, p in enumerate(ex.paths):
                if p.exc is not None:
                    acc.ob("sat", f"{label}:level-round-trip#p{i}:raises", (label, "lrt", i))
                    acc.out["viol"].append((f"C18:level-round-trip-raises:{lname}:{rc}:{qc}",
                                            f"{p.outcome} in quantity->level for {label}", rp))
                    continue
                m = p.result
                ask(z3.And(p.cond, lnb != 0, e_is_e), absz(real(m.t) - L) <= symnum.q(Fraction(1, 2 ** 46)) * absz(L),
                    f"level-quantity-level#p{i}", "level-round-trip")

            # ---- the same with a whole-number level written as an int ------------------------
            def f_lrt_int() -> Any:
                lv = mk("int", LI) * LU
                q = lv.quantify()
                return LU.level(q).magnitude

            ex = explore(f_lrt_int, assumptions=[LI >= -200, LI <= 200], max_paths=32)
            acc.explored(ex)
            for i, p in enumerate(ex.paths):
                if p.exc is not None:
                    acc.ob("sat", f"{label}:int-level-round-trip#p{i}:raises", (label, "lrti", i))
                    acc.out["viol"].append((f"C18:level-round-trip-raises:{lname}:{rc}:{qc}",
                                            f"{p.outcome} in level->quantity for an int level of {label}", rp))
                    continue
                m = p.result
                ask(z3.And(p.cond, lnb != 0, e_is_e),
                    absz(real(symnum.term(m)) - z3.ToReal(LI)) <= symnum.q(Fraction(1, 2 ** 46)) * absz(z3.ToReal(LI)),
                    f"int-level-quantity-level#p{i}", "level-round-trip")
            acc.sample({"config": label, "k": k_phys, "prefix": str(pv), "base": base})
    return acc.finish()


def tasks_for(tier: str) -> List[List[Tuple]]:
    names = list(LOGS) if tier == "thorough" else ["bel", "decibel", "neper", "octave", "semitone", "centibel", "base3"]
    refs = REFS if tier == "thorough" else REFS[:9]
    cfgs = [(ln_, rc, qc, k) for ln_ in names for (rc, qc, k) in refs]
    if tier != "thorough":
        # every reference dimension of the physical classification, under two families
        cfgs += [(ln_, rc, qc, k) for ln_ in ("decibel", "neper") for (rc, qc, k) in REFS[9:]]
    chunks = [ch for ch in par.chunks(cfgs, 32)]
    # histories: within one process, a power reference after a root-power reference of the same family
    # and the other way round (what was asked before must not change the answer)
    w, v = REFS[0], REFS[4]
    for ln_ in (("decibel", "neper", "semitone") if tier != "thorough" else names):
        chunks.append([(ln_, v[0], v[1], v[2], (w[0], w[1]))])
        chunks.append([(ln_, w[0], w[1], w[2], (v[0], v[1]))])
    return chunks


def main(tier: str, selftest_cases: int = 0) -> int:
    rep = report.Report(PID, tier, "other")
    tasks = families.shuffled(tasks_for(tier), rep.seed)
    results = par.run("props.c18", "worker", tasks)
    work.merge(rep, results)
    rep.functions.update(["measured.LogarithmicUnit.level", "measured.LogarithmicUnit.power_ratio",
                          "measured.Level.quantify", "measured.Level.__eq__", "measured.Quantity.__eq__",
                          "measured.Logarithm.__mul__", "measured.Logarithm.__getitem__",
                          "measured.LogarithmicUnit.__init__", "measured.conversions.convert",
                          "measured._mul", "measured._pow"])
    rep.coverage["configurations"] = sum(len(t) for t in tasks)
    rep.coverage["exhaustive"] = True
    rep.coverage["selftest_cases"] = selftest_cases
    rep.coverage["bounds"] = ("symbolic: x > 0 (all positive reals), level l in [-200, 200]. Enumerated: "
                              "logarithm families x (reference, quantity unit) listed in props/c18.py")
    rep.coverage["explanation"] = (
        "Real level()/quantify()/== on symbolic magnitudes with ln/exp uninterpreted (instance "
        "axioms exp(ln t)=t, ln(exp s)=s, monotone). z3 decides: the log argument equals "
        "quantity/reference (1e-12), magnitude == (k/prefix)*ln(arg)/ln(base) with k from physics "
        "(independent of ROOT_POWER_DIMENSIONS), strict monotonicity, both round trips in log "
        "space, and that a level equals the quantity it denotes in both argument orders.")
    rep.assumptions += [
        "ln/exp: uninterpreted functions with instance axioms; the step from log-space identity "
        "(factor within 2^-48) to linear-space identity for |l| <= 200 is the calculus bound "
        "|e^d - 1| <= 2|d|",
        "k (1 power / 2 root-power) per reference is the harness's physical classification",
    ]
    return rep.finish()
