"""C16 -- the checked-in generated parser implements exactly the grammar file (E3).

Inputs regenerated on every run: tables / terminals / rules / options of the shipped `_parser.py`
and of a fresh artefact produced by the Makefile's own command from `measured.lark`.
1. Terminals: z3 regex equivalence per terminal, equal priorities / flags / ignore set / lexer type.
2. Tables, unbounded: z3 searches a bijection between the two LALR automata preserving start and
   end states, every action and goto, and rule content -- `sat` means identical behaviour on every
   input.
3. Bounded, independent cross-check (and the source of counterexamples): z3 searches the synchronous
   product of the two automata for a pair of states, reachable by a path of grammar symbols, that
   disagrees on some symbol; the path is completed to a sentence, rendered to text and replayed
   through the real shipped parser and a real freshly generated parser.  (An unrolled stack driver
   was measured first: 80 s for 4 tokens, 420 s for 6 -- the product formulation takes seconds.)
"""

from __future__ import annotations

import os
import itertools
import time
from typing import Any, Dict, List, Optional, Tuple

import z3

from engine import parsertables as pt, report, symnum

PID = "C16"
WITNESS = {"SIGNED_INT": "5", "SIGNED_FLOAT": "5.5", "SYMBOL": "m", "CARAT_EXPONENT": "^2",
           "SUPERSCRIPT_EXPONENT": "²", "_MULTIPLY": "*", "_DIVIDE": "/"}


def render(tokens: List[str]) -> str:
    return " ".join(WITNESS[t] for t in tokens)


REPLAY_HEAD = f"""import importlib.util, os, subprocess, tempfile, shutil
from measured import _parser
tmp = tempfile.mkdtemp(prefix='c16-replay-')
try:
    src = subprocess.run([sys.executable, '-m', 'lark.tools.standalone', '--start', 'unit', '--start',
                          'quantity', os.environ.get('VERIF_REPO', '/repo') + '/src/measured/measured.lark'], capture_output=True, text=True, cwd=tmp)
    if src.returncode != 0:
        print('REPRODUCED: the grammar file does not build:', src.stderr[-300:]); sys.exit(1)
    open(os.path.join(tmp, 'fresh.py'), 'w').write(src.stdout)
    spec = importlib.util.spec_from_file_location('c16_fresh', os.path.join(tmp, 'fresh.py'))
    fresh = importlib.util.module_from_spec(spec); spec.loader.exec_module(fresh)
finally:
    shutil.rmtree(tmp, ignore_errors=True)
shipped_parser, fresh_parser = _parser.Parser(), fresh.Lark_StandAlone()
def norm(t):
    if hasattr(t, 'children'):
        return (str(t.data), tuple(norm(c) for c in t.children))
    return (getattr(t, 'type', None), str(t))
def run(p, text, start):
    try:
        return ('tree', repr(norm(p.parse(text, start=start))))
    except Exception as e:
        lark_error = any(c.__name__ == 'LarkError' for c in type(e).__mro__)
        return ('reject', '') if lark_error else ('crash', type(e).__name__)
"""


def replay(cases: List[Tuple[str, str]]) -> str:
    return REPLAY_HEAD + f"""
bad = []
for text, start in {cases!r}:
    a, b = run(shipped_parser, text, start), run(fresh_parser, text, start)
    print(repr(text), start, 'shipped:', a, ' grammar:', b)
    if a[0] != b[0] or (a[0] == 'tree' and a[1] != b[1]):
        bad.append(text)
if bad:
    print('REPRODUCED: the shipped parser and the grammar disagree on', bad); sys.exit(1)
sys.exit(0)
"""


def context_for(term: str, w: str) -> List[Tuple[str, str]]:
    if term == "SYMBOL":
        return [(w, "unit"), ("5 " + w, "quantity")]
    if term in ("CARAT_EXPONENT", "SUPERSCRIPT_EXPONENT"):
        return [("m" + w, "unit")]
    if term in ("SIGNED_INT", "SIGNED_FLOAT"):
        return [(w + " m", "quantity")]
    return [("m" + w + "m", "unit"), ("m " + w + " m", "unit")]


def main(tier: str, selftest_cases: int = 0) -> int:
    rep = report.Report(PID, tier, "proof")
    a = pt.load_shipped()
    b = pt.build_fresh()
    P = symnum.Prover(30000)
    # ---- 1. terminals and side conditions ---------------------------------------------
    side = {"terminal names": a.term_names == b.term_names, "ignore set": a.ignore == b.ignore,
            "lexer type": a.lexer_type == b.lexer_type, "start symbols": a.start == b.start,
            "options": a.option_subset == b.option_subset,
            "rule list (callbacks)": a.rule_list == b.rule_list and not a.rules_referenced_but_unlisted}
    # options that differ only in regex flags are decided by the terminal languages below, which are
    # taken under those flags
    differing = sorted(k for k in a.option_subset if a.option_subset.get(k) != b.option_subset.get(k))
    flags_only = bool(differing) and set(differing) <= {"g_regex_flags"}
    if flags_only:
        side["options"] = True
        rep.coverage["regex_flags"] = {"shipped": a.option_subset.get("g_regex_flags"),
                                       "grammar": b.option_subset.get("g_regex_flags")}
    for k, ok in side.items():
        rep.ob("unsat" if ok else "sat", f"side-condition:{k}", ("side", k))
        if not ok:
            rep.violation(f"C16:side:{k}", f"{k} differ between the shipped parser and the grammar: "
                          f"{getattr(a, 'term_names', None) if k == 'terminal names' else ''}",
                          replay([("m", "unit"), ("5 m", "quantity"), ("m^2/s", "unit"), ("5.5 m²⋅s", "quantity"),
                                  ("m*s/kg", "unit")]),
                          soft=True)   # a structural difference; the inputs that show it come from 3. and 4.
    s = z3.String("s")
    for name in sorted(set(a.term_names) & set(b.term_names)):
        ra, rb = pt.terminal_re(a, name), pt.terminal_re(b, name)
        st, m = P.check(z3.InRe(s, ra) != z3.InRe(s, rb), z3.Length(s) <= 12)
        meta = a.terminals[name][2:] == b.terminals[name][2:]
        if st == "unsat":
            st2, _ = P.check(z3.InRe(s, ra) != z3.InRe(s, rb))
            st = st2 if st2 != "sat" else "sat-long"
        ok = st == "unsat" and meta
        rep.ob("unsat" if ok else ("unknown" if st == "unknown" else "sat"),
               f"terminal:{name}: L(shipped) == L(grammar), equal priority and flags", ("term", name))
        if not ok and st != "unknown":
            w = pt.z3_string(m.eval(s, model_completion=True)) if m is not None else WITNESS.get(name, "m")
            rep.violation(f"C16:terminal:{name}", f"terminal {name} differs: shipped "
                          f"{a.terminals[name][1]!r} vs grammar {b.terminals[name][1]!r}; witness {w!r}",
                          replay(context_for(name, w)))
    rep.merge_stats(queries=P.asked, solver_s=P.solver_s)
    # ---- 2. isomorphism (unbounded) -----------------------------------------------------
    iso = pt.isomorphism(a, b)
    rep.merge_stats(queries=1, solver_s=iso.get("solver_s", 0.0))
    rule_sets = sorted(map(str, {a.rule_content(r) for r in a.rules} ^ {b.rule_content(r) for r in b.rules}))
    rep.coverage["isomorphism"] = {k: v for k, v in iso.items() if k != "pi"}
    rep.coverage["state_renaming_sample"] = dict(list(iso.get("pi", {}).items())[:6])
    if iso["result"] == "sat":
        rep.ob("unsat", "tables: the two LALR automata are isomorphic (bijection found by z3): identical "
                        "behaviour on every input", ("iso",))
        for sid in a.states:
            rep.ob("unsat", f"state {sid} -> {iso['pi'][sid]}: actions and gotos correspond", ("state", sid))
    elif iso["result"] == "unknown":
        rep.ob("unknown", "tables: isomorphism query undecided", ("iso",))
    # ---- 3. bounded model checking of the synchronous product of the two automata ------------
    K = 2 * max(len(a.states), len(b.states))
    terms = [t for t in a.term_names if t not in a.ignore]
    pr = pt.product_search(a, b, K, 120000 if tier == "quick" else 600000)
    rep.merge_stats(queries=2, solver_s=pr["solver_s"])
    if pr["witness"] != "sat":
        raise symnum.HarnessError("vacuous product encoding: no path of length 2 exists")
    rep.ob("unsat" if pr["result"] == "unsat" else ("unknown" if pr["result"] == "unknown" else "sat"),
           f"product: no pair of states reachable by <= {K} grammar symbols disagrees on any symbol", ("bmc",))
    rep.coverage["product_search"] = {k: v for k, v in pr.items()}
    if pr["result"] == "sat":
        prefix = pt.expand_path(b if pr["path"] and pr["path"][0] in b.nonterminals + b.term_names else a,
                                pr["path"], "$END")
        # the path is completed to a sentence that the two REAL parsers treat differently (the table
        # drivers also differ where only the names of helper rules do, which no input shows)
        found = None
        run_shipped, run_fresh = real_parsers(b)
        allterms = sorted(set(terms) | set(t for t in b.term_names if t not in b.ignore))
        for k in range(0, 5):
            for suffix in itertools.product(allterms, repeat=k):
                seq = prefix + list(suffix)
                if any(t not in WITNESS for t in seq):
                    continue
                if run_shipped(render(seq), pr["start"]) != run_fresh(render(seq), pr["start"]):
                    found = seq
                    break
            if found is not None:
                break
        if found is None:
            rep.ob("unknown", f"the product automata disagree after {pr['path']} on {pr['lookahead']}; no "
                              "completing input of <= 4 further tokens is treated differently by the real parsers",
                   ("bmc", "completion"))
        else:
            rep.violation("C16:tables", f"after {pr['path']} the shipped tables and the grammar disagree on "
                          f"{pr['lookahead']} (states {pr['states']}); distinguishing tokens {found}; "
                          f"differing rules: {rule_sets[:4]}", replay([(render(found), pr["start"])]))
    elif iso["result"] == "unsat":
        raise symnum.HarnessError("no isomorphism exists yet no reachable pair disagrees within the bound: "
                                  "unreachable states differ or the encoding is wrong")
    # ---- 4. differential parsing through the two REAL parsers (covers the embedded runtime) --
    # the shipped module embeds the lark runtime of the version that generated it, which cannot
    # be compared textually with today's lark; its behaviour is compared instead
    if rep.violations == 0:
        nd, bad = differential(a, b, 3 if tier == "quick" else 4)
        rep.obligations += nd
        rep.discharged += nd - len(bad)
        rep.nontrivial.update(("diff", i) for i in range(min(nd, 200)))
        rep.coverage["differential_inputs"] = nd
        if bad:
            rep.violation("C16:differential", f"{len(bad)} inputs are treated differently by the shipped parser "
                          f"and a parser built from the grammar, e.g. {bad[0]}",
                          # the shipped runtime is one long-lived object: each input is replayed under
                          # every start symbol in the order it was run here, so a difference that
                          # needs an earlier parse of the same text shows in the replay as well
                          replay([(t, s) for t in dict.fromkeys(t for t, _ in bad[:5]) for s in a.start]))
    # ---- driver / witness validation against the real parsers -----------------------------
    # (only meaningful while the shipped tables are sane: with a corrupt table the real parser
    # crashes where the reference driver rejects, and the violation is already reported)
    validated = validate_driver(a, terms) if rep.violations == 0 else 0
    rep.coverage["driver_validated_sequences"] = validated
    rep.sample({"terminals": {n: a.terminals[n][1] for n in a.term_names}})
    rep.sample({"rules": [str(a.rule_content(r)) for r in sorted(a.rules)][:6]})
    rep.functions.update(["measured._parser.DATA", "measured._parser.MEMO", "measured.measured.lark",
                          "Makefile rule src/measured/_parser.py", "lark.tools.standalone (fresh build)"])
    rep.coverage["selftest_cases"] = selftest_cases
    rep.coverage["checker_cmd"] = f"./check C16 --tier {tier}"
    rep.coverage["bounds"] = (f"isomorphism: unbounded (all inputs); product reachability: paths of <= {K} "
                              "grammar symbols (twice the number of states)")
    rep.coverage["explanation"] = (
        "Equal terminal languages (z3 regex equivalence) plus an isomorphism of the LALR automata "
        "(z3 finds the state renaming) imply identical accept/reject and identical trees for every "
        "input; bounded model checking of the synchronous product of the two automata (z3, "
        "symbolic path of grammar symbols) is an independent cross-check and the source of "
        "concrete counterexamples, which are completed to a sentence and replayed through the real "
        "shipped parser and a real freshly generated parser.")
    rep.assumptions += ["Lark's runtime classes embedded in _parser.py are trusted (only DATA/MEMO are compared)",
                        "the black/isort/sed post-processing of the Makefile rule does not change data"]
    return rep.finish()


def real_parsers(b: pt.Tables) -> Tuple[Any, Any]:
    """(text, start) -> outcome through the real shipped parser / a real freshly generated one."""
    from measured import _parser

    shipped, fresh = _parser.Parser(), b.module.Lark_StandAlone()  # type: ignore

    def norm(t: Any) -> Any:
        if hasattr(t, "children"):
            return (str(t.data), tuple(norm(c) for c in t.children))
        return (getattr(t, "type", None), str(t))

    def run(p: Any, text: str, start: str) -> Tuple[str, str]:
        try:
            return ("tree", repr(norm(p.parse(text, start=start))))
        except Exception as e:
            lark_error = any(c.__name__ == "LarkError" for c in type(e).__mro__)
            return ("reject", "") if lark_error else ("crash", type(e).__name__)

    return (lambda t, s: run(shipped, t, s)), (lambda t, s: run(fresh, t, s))


def differential(a: pt.Tables, b: pt.Tables, L: int) -> Tuple[int, List[Tuple[str, str]]]:
    """Every class word of length <= L (one representative per character class of the terminal
    regexes, plus token witnesses) through the real shipped parser and the real fresh parser."""
    from measured import _parser
    from props import c17

    classes, _ = c17.char_classes(a)
    reps = [r for _, _, r in classes] + ["m", "5", "²"]
    # the embedded runtime is code, not data: it may treat single characters specially (line and
    # column bookkeeping looks at newlines, tabs, ...), so every member of a small class is tried,
    # not only its representative
    for _, ranges, _ in classes:
        if sum(hi - lo + 1 for lo, hi in ranges) <= 8:
            reps += [chr(c) for lo, hi in ranges for c in range(lo, hi + 1)]
    reps = list(dict.fromkeys(reps))
    shipped, fresh = _parser.Parser(), b.module.Lark_StandAlone()  # type: ignore

    def norm(t: Any) -> Any:
        # the rule name is a Token('RULE', ...) in the shipped (older) runtime and a str in today's
        if hasattr(t, "children"):
            return (str(t.data), tuple(norm(c) for c in t.children))
        return (getattr(t, "type", None), str(t))

    def run(p: Any, text: str, start: str) -> Tuple[str, str]:
        try:
            return ("tree", repr(norm(p.parse(text, start=start))))
        except Exception as e:
            # which LarkError subclass reports a rejection differs between lark versions
            lark_error = any(c.__name__ == "LarkError" for c in type(e).__mro__)
            return ("reject", "") if lark_error else ("crash", type(e).__name__)

    n, bad = 0, []
    for k in range(0, L + 1):
        for w in itertools.product(reps, repeat=k):
            text = "".join(w)
            for start in a.start:
                n += 1
                if run(shipped, text, start) != run(fresh, text, start):
                    bad.append((text, start))
    # longer structured inputs from token witnesses
    toks = list(WITNESS.values())
    seps = [" ", "\t", "\n", " \t ", "\r\n", "\x0c"]
    for k in range(4, 7):
        for j, w in enumerate(itertools.islice(itertools.product(toks, repeat=k), 0, 4000)):
            text = seps[j % len(seps)].join(w)
            for start in a.start:
                n += 1
                if run(shipped, text, start) != run(fresh, text, start):
                    bad.append((text, start))
    return n, bad


def validate_driver(a: pt.Tables, terms: List[str]) -> int:
    """All token sequences of length <= 3: the rendered text through the real shipped parser vs
    the plain-Python driver over the table data."""
    from measured import _parser

    real = _parser.Parser()
    n = 0
    for start in a.start:
        for k in range(0, 4):
            for seq in itertools.product(terms, repeat=k):
                text = render(list(seq))
                try:
                    real.parse(text, start=start)
                    got = "accept"
                except _parser.LarkError:
                    got = "reject"
                except Exception:
                    got = "crash"
                want, _ = pt.python_driver(a, start, list(seq))
                if got != want:
                    raise symnum.HarnessError(f"driver/witness validation: {seq} ({text!r}, start={start}): "
                                              f"real parser {got}, table driver {want}")
                n += 1
    return n
