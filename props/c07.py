"""C07 -- impossible conversions fail only with ConversionNotFound, with or without -O (E1).

(a) Every symbolic run of in_unit / + / - / == / < / <= / > / >= over the pair families records
    how each path ends; allowed: a Quantity or ConversionNotFound (in_unit, +, -), a Boolean
    (==), a Boolean or TypeError (orderings).  Anything else escaping is a violation for every
    magnitude on that path.
(b) The same configuration list is executed by workers started with `python -O`; outcomes must
    agree and z3 decides `forall x, y: result_O == result` on the shipped terms.
"""

from __future__ import annotations

import os
import pickle
import subprocess
import sys
import tempfile
from concurrent.futures import ThreadPoolExecutor
from fractions import Fraction
from typing import Any, Dict, List, Optional, Tuple

import z3

from engine import families, par, report, symnum, work
from engine.symnum import bool_term, explore, mk, real, var
from props import conv_common as cc

PID = "C07"

UNCONV_SRC = '''
import measured
from measured import (Length, Time, Mass, Area, Volume, Speed, Force, Pressure, Number, One)
from measured.si import Meter, Second, Kilogram
from measured.us import Foot
def U(dim, name):
    return dim.unit(name, name)
Xa = U(Length, "wXa"); Xb = U(Length, "wXb"); Xg = U(Length, "wXg")
Xc = U(Area, "wXc"); Xd = U(Area, "wXd"); Xe = U(Area, "wXe")
Xd.equals(3 * Xa**2); Xe.equals(1 * Xd)
Xt = U(Time, "wXt"); Xs = U(Speed, "wXs"); Xm = U(Mass, "wXm")
Xf = U(Force, "wXf"); Xf.equals(2 * Xm * Xa / Xt**2)
Xp = U(Pressure, "wXp")
Xv = U(Volume, "wXv"); Xv.equals(5 * Xa * Xc)
Xg.equals(2 * Meter)
Jib = U(Length, "wJib"); Job = U(Length, "wJob")
Na = U(Number, "wNa"); Nb = U(Number, "wNb")        # two dimensionless units nobody related to anything
# prefixes whose value leaves the range of a double (10**-336 is 0.0, 10**336 does not convert)
Big = measured.Prefix(10, 336); Tiny = measured.Prefix(10, -336); Edge = measured.Prefix(10, -324)
'''

UNCONV_PAIRS = [
    ("Xa", "Xb"), ("Xb", "Xa"), ("Xa**2", "Xc"), ("Xc", "Xa**2"), ("Xd", "Xa**2"), ("Xa**2", "Xd"),
    ("Xe", "Xa**2"), ("Xe", "Xb**2"), ("Xa*Xt", "Xb*Xt"), ("Xa/Xt", "Xs"), ("Xs", "Xb/Xt"),
    ("Xf", "Xm*Xb/Xt**2"), ("Xf", "Xm*Xa/Xt**2"), ("Xf/Xa**2", "Xp"), ("Xp", "Xf/Xb**2"),
    ("Jib/Job", "One"), ("One", "Jib/Job"), ("Jib/Job", "Job/Jib"), ("Xa**-1", "Xb**-1"),
    ("Xa**2/Xb", "Xb"), ("Xc/Xa", "Xa"), ("Xd/Xa", "Xb"), ("Xd/Xa", "Xa"), ("Xa*Xb", "Xc"),
    ("Xc**2", "Xa**4"), ("Xd**2", "Xa**4"), ("Xa", "Meter"), ("Meter", "Xa"), ("Xg", "Foot"),
    ("Foot", "Xg"), ("Meter*Xa", "Foot*Xb"), ("Meter*Xa", "Foot*Xa"), ("Meter/Xt", "Foot/Second"),
    ("Xv", "Xa**3"), ("Xv", "Xa*Xc"), ("Xa*Xc", "Xv"), ("Xv", "Xb*Xc"), ("Xv/Xc", "Xa"),
    ("Xm*Xg/Second**2", "Kilogram*Meter/Second**2"), ("Xf*Xa", "Xm*Xa**2/Xt**2"),
    ("Xp*Xc", "Xf"), ("Xp*Xd", "Xf"), ("Xs*Xt", "Xa"), ("Xs*Xt", "Xb"), ("Xc*Xd", "Xa**4"),
    ("Xa", "Tiny*Xb"), ("Big*Xa", "Xb"), ("Tiny*Xa", "Xb"), ("Xa", "Big*Xb"), ("Xa", "Edge*Xb"),
    ("Meter", "Tiny*Foot"), ("Big*Meter", "Foot"), ("Xg", "Tiny*Foot"),
    ("Na", "Nb"), ("Nb", "Na"), ("Na*Meter", "Nb*Meter"), ("Na/Second", "Nb/Second"), ("Na*Xa", "Nb*Xa"),
]
# pairs of the family between which NO chain of declarations exists: converting must fail (with
# ConversionNotFound), == must be False and the orderings must raise TypeError -- never a value
IMPOSSIBLE = {("Xa", "Xb"), ("Xb", "Xa"), ("Xa**2", "Xc"), ("Xc", "Xa**2"), ("Xe", "Xb**2"), ("Xa*Xt", "Xb*Xt"),
              ("Xs", "Xb/Xt"), ("Xf", "Xm*Xb/Xt**2"), ("Xp", "Xf/Xb**2"), ("Xa**-1", "Xb**-1"), ("Xa", "Meter"),
              ("Meter", "Xa"), ("Meter*Xa", "Foot*Xb"), ("Xv", "Xb*Xc"), ("Xs*Xt", "Xb"),
              ("Na", "Nb"), ("Nb", "Na"), ("Na*Meter", "Nb*Meter"), ("Na/Second", "Nb/Second"), ("Na*Xa", "Nb*Xa")}

OPS = ("in_unit", "add", "sub", "eq", "lt", "le", "gt", "ge")
ALLOWED = {
    "in_unit": {"ConversionNotFound"}, "add": {"ConversionNotFound"},
    "sub": {"ConversionNotFound"}, "eq": set(),
    "lt": {"TypeError"}, "le": {"TypeError"}, "gt": {"TypeError"}, "ge": {"TypeError"},
}
# the same comparisons with the other operand a Level (20 dB re 1 V: it denotes 100 V, or 10 V for a
# root-power reference), in both operand orders
LEVEL_OPS = ("eq_lv", "lt_lv", "le_lv", "gt_lv", "ge_lv", "lv_eq", "lv_lt", "lv_ge")
BASE_OP = {o: o.replace("_lv", "").replace("lv_", "") for o in LEVEL_OPS}
ALLOWED.update({o: ALLOWED[b] for o, b in BASE_OP.items()})
X, Y = z3.Real("x"), z3.Real("y")


def run_op(op: str, u: Any, v: Any) -> Dict[str, Any]:
    """One symbolic run; returns a picklable summary of all paths."""
    def fn() -> Any:
        from measured import Quantity

        a, b = Quantity(mk("float", X), u), Quantity(mk("float", Y), v)
        if op == "in_unit":
            return a.in_unit(v)
        if op in BASE_OP:
            import measured
            import operator

            lv = measured.Level(20.0, measured.Decibel[1 * v])
            f = getattr(operator, BASE_OP[op])
            return f(a, lv) if op.endswith("_lv") else f(lv, a)
        return {"add": lambda: a + b, "sub": lambda: a - b, "eq": lambda: a == b,
                "lt": lambda: a < b, "le": lambda: a <= b, "gt": lambda: a > b,
                "ge": lambda: a >= b}[op]()

    # CPython's numeric range matters here: which exception escapes is the subject
    symnum.FLOAT_RANGE[0] = True
    try:
        ex = explore(fn, max_paths=32)
    finally:
        symnum.FLOAT_RANGE[0] = False
    if not ex.complete:
        raise symnum.HarnessError("path limit")
    paths = []
    for p in ex.paths:
        pc = z3.simplify(z3.And(*p.pc)) if p.pc else z3.BoolVal(True)
        if p.exc is not None:
            paths.append(("exc", pc.sexpr(), type(p.exc).__name__, str(p.exc)[:120]))
        elif op in ("in_unit", "add", "sub"):
            res = p.result
            mag = res.magnitude
            t = real(mag.t) if symnum.is_sym(mag) else symnum.q(mag)
            unit_ok = res.unit is (v if op == "in_unit" else u)
            paths.append(("num", pc.sexpr(), z3.simplify(t).sexpr(), unit_ok))
        else:
            paths.append(("bool", pc.sexpr(), z3.simplify(bool_term(p.result)).sexpr(), True))
    return {"paths": paths, "n": len(ex.paths), "queries": ex.queries, "solver_s": ex.solver_s}


def sub_worker(task: Tuple) -> Dict[str, Any]:
    """Runs in normal mode (pool) and in -O mode (subprocess); no verdicts here."""
    mode, items, ops = task
    out: Dict[str, Any] = {"optimize": sys.flags.optimize, "results": [], "paths": 0,
                           "queries": 0, "solver_s": 0.0}
    if mode == "unconv":
        ns: Dict[str, Any] = {}
        exec(UNCONV_SRC, ns)
        with symnum.Shims():
            for (s, d) in items:
                u, v = eval(s, {}, ns), eval(d, {}, ns)
                if u.dimension is not v.dimension:
                    raise symnum.HarnessError(f"unconvertible family pair {s},{d}: dimensions differ")
                for op in ops:
                    r = run_op(op, u, v)
                    out["results"].append(((s, d), op, r["paths"]))
                    out["paths"] += r["n"]
                    out["queries"] += r["queries"]
                    out["solver_s"] += r["solver_s"]
        return out
    families.boot()
    with symnum.Shims():
        for (ss, ds) in items:
            u, v = families.unit_of(ss), families.unit_of(ds)
            for op in ops:
                r = run_op(op, u, v)
                out["results"].append(((ss, ds), op, r["paths"]))
                out["paths"] += r["n"]
                out["queries"] += r["queries"]
                out["solver_s"] += r["solver_s"]
    return out


def run_optimized(tasks: List[Tuple], nproc: int = 8) -> List[Dict[str, Any]]:
    """The same tasks under `python -O` (fresh interpreter per task)."""
    tmp = tempfile.mkdtemp(prefix="c07-")

    def one(i_task: Tuple[int, Tuple]) -> Dict[str, Any]:
        i, task = i_task
        fin, fout = os.path.join(tmp, f"in{i}.pkl"), os.path.join(tmp, f"out{i}.pkl")
        with open(fin, "wb") as f:
            pickle.dump(task, f)
        env = dict(os.environ)
        env.pop("PYTHONOPTIMIZE", None)
        p = subprocess.run([sys.executable, "-O", "-m", "props.c07", "--sub", fin, fout],
                           cwd=report.ROOT, capture_output=True, text=True, env=env, timeout=1800)
        if p.returncode != 0:
            raise symnum.HarnessError(f"-O worker failed: {p.stderr[-800:]}")
        with open(fout, "rb") as f:
            return pickle.load(f)

    try:
        with ThreadPoolExecutor(nproc) as tp:
            return list(tp.map(one, enumerate(tasks)))
    finally:
        import shutil

        shutil.rmtree(tmp, ignore_errors=True)


def parse(sx: str, sort: str = "bool") -> Any:
    decls = "(declare-const x Real) (declare-const y Real)"
    if sort == "bool":
        return z3.parse_smt2_string(f"{decls} (assert {sx})")[0]
    return z3.parse_smt2_string(f"{decls} (assert (= {sx} 0.0))")[0].arg(0)


def label_of(mode: str, pair: Tuple) -> Tuple[str, str, str, str]:
    if mode == "unconv":
        return f"{pair[0]}->{pair[1]}", pair[0], pair[1], UNCONV_SRC
    u, v = families.unit_of(pair[0]), families.unit_of(pair[1])
    return f"{families.show(u)}->{families.show(v)}", families.code(u), families.code(v), ""


def replay_body(op: str, cu: str, cv: str, prelude: str, xv: float, yv: float,
                optimized: bool = False) -> str:
    expr = {"in_unit": "(x * U).in_unit(V)", "add": "(x * U) + (y * V)", "sub": "(x * U) - (y * V)",
            "eq": "(x * U) == (y * V)", "lt": "(x * U) < (y * V)", "le": "(x * U) <= (y * V)",
            "gt": "(x * U) > (y * V)", "ge": "(x * U) >= (y * V)",
            **{o: (f"operator.{b}(x * U, measured.Level(20.0, measured.Decibel[1 * V]))" if o.endswith("_lv") else
                   f"operator.{b}(measured.Level(20.0, measured.Decibel[1 * V]), x * U)") for o, b in BASE_OP.items()}}[op]
    allowed = sorted(ALLOWED[op])
    body = families.REPLAY_IMPORTS + prelude + f"""
import subprocess, operator
U, V = {cu}, {cv}
x, y = {xv!r}, {yv!r}
def outcome():
    try:
        r = {expr}
        return ('ok', repr(r))
    except Exception as e:
        return ('exc', type(e).__name__)
o = outcome()
print('python optimize =', sys.flags.optimize, '->', o)
if '--inner' in sys.argv:
    sys.exit(0)
if o[0] == 'exc' and o[1] not in {allowed!r}:
    print('REPRODUCED: ' + o[1] + ' escapes from {op}'); sys.exit(1)
# the same under python -O
p = subprocess.run([sys.executable, '-O', __file__, '--inner'], capture_output=True, text=True)
line = [l for l in p.stdout.splitlines() if l.startswith('python optimize')][-1]
print(line)
if line.split('->', 1)[1].strip() != str(o):
    print('REPRODUCED: outcome differs under python -O'); sys.exit(1)
sys.exit(0)
"""
    return body


def judge(rep: report.Report, mode: str, normal: Dict[str, Any], opt: Dict[str, Any]) -> None:
    if opt["optimize"] < 1 or normal["optimize"] != 0:
        raise symnum.HarnessError("interpreter modes are not (normal, -O)")
    if len(normal["results"]) != len(opt["results"]):
        raise symnum.HarnessError("normal and -O workers produced different result counts")
    P = symnum.Prover(10000)
    for (pair, op, paths), (pair2, op2, paths2) in zip(normal["results"], opt["results"]):
        if pair != pair2 or op != op2:
            raise symnum.HarnessError("normal and -O results are misaligned")
        lab, cu, cv, prelude = label_of(mode, pair)
        name = f"{lab}:{op}"
        key = (lab, op)
        # (a) allowed outcomes, in both modes
        for which, pp in (("normal", paths), ("-O", paths2)):
            bad = [p for p in pp if p[0] == "exc" and p[2] not in ALLOWED[op]]
            badunit = [p for p in pp if p[0] == "num" and not p[3]]
            if not bad and not badunit:
                rep.ob("unsat", f"{name}:{which}:outcomes-allowed", key)
                continue
            rep.ob("sat", f"{name}:{which}:outcomes-allowed", key)
            pcx = parse((bad or badunit)[0][1])
            m = P.shaped_model([pcx], [X, Y]) or {"x": Fraction(1), "y": Fraction(1)}
            exn = bad[0][2] if bad else "wrong-unit"
            extreme = any(t in lab for t in ("Big*", "Tiny*", "Edge*"))
            sig = f"C07:{exn}:{lab}:{op}"
            if extreme and exn in ("OverflowError", "ZeroDivisionError"):
                # one finding per exception for prefixes outside the range of a double
                sig = f"C07:prefix-outside-double-range:{exn}"
            rep.violation(sig,
                          f"{exn} escapes from {op} on {lab} ({which} mode): "
                          f"{bad[0][3] if bad else ''}",
                          replay_body(op, cu, cv, prelude, float(m["x"]), float(m["y"])))
        # (a') an impossible conversion never yields a value
        if mode == "unconv" and tuple(pair) in IMPOSSIBLE:
            for which, pp in (("normal", paths), ("-O", paths2)):
                if op in ("in_unit", "add", "sub"):
                    wrong = [p for p in pp if p[0] == "num"]
                elif BASE_OP.get(op, op) == "eq":
                    wrong = [p for p in pp if p[0] == "bool" and P.check(parse(p[1]), parse(p[2]))[0] != "unsat"]
                else:
                    wrong = [p for p in pp if p[0] == "bool"]
                rep.ob("unsat" if not wrong else "sat", f"{name}:{which}:impossible-conversion-yields-no-value", key)
                if wrong:
                    m = P.shaped_model([parse(wrong[0][1])], [X, Y]) or {"x": Fraction(1), "y": Fraction(1)}
                    body = replay_body(op, cu, cv, prelude, float(m["x"]), float(m["y"])).replace(
                        "if o[0] == 'exc' and o[1] not in",
                        "if o[0] == 'ok' and not (" + repr(BASE_OP.get(op, op)) + " == 'eq' and o[1] == 'False'):\n"
                        "    print('REPRODUCED: an impossible conversion yields a value:', o); sys.exit(1)\n"
                        "if o[0] == 'exc' and o[1] not in")
                    rep.violation(f"C07:impossible-yields-a-value:{lab}:{op}",
                                  f"{op} on {lab} ({which} mode) returns a value although no chain of declarations "
                                  f"relates the two units", body)
                    break
        # (b) -O changes nothing: same regions, same values
        def regions(pp: List[Tuple]) -> Dict[str, Any]:
            reg: Dict[str, Any] = {}
            for p in pp:
                k = "exc:" + p[2] if p[0] == "exc" else p[0]
                reg.setdefault(k, []).append(p)
            return reg

        r1, r2 = regions(paths), regions(paths2)
        same = set(r1) == set(r2)
        witness = None
        fragile = False
        if same:
            for k in r1:
                c1 = z3.Or(*[parse(p[1]) for p in r1[k]])
                c2 = z3.Or(*[parse(p[1]) for p in r2[k]])
                st, mdl = P.check(z3.Xor(c1, c2))
                if st != "unsat":
                    same, witness = False, mdl
                    break
                if k == "num":
                    for p in r1[k]:
                        for q_ in r2[k]:
                            st, mdl = P.check(parse(p[1]), parse(q_[1]),
                                              parse(p[2], "num") != parse(q_[2], "num"))
                            if st != "unsat":
                                same, witness = False, mdl
                elif k == "bool":
                    t1 = z3.Or(*[z3.And(parse(p[1]), parse(p[2])) for p in r1[k]])
                    t2 = z3.Or(*[z3.And(parse(p[1]), parse(p[2])) for p in r2[k]])
                    st, mdl = P.check(z3.Xor(t1, t2))
                    if st != "unsat":
                        same, witness = False, mdl
                        # an exact equality of floats rarely survives rounding the model: prefer
                        # the witness at zero, which is exact in every representation
                        st0, mdl0 = P.check(z3.Xor(t1, t2), X == 0, Y == 0)
                        if st0 == "sat":
                            witness = mdl0
                        else:
                            fragile = True
        if same:
            rep.ob("unsat", f"{name}:same-under-O", key)
        else:
            rep.ob("sat", f"{name}:same-under-O", key)
            xv = float(symnum.model_value(witness, X)) if witness is not None else 1.0
            yv = float(symnum.model_value(witness, Y)) if witness is not None else 1.0
            rep.violation(f"C07:optimize-differs:{lab}:{op}",
                          f"{op} on {lab} behaves differently under python -O "
                          f"({sorted(r1)} vs {sorted(r2)})",
                          replay_body(op, cu, cv, prelude, xv if witness is not None else 1.0,
                                      yv if witness is not None else 1.0),
                          soft=fragile)
    rep.merge_stats(queries=normal["queries"] + opt["queries"] + P.asked,
                    solver_s=normal["solver_s"] + opt["solver_s"] + P.solver_s,
                    paths=normal["paths"] + opt["paths"])


def tasks_for(tier: str) -> List[Tuple]:
    families.boot()
    named = cc.named_pair_specs()
    comp = cc.compound_pair_specs(2 if tier == "quick" else 3, core_only=True,
                                  limit=400 if tier == "quick" else 3000, seed=1)
    tasks: List[Tuple] = []
    conv_only = named if tier == "thorough" else named[::2]
    tasks += [("shipped", ch, ("in_unit",)) for ch in par.chunks(conv_only, 24)]
    full = (named[::16] + comp[::4]) if tier == "quick" else (named[::3] + comp)
    tasks += [("shipped", ch, OPS) for ch in par.chunks(full, 24)]
    tasks += [("shipped", ch, ("in_unit",)) for ch in par.chunks(comp, 8)]
    return tasks


def main(tier: str, selftest_cases: int = 0) -> int:
    rep = report.Report(PID, tier, "other")
    tasks = families.shuffled(tasks_for(tier), rep.seed)
    utasks = [("unconv", ch, OPS) for ch in par.chunks(UNCONV_PAIRS, 6)]
    lv_pairs = [p for p in UNCONV_PAIRS if not any(t in p[0] + p[1] for t in ("Big", "Tiny", "Edge"))]
    utasks += [("unconv", ch, LEVEL_OPS) for ch in par.chunks(lv_pairs[::2] if tier == "quick" else lv_pairs, 6)]
    # one fresh interpreter per task in BOTH modes: the planner's outcome can depend on the
    # order in which a unit's factors were first multiplied together in the process (a C08
    # finding), so the two modes must see identical histories to be comparable
    normal = par.run("props.c07", "sub_worker", tasks, maxtasksperchild=1)
    normal_u = par.run("props.c07", "sub_worker", utasks, maxtasksperchild=1)
    optim = run_optimized(tasks + utasks, nproc=16)
    for t, n, o in zip(tasks + utasks, normal + normal_u, optim):
        judge(rep, t[0], n, o)
    rep.sample({"pair": UNCONV_PAIRS[0], "ops": list(OPS)})
    rep.sample({"shipped_task": [families.show(families.unit_of(s)) for s in tasks[0][1][0]],
                "ops": list(tasks[0][2])})
    rep.functions.update(cc.FUNCTIONS + ["measured.Quantity.__add__", "measured.Quantity.__sub__",
                                         "measured.Quantity.__eq__", "measured.Quantity.__lt__",
                                         "functools.total_ordering derived orderings"])
    rep.coverage["pairs_shipped"] = sum(len(t[1]) for t in tasks)
    rep.coverage["pairs_unconvertible_family"] = len(UNCONV_PAIRS)
    rep.coverage["selftest_cases"] = selftest_cases
    rep.coverage["interpreter_modes"] = ["python", "python -O"]
    rep.coverage["bounds"] = (
        "symbolic: both magnitudes (all reals). Enumerated: named offset-free pairs of equal "
        "dimension (quick: every second pair for in_unit, every 16th for the full operator set; "
        "thorough: all / every third), a fixed compound family, and a fresh family of "
        f"{len(UNCONV_PAIRS)} unconvertible / partially connected / product-defined pairs; "
        "operators in_unit + - == < <= > >=; both interpreter modes.")
    rep.coverage["explanation"] = (
        "Every path of every real operator run on symbolic magnitudes must end in an allowed "
        "outcome, for every magnitude on the path; the same runs under `python -O` must have the "
        "same outcome regions and z3 decides forall x,y that the returned terms/truth values are "
        "equal. The planner's branching on unit structure is enumerated, not symbolic.")
    rep.assumptions += ["exact real arithmetic over the binary constants in _ratios",
                        "planner control flow depends on unit objects only"]
    return rep.finish()


if __name__ == "__main__":
    if len(sys.argv) == 4 and sys.argv[1] == "--sub":
        with open(sys.argv[2], "rb") as f:
            task = pickle.load(f)
        res = sub_worker(task)
        with open(sys.argv[3], "wb") as f:
            pickle.dump(res, f)
        sys.exit(0)
