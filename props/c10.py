"""C10 -- temperature scales convert by their exact affine definitions (E1).

Symbolic: the magnitude (int / float / Decimal kinds), no precondition (values below absolute
zero included).  Enumerated: 12 ordered pairs of {K, degC, degF, R} x registered SI prefix on the
source x on the target.  Oracle: exact rational affine maps through kelvin built from the
*recorded declarations* (273.15, 459.67, 5/9 as the binary doubles in the source).
"""

from __future__ import annotations

import itertools
from fractions import Fraction
from typing import Any, Dict, List, Optional, Tuple

import z3

from engine import convterm, families, par, report, symnum, work
from engine.symnum import bool_term, explore, mk, real, var
from props import conv_common as cc

PID = "C10"
SCALES = ["kelvin", "celsius", "fahrenheit", "Rankine"]
REL = Fraction(1, 10 ** 9)


def to_kelvin_maps(orc: Any) -> Dict[str, Tuple[Fraction, Fraction]]:
    """name -> (a, b) with K = a*x + b, derived from the recorded declarations only."""
    import measured

    U = measured.Unit._by_name
    maps: Dict[str, Tuple[Fraction, Fraction]] = {"kelvin": (Fraction(1), Fraction(0))}
    pending = list(orc.decls)
    for _ in range(4):
        for d in pending:
            an, bn = d.a_unit.name, d.b_unit.name
            if d.kind == "equate" and {an, bn} <= set(SCALES):
                # a_mag * A = b_mag * B (offset free): x_A degrees = x_A * (b_mag/a_mag) B-degrees
                r = Fraction(d.b_mag) / Fraction(d.a_mag)
                if bn in maps and an not in maps:
                    a, b = maps[bn]
                    maps[an] = (a * r, b)
                elif an in maps and bn not in maps:
                    a, b = maps[an]
                    maps[bn] = (a / r, b)
            elif d.kind == "translate" and {an, bn} <= set(SCALES):
                # scale A has its zero at b_mag B:  x_B = x_A + b_mag
                z = Fraction(d.b_mag)
                if bn in maps and an not in maps:
                    a, b = maps[bn]
                    maps[an] = (a, a * z + b)
    if set(maps) != set(SCALES):
        raise symnum.HarnessError(f"temperature declarations incomplete: {sorted(maps)}")
    return maps


def oracle_map(maps: Dict[str, Tuple[Fraction, Fraction]], s: str, ps: Fraction, d: str,
               pd: Fraction) -> Tuple[Fraction, Fraction]:
    """(C, D) with target = C*m + D for m in (ps*s) converted to (pd*d)."""
    a1, b1 = maps[s]
    a2, b2 = maps[d]
    # K = a1*(m*ps) + b1 ; y_base = (K - b2)/a2 ; y = y_base / pd
    return a1 * ps / a2 / pd, (b1 - b2) / a2 / pd


def unit_code(name: str, prefix: Optional[str]) -> str:
    u = f"measured.Unit.named({name!r})"
    return u if prefix is None else f"(measured.si.{prefix} * {u})"


FURTHER = [False]


def replay(sc: str, dc: str, C: Fraction, D: Fraction, what: str, kind: str = "float",
           extra: Tuple = ()) -> str:
    mags = {"float": "(300.0, 0.0, -40.0, 1.5, -1000.0)",
            "int": "(300, 0, -40, 2, -1000)",
            "dec": "(Decimal('300'), Decimal('0'), Decimal('-40'), Decimal('1.5'), Decimal('-1000'))"}[kind]
    if extra:
        # a conversion that branches on the magnitude: one magnitude per branch (solver models)
        from engine.work import lit

        mags = mags[:-1] + ", " + ", ".join(lit(kind, f) for f in extra) + ")"
    pre = """
from measured import Temperature
Temperature.scale(100 * measured.si.Kelvin, "c10 scale on kelvin", "c10sk")
Temperature.scale(50 * measured.us.Rankine, "c10 scale on rankine", "c10sr")
Temperature.scale(-5 * measured.si.Kelvin, "c10 second scale on kelvin", "c10sk2")
""" if FURTHER[0] else ""
    return families.REPLAY_IMPORTS + pre + f"""
from decimal import Decimal
src, dst = {sc}, {dc}
C, D = {float(C)!r}, {float(D)!r}   # exact affine definition through kelvin: target = C*m + D
bad = []
for m in {mags}:   # magnitudes of the numeric type the obligation was about
    got = (m * src).in_unit(dst)
    if isinstance(m, Decimal) and isinstance(got.magnitude, Decimal) and {bool(extra)!r}:
        # Decimal arithmetic carries 28 digits: against the exact rational definition
        from fractions import Fraction
        CE, DE = Fraction({C.numerator}, {C.denominator}), Fraction({D.numerator}, {D.denominator})
        wantE = CE * Fraction(m) + DE
        if abs(Fraction(got.magnitude) - wantE) > Fraction(1, 10 ** 15) * (abs(CE * Fraction(m)) + abs(DE)):
            bad.append(('value (Decimal, exact definition)', str(m), str(got.magnitude), float(wantE)))
    m = float(m)
    want = C * m + D
    back = got.in_unit(src)
    print(m, src, '->', got, ' definition:', want, ' back:', back)
    if got.unit is not dst or abs(float(got.magnitude) - want) > 1e-7 * (abs(C * m) + abs(D) + 1e-30):
        bad.append(('value', m, float(got.magnitude), want))
    if abs(float(back.magnitude) - m) > 1e-7 * (abs(m) + abs(D / C) + 1e-30):
        bad.append(('roundtrip', m, float(back.magnitude)))
if bad:
    print('REPRODUCED ({what}):', bad); sys.exit(1)
sys.exit(0)
"""


def cmp_replay(sc: str, dc: str, a1: Fraction, b1: Fraction, a2: Fraction, b2: Fraction,
               xv: Fraction, yv: Fraction) -> str:
    pre = """
from measured import Temperature
Temperature.scale(100 * measured.si.Kelvin, "c10 scale on kelvin", "c10sk")
Temperature.scale(50 * measured.us.Rankine, "c10 scale on rankine", "c10sr")
Temperature.scale(-5 * measured.si.Kelvin, "c10 second scale on kelvin", "c10sk2")
""" if FURTHER[0] else ""
    return families.REPLAY_IMPORTS + pre + f"""
U, V = {sc}, {dc}
x, y = {float(xv)!r}, {float(yv)!r}
KX, KY = {float(a1)!r} * x + {float(b1)!r}, {float(a2)!r} * y + {float(b2)!r}
a, b = x * U, y * V
obs = dict(eq=(a == b), lt=(a < b), gt=(a > b))
print(a, b, 'kelvin values', KX, KY, obs)
if abs(KX - KY) <= 4 * {float(REL)!r} * (abs(KX) + abs(KY) + 1):
    print('tie zone'); sys.exit(0)
want = dict(eq=False, lt=KX < KY, gt=KX > KY)
if any(bool(obs[k]) != want[k] for k in obs):
    print('REPRODUCED: comparison across scales disagrees with kelvin values'); sys.exit(1)
sys.exit(0)
"""


def worker(task: Tuple) -> Dict[str, Any]:
    items, kind, with_cmp = task[:3]
    orc = families.boot()
    import measured

    if len(task) > 3 and task[3] == "further-scales":
        # an application that declares scales of its own on the same anchors: the four shipped
        # scales must go on converting by their definitions
        from measured import Temperature

        if "c10 scale on kelvin" not in measured.Unit._by_name:
            Temperature.scale(100 * measured.Unit._by_name["kelvin"], "c10 scale on kelvin", "c10sk")
            Temperature.scale(50 * measured.Unit._by_name["Rankine"], "c10 scale on rankine", "c10sr")
            Temperature.scale(-5 * measured.Unit._by_name["kelvin"], "c10 second scale on kelvin", "c10sk2")

    FURTHER[0] = len(task) > 3 and task[3] == "further-scales"
    maps = to_kelvin_maps(orc)
    acc = work.Acc()
    P = acc.P
    m = real(var(kind, f"m_{kind}"))
    absz = lambda e: z3.If(e >= 0, e, -e)
    with symnum.Shims():
        for (s, ps, d, pd) in items:
            pfx = {None: None}
            pfx.update({p.name.capitalize(): p for p in families.si_prefixes()})
            src = measured.Unit._by_name[s] if ps is None else pfx[ps] * measured.Unit._by_name[s]
            dst = measured.Unit._by_name[d] if pd is None else pfx[pd] * measured.Unit._by_name[d]
            vs = Fraction(10) ** pfx[ps].exponent if ps else Fraction(1)
            vd = Fraction(10) ** pfx[pd].exponent if pd else Fraction(1)
            C, D = oracle_map(maps, s, vs, d, vd)
            sc, dc = unit_code(s, ps), unit_code(d, pd)
            label = f"{families.show(src)}->{families.show(dst)}"
            key = (label, kind)
            cv = convterm.convert(src, dst, kind)
            acc.out["paths"] += cv.paths
            acc.out["queries"] += cv.queries
            if cv.outcome != "ok":
                acc.ob("sat", f"{label}/{kind}:returns", key)
                if cv.outcome in ("forks", "nonlinear"):
                    # the result is not one affine map of the magnitude: a candidate, judged by the replay
                    acc.out["viol"].append((f"C10:not-affine:{s}->{d}" + ("" if kind == "float" else f":{kind}"),
                                            f"{label} ({kind} magnitudes): the result is not an affine map of "
                                            f"the magnitude ({cv.outcome})",
                                            replay(sc, dc, C, D, "value", kind, tuple(cv.fork_models)), "soft"))
                    continue
                acc.out["viol"].append((f"C10:raises:{s}->{d}", f"{label} raises {cv.outcome}",
                                        replay(sc, dc, C, D, "raises", kind)))
                continue
            t = symnum.q(cv.c) * m + symnum.q(cv.d)
            o = symnum.q(C) * m + symnum.q(D)
            tolv = symnum.q(REL) * (absz(symnum.q(C) * m) + symnum.q(abs(D)) + symnum.q(abs(C)))
            goals = {
                "value": z3.And(t - o <= tolv, o - t <= tolv, z3.BoolVal(cv.unit_ok and cv.kind_ok)),
            }
            # absolute zero -> absolute zero
            a1, b1 = maps[s]
            m0 = -b1 / a1 / vs
            want0 = -maps[d][1] / maps[d][0] / vd
            got0 = cv.c * m0 + cv.d
            goals["absolute-zero"] = z3.BoolVal(
                abs(got0 - want0) <= REL * (abs(want0) + abs(C) + abs(D)))
            # differences scale by the degree ratio
            m2 = z3.Real("m2")
            goals["differences"] = absz((symnum.q(cv.c) * m + symnum.q(cv.d)) -
                                        (symnum.q(cv.c) * m2 + symnum.q(cv.d)) -
                                        symnum.q(C) * (m - m2)) <= symnum.q(REL) * absz(symnum.q(C) * (m - m2))
            sigpfx = ("prefixed-target" if pd else "") + ("prefixed-source" if ps else "")
            for g, goal in goals.items():
                r, _ = P.check(z3.Not(goal))
                if r == "unsat":
                    acc.ob("unsat", f"{label}/{kind}:{g}", key)
                elif r == "unknown":
                    acc.ob("unknown", f"{label}/{kind}:{g}", key)
                else:
                    acc.ob("sat", f"{label}/{kind}:{g}", key)
                    acc.out["viol"].append((f"C10:{g}:{s}->{d}:{sigpfx or 'plain'}" +
                                            ("" if kind == "float" else f":{kind}"),
                                            f"{label} ({kind} magnitudes): library m*{float(cv.c)!r}+{float(cv.d)!r}, "
                                            f"definition m*{float(C)!r}+{float(D)!r}",
                                            replay(sc, dc, C, D, g, kind)))
            # round trip through the real code
            back = convterm.convert(dst, src, kind)
            acc.out["paths"] += back.paths
            if back.outcome == "ok":
                cc_, dd_ = back.c * cv.c, back.c * cv.d + back.d
                ok = abs(cc_ - 1) <= REL and abs(dd_) <= REL * (abs(D / C) + 1)
                acc.ob("unsat" if ok else "sat", f"{label}/{kind}:round-trip", key)
                if not ok:
                    acc.out["viol"].append((f"C10:round-trip:{s}->{d}:{sigpfx or 'plain'}" +
                                            ("" if kind == "float" else f":{kind}"),
                                            f"{label} ({kind} magnitudes): there and back gives m*{float(cc_)!r}+{float(dd_)!r}",
                                            replay(sc, dc, C, D, "round-trip", kind)))
            if with_cmp and kind == "float":
                compare(acc, src, dst, sc, dc, maps[s], vs, maps[d], vd, label)
        acc.sample({"pair": label, "definition": f"m*{float(C)!r}+{float(D)!r}", "kind": kind})
    return acc.finish()


def compare(acc: work.Acc, U: Any, V: Any, sc: str, dc: str, ms: Tuple, vs: Fraction, md: Tuple,
            vd: Fraction, label: str) -> None:
    X, Y = z3.Real("x"), z3.Real("y")

    def fn() -> Any:
        from measured import Quantity

        a, b = Quantity(mk("float", X), U), Quantity(mk("float", Y), V)
        return {"eq": a == b, "lt": a < b, "gt": a > b}

    ex = explore(fn, max_paths=64)
    acc.explored(ex)
    a1, b1 = ms[0] * vs, ms[1]
    a2, b2 = md[0] * vd, md[1]
    KX, KY = symnum.q(a1) * X + symnum.q(b1), symnum.q(a2) * Y + symnum.q(b2)
    absz = lambda e: z3.If(e >= 0, e, -e)
    margin = symnum.q(REL) * (absz(KX) + absz(KY) + 1)
    for i, p in enumerate(ex.paths):
        key = (label, "cmp", i)
        if p.exc is not None:
            acc.ob("sat", f"{label}:compare#p{i}:raised-{p.outcome}", key)
            acc.out["viol"].append((f"C10:compare-raises:{label}", f"{p.outcome} comparing {label}",
                                    cmp_replay(sc, dc, a1, b1, a2, b2, Fraction(1), Fraction(1))))
            continue
        o = {k: bool_term(v) for k, v in p.result.items()}
        goal = z3.And(
            z3.Implies(KX < KY - margin, z3.And(o["lt"], z3.Not(o["eq"]), z3.Not(o["gt"]))),
            z3.Implies(KX > KY + margin, z3.And(o["gt"], z3.Not(o["eq"]), z3.Not(o["lt"]))))
        r, mdl = acc.P.check(p.cond, z3.Not(goal))
        if r == "unsat":
            acc.ob("unsat", f"{label}:compare#p{i}", key)
        elif r == "unknown":
            acc.ob("unknown", f"{label}:compare#p{i}", key)
        else:
            # prefer a model far from the tie: it replays the same way in double arithmetic
            far = z3.Or(KX < KY - 100000 * margin, KX > KY + 100000 * margin)
            sm = acc.P.shaped_model([p.cond, z3.Not(goal), far], [X, Y]) or \
                acc.P.shaped_model([p.cond, z3.Not(goal)], [X, Y])
            if sm is None:
                acc.ob("unknown", f"{label}:compare#p{i}(real-model-only)", key)
                continue
            acc.ob("sat", f"{label}:compare#p{i}", key)
            acc.out["viol"].append((f"C10:compare:{label}", f"==/< across scales wrong for {label}",
                                    cmp_replay(sc, dc, a1, b1, a2, b2, sm["x"], sm["y"])))


def tasks_for(tier: str) -> List[Tuple]:
    families.boot()
    allp = [p.name.capitalize() for p in families.si_prefixes()]
    import measured.si as si

    allp = [p for p in allp if hasattr(si, p)]
    pf = [None, "Kilo", "Milli", "Mega", "Micro"] if tier == "quick" else [None] + allp
    items = [(s, ps, d, pd) for s, d in itertools.permutations(SCALES, 2) for ps in pf for pd in pf]
    tasks: List[Tuple] = []
    kinds = ["float", "int", "dec"]
    for k in kinds:
        its = items if (k == "float" or tier == "thorough") else items[::5]
        for ch in par.chunks(its, 16 if k == "float" else 4):
            tasks.append((ch, k, k == "float"))
    plain = [(s, None, d, None) for s, d in itertools.permutations(SCALES, 2)]
    tasks.append((plain, "float", True, "further-scales"))
    return tasks


def main(tier: str, selftest_cases: int = 0) -> int:
    rep = report.Report(PID, tier, "other")
    tasks = families.shuffled(tasks_for(tier), rep.seed)
    results = par.run("props.c10", "worker", tasks)
    work.merge(rep, results)
    # the operators + and - across scales (a difference of two temperatures, in the left operand's
    # unit, is the kelvin difference scaled by the degree ratio): c06's obligations, read for C10
    from props import c06

    pairs = [(u, v) for u in (c06.ABSOLUTE if tier == "thorough" else c06.ABSOLUTE[:3]) for v in c06.SCALES if u != v]
    arith = par.run("props.c06", "affine_worker", [ch for ch in par.chunks(pairs, 6)])
    for r in arith:
        r["obs"] = [(st, "operators across scales: " + nm, ("c10-arith",) + tuple(k if isinstance(k, tuple) else (k,)))
                    for st, nm, k in r["obs"]]
        r["viol"] = [(v[0].replace("C06:", "C10:operator:", 1),) + tuple(v[1:]) for v in r["viol"]]
    work.merge(rep, arith)
    rep.functions.update(cc.FUNCTIONS + ["measured.Dimension.scale", "measured.conversions.translate",
                                         "measured.Quantity.__eq__", "measured.Quantity.__lt__"])
    rep.coverage["configurations"] = sum(len(t[0]) for t in tasks)
    rep.coverage["exhaustive"] = True
    rep.coverage["selftest_cases"] = selftest_cases
    rep.coverage["bounds"] = (
        "symbolic: magnitude m (all reals / ints, below absolute zero included). Enumerated "
        "completely: 12 ordered scale pairs x prefix on source x prefix on target "
        f"({'5 prefixes incl. none' if tier == 'quick' else 'all registered SI prefixes'}); "
        "int/Decimal kinds on every 5th configuration in quick, all in thorough.")
    rep.coverage["explanation"] = (
        "The real in_unit runs on a symbolic magnitude; z3 decides for all m that the result "
        "equals the affine definition through kelvin (built from the recorded declarations) within "
        "1e-9, that absolute zero maps to absolute zero, that differences scale by the degree "
        "ratio, that there-and-back is the identity, and that == / < across scales agree with "
        "kelvin values away from ties.")
    rep.assumptions += ["exact real arithmetic over the binary constants 273.15, 459.67, 5/9 as "
                        "present in the source; 1e-9 relative absorbs 1/(5/9) != 9/5 in binary"]
    return rep.finish()
