"""C12 -- comparisons are coherent; hash agrees; Level/Measurement symmetric (E1).

Real code on proxies: Quantity.__eq__/__lt__ (+ functools.total_ordering's derived
__le__/__gt__/__ge__, default __ne__), Quantity.__hash__ (replay only), Quantity.unprefixed,
in_unit/convert, Measurement.__eq__/__init__, approximately, Level.__eq__/quantify.
Symbolic: magnitudes x, y, uncertainties s, t >= 0, `within` w >= 0, level magnitude l.
Enumerated: unit pairs of one dimension (core family incl. prefixes), operand kinds, numeric kinds.
"""

from __future__ import annotations

import itertools
from fractions import Fraction
from typing import Any, Dict, List, Tuple

import z3

from engine import families, par, report, symnum, work
from engine.symnum import Case, bool_term, real, term
from engine.work import lit

PID = "C12"
TOL = 1e-9

FUNCTIONS = [
    "measured.Quantity.__eq__", "measured.Quantity.__lt__",
    "functools.total_ordering(Quantity).__le__/__gt__/__ge__", "object.__ne__ (default)",
    "measured.Quantity.unprefixed", "measured.Unit.quantify", "measured.Quantity.in_unit",
    "measured.conversions.convert", "measured.Measurement.__eq__",
    "measured.Measurement.__init__", "measured.approximately", "measured.Level.__eq__",
    "measured.Level.quantify", "measured.Quantity.__add__", "measured.Quantity.__sub__",
    "measured.Quantity.__abs__",
]

# unit pairs (source text evaluated in the worker); all convertible, not C09-ambiguous
PAIRS_QUICK = [
    ("measured.si.Meter", "measured.si.Meter"),
    ("measured.si.Meter", "measured.us.Foot"),
    ("(measured.si.Kilo * measured.si.Meter)", "measured.si.Meter"),
    ("(measured.si.Kilo * measured.si.Meter)", "measured.us.Mile"),
    ("measured.si.Hour", "measured.si.Second"),
    ("(measured.iec.Kibi * measured.iec.Byte)", "(measured.si.Kilo * measured.iec.Bit)"),
    ("(measured.si.Meter / measured.si.Second)", "(measured.us.Mile / measured.si.Hour)"),
    ("measured.us.Acre", "(measured.us.Foot ** 2)"),
]
# offset scales: physical value through the affine definitions (oracle of C10)
TEMPERATURE_PAIRS = [
    ("measured.si.Kelvin", "measured.si.Celsius"), ("measured.si.Celsius", "measured.us.Fahrenheit"),
    ("(measured.si.Milli * measured.si.Celsius)", "measured.si.Kelvin"),
    ("measured.us.Rankine", "measured.us.Fahrenheit"), ("measured.us.Fahrenheit", "measured.si.Kelvin"),
]
PAIRS_THOROUGH = PAIRS_QUICK + [
    ("measured.us.Inch", "(measured.si.Centi * measured.si.Meter)"),
    ("measured.si.Kilogram", "measured.avoirdupois.Pound"),
    ("(measured.si.Milli * measured.si.Gram)", "measured.avoirdupois.Ounce"),
    ("measured.si.Joule", "(measured.si.Kilo * measured.si.Watt * measured.si.Hour)"),
    ("measured.si.Liter", "measured.us.Gallon"),
    ("measured.si.Newton", "measured.us.PoundForce"),
    ("measured.si.Pascal", "measured.us.PSI"),
    ("(measured.si.Mega * measured.iec.Bit)", "(measured.iec.Mebi * measured.iec.Bit)"),
    ("measured.si.Minute", "measured.si.Day"),
    ("(measured.si.Meter ** 3)", "measured.si.Liter"),
]
LEVEL_UNITS = [
    ("measured.Decibel[1 * measured.us.Foot]", "measured.si.Meter"),
    ("measured.Decibel[1 * measured.si.Watt]", "measured.si.Watt"),
    ("measured.Decibel[1 * measured.si.Milli * measured.si.Watt]", "measured.si.Watt"),
    ("measured.Decibel[1 * measured.si.Volt]", "(measured.si.Milli * measured.si.Volt)"),
    ("measured.Neper[1 * measured.si.Watt]", "measured.si.Watt"),
]


def ns() -> Dict[str, Any]:
    import measured
    import measured.systems  # noqa

    return {"measured": measured}


HEADER = families.REPLAY_IMPORTS + "from decimal import Decimal\nfrom measured import Measurement, approximately\n"


def norm(v: Any) -> z3.BoolRef:
    return bool_term(v)


# ------------------------------------------------------------------------------------
# A. quantity pairs


def quantity_task(acc: work.Acc, uc: str, vc: str, kinds: Dict[str, str]) -> None:
    n = ns()
    U, V = eval(uc, n), eval(vc, n)
    orc = families.orc()
    affine = None
    same_computation = False
    if any(f in orc.offset_units for f in list(U.factors) + list(V.factors)) or \
            U in orc.offset_units or V in orc.offset_units:
        from props import c10

        maps = c10.to_kelvin_maps(orc)

        def kmap(unit: Any) -> Tuple[Fraction, Fraction]:
            base = next(iter(unit.factors))
            a, b = maps[base.name]
            pv = Fraction(unit.prefix.base) ** unit.prefix.exponent if unit.prefix.base else Fraction(1)
            return a * pv, b

        affine = (kmap(U), kmap(V))
        rho = Fraction(1)
    else:
        rs = orc.ratios(U, V)
        if not rs:
            raise symnum.HarnessError(f"oracle cannot relate {uc} and {vc}")
        rho = rs[0][0]
        # redundant shipped chains (psi = 6894.757 Pa vs lbf/in**2) agree only to the C04
        # tolerance; order coherence is judged against the factor the library itself applies,
        # after checking that factor against the oracle at the C04 tolerance
        if U is not V:
            from engine import convterm

            cv = convterm.convert(U, V, "float")
            acc.out["paths"] += cv.paths
            if cv.outcome != "ok":
                same_computation = True
                # the planner finds U -> V in one direction only (a C07 matter, not a C12 one):
                # comparisons then go through the reflected operand; judge them by the factor of
                # the direction that exists
                rv = convterm.convert(V, U, "float")
                acc.out["paths"] += rv.paths
                if rv.outcome == "ok" and rv.d == 0 and rv.c != 0:
                    cv = convterm.Conv()
                    cv.outcome, cv.c, cv.d, cv.unit_ok = "ok", 1 / rv.c, Fraction(0), True
                    acc.count("pairs_convertible_in_one_direction_only")
            tol4 = Fraction(1, 10 ** 5) * orc.degree(U, V)
            ok4 = cv.outcome == "ok" and cv.d == 0 and abs(cv.c - rho) <= tol4 * abs(rho)
            acc.ob("unsat" if ok4 else "sat", f"quantity/{uc}/{vc}:library factor agrees with the oracle (C04 tolerance)",
                   (uc, vc, "factor"))
            if not ok4:
                # the order the library computes then disagrees with physical values
                from props import c04

                acc.out["viol"].append((f"C12:quantity:{uc}|{vc}:conversion-factor",
                                        f"{uc}->{vc}: the library converts with {cv.outcome} "
                                        f"{float(cv.c) if cv.c is not None else None}, declarations give "
                                        f"{float(rho)}: comparisons cannot agree with physical values",
                                        c04.replay(uc, vc, "float", rho, float(tol4))))
                return
            rho = cv.c
    exact_same = U is V
    if affine is not None or exact_same:
        same_computation = False

    def build(v: Dict[str, Any]) -> Dict[str, Any]:
        a, b = v["x"] * U, v["y"] * V
        return {
            "eq_aa": a == a, "eq_ab": a == b, "eq_ba": b == a, "ne_ab": a != b,
            "lt_ab": a < b, "le_ab": a <= b, "gt_ab": a > b, "ge_ab": a >= b,
            "lt_ba": b < a, "le_ba": b <= a, "gt_ba": b > a, "ge_ba": b >= a,
        }

    case = Case(build, kinds, max_paths=128)
    ex = case.explore()
    acc.explored(ex)
    x, y = real(case.vars["x"]), real(case.vars["y"])
    X, Y = x * symnum.q(rho), y
    if affine is not None:
        (a1, b1), (a2, b2) = affine
        X, Y = symnum.q(a1) * x + symnum.q(b1), symnum.q(a2) * y + symnum.q(b2)
    absz = lambda e: z3.If(e >= 0, e, -e)
    margin = 0 if exact_same else symnum.q(TOL) * (absz(X) + absz(Y) + (1 if affine is not None else 0))
    cfg = f"quantity/{uc}/{vc}/{','.join(kinds.values())}"

    def replay(goalname: str):
        def r(m: Dict[str, Fraction]) -> str:
            body = HEADER + f"""
U, V = {uc}, {vc}
x, y = {lit(kinds['x'], m['x'])}, {lit(kinds['y'], m['y'])}
rho = {float(rho)!r}   # size(U)/size(V) from the declarations, independent of the planner
AFF = {[[float(v) for v in ab] for ab in affine] if affine is not None else None!r}   # kelvin = a*m + b per side (offset scales)
a, b = x * U, y * V
X, Y = float(x) * rho, float(y)
if AFF:
    X, Y = AFF[0][0] * float(x) + AFF[0][1], AFF[1][0] * float(y) + AFF[1][1]
obs = dict(eq_aa=(a == a), eq_ab=(a == b), eq_ba=(b == a), ne_ab=(a != b), lt_ab=(a < b),
           le_ab=(a <= b), gt_ab=(a > b), ge_ab=(a >= b), lt_ba=(b < a), le_ba=(b <= a),
           gt_ba=(b > a), ge_ba=(b >= a))
print(a, b, obs)
ONE_WAY = {same_computation!r}    # the planner converts between U and V in one direction only
if ONE_WAY and (bool(obs['eq_ab']) != bool(obs['eq_ba']) or bool(obs['lt_ab']) != bool(obs['gt_ba'])
                or bool(obs['gt_ab']) != bool(obs['lt_ba']) or bool(obs['ne_ab']) == bool(obs['eq_ab'])
                or (bool(obs['lt_ab']) + bool(obs['eq_ab']) + bool(obs['gt_ab'])) != 1):
    print('REPRODUCED: == / < / > are not coherent between the two operand orders'); sys.exit(1)
tie = abs(X - Y) <= 1e-7 * (abs(X) + abs(Y) + (1 if AFF else 0))
if U is V:
    # one and the same unit: no conversion, no rounding -- Python compares int, float and Decimal exactly
    from fractions import Fraction
    X, Y, tie = Fraction(x), Fraction(y), False
if tie and not (X == Y and U is V):
    print('tie zone: nothing required'); sys.exit(0)
lt, eq, gt = X < Y, X == Y, X > Y
want = dict(eq_aa=True, eq_ab=eq, eq_ba=eq, ne_ab=not eq, lt_ab=lt, le_ab=lt or eq, gt_ab=gt,
            ge_ab=gt or eq, lt_ba=gt, le_ba=gt or eq, gt_ba=lt, ge_ba=lt or eq)
bad = {{k: (obs[k], want[k]) for k in obs if bool(obs[k]) != want[k]}}
if bad:
    print('REPRODUCED: comparisons disagree with physical values:', bad); sys.exit(1)
sys.exit(0)
"""
            if set(kinds.values()) != {"float", "dec"}:
                return body
            # float against Decimal: the solver's witness rests on the stub "float(Decimal) is some
            # double within 2**-53 of the value"; the real rounding is pinned down by concretising
            # the witness: the float side as the double it is, the Decimal side as the model value,
            # as the float's shortest repr, and as the float's exact value moved by a quarter ulp
            fk = "x" if kinds["x"] == "float" else "y"
            dk = "y" if fk == "x" else "x"
            fv = float(m[fk])
            cands: List[Tuple[float, str]] = []
            for f in (fv, float(m[dk]), 0.1, 1.1, 2.675, -0.3):
                if f != f or f in (float("inf"), float("-inf")):
                    continue
                cands += [(f, lit("dec", m[dk])), (f, f"Decimal({repr(f)!r})"),
                          (f, f"(Decimal({f!r}) * (1 + Decimal(2) ** -55))"),
                          (f, f"(Decimal({f!r}) * (1 - Decimal(2) ** -55))")]
            first = f"x, y = {lit(kinds['x'], m['x'])}, {lit(kinds['y'], m['y'])}\n"
            assert first in body
            head, rest = body.split(first, 1)
            rest = rest.replace("sys.exit(0)", "return 0").replace("sys.exit(1)", "return 1")
            rest = "".join("    " + ln + "\n" for ln in rest.splitlines())
            pairs = ", ".join(f"({f!r}, {d})" if fk == "x" else f"({d}, {f!r})" for f, d in cands)
            return head + "def judge(x, y):\n" + rest + f"""    return 0
for x, y in [{pairs}]:
    if judge(x, y):
        sys.exit(1)
sys.exit(0)
"""
        return r

    for i, p in enumerate(ex.paths):
        key = (cfg, i)
        if p.exc is not None:
            # convertible pairs: no comparison may raise
            acc.ob("sat", f"{cfg}#p{i}:raised-{p.outcome}", key)
            m = acc.P.shaped_model([p.cond], list(case.vars.values()))
            if m is not None:
                acc.out["viol"].append((f"C12:quantity:{uc}|{vc}:raises-{p.outcome}",
                                        f"{p.outcome} from comparing {cfg}", replay("raise")(m)))
            continue
        case.selfcheck(p, acc.P)
        o = {k: norm(v) for k, v in p.result.items()}
        lo = X < Y - margin
        hi = X > Y + margin
        want_lo = z3.And(o["lt_ab"], z3.Not(o["eq_ab"]), z3.Not(o["gt_ab"]), o["le_ab"],
                         z3.Not(o["ge_ab"]), o["gt_ba"], z3.Not(o["lt_ba"]), z3.Not(o["eq_ba"]),
                         o["ge_ba"], z3.Not(o["le_ba"]), o["ne_ab"])
        want_hi = z3.And(o["gt_ab"], z3.Not(o["eq_ab"]), z3.Not(o["lt_ab"]), o["ge_ab"],
                         z3.Not(o["le_ab"]), o["lt_ba"], z3.Not(o["gt_ba"]), z3.Not(o["eq_ba"]),
                         o["le_ba"], z3.Not(o["ge_ba"]), o["ne_ab"])
        goals = {"reflexive": o["eq_aa"],
                 "physical-order-below": z3.Implies(lo, want_lo),
                 "physical-order-above": z3.Implies(hi, want_hi)}
        if exact_same:
            goals["exact-tie"] = z3.Implies(x == y, z3.And(
                o["eq_ab"], o["eq_ba"], o["le_ab"], o["ge_ab"], o["le_ba"], o["ge_ba"],
                z3.Not(o["lt_ab"]), z3.Not(o["gt_ab"]), z3.Not(o["ne_ab"])))
            goals["symmetric"] = o["eq_ab"] == o["eq_ba"]
            goals["mirror"] = z3.And(o["le_ab"] == o["ge_ba"], o["ge_ab"] == o["le_ba"])
        if same_computation:
            # only one direction converts: a == b and b == a, a < b and b > a, ... are decided by
            # one and the same conversion, so they must agree exactly, ties included
            goals["symmetric"] = z3.And(o["eq_ab"] == o["eq_ba"], o["ne_ab"] == z3.Not(o["eq_ba"]))
            goals["mirror"] = z3.And(o["lt_ab"] == o["gt_ba"], o["gt_ab"] == o["lt_ba"],
                                     o["le_ab"] == o["ge_ba"], o["ge_ab"] == o["le_ba"])
            goals["trichotomy"] = z3.PbEq([(o["lt_ab"], 1), (o["eq_ab"], 1), (o["gt_ab"], 1)], 1)
        # witnesses are looked for outside the zone the replay treats as a rounding tie first
        far = [absz(X - Y) > symnum.q(4e-7) * (absz(X) + absz(Y) + (1 if affine is not None else 0))]
        for g, goal in goals.items():
            acc.prove(case, p, goal, f"{cfg}#p{i}:{g}", key, f"C12:quantity:{uc}|{vc}:{g}",
                      f"{g} fails for {cfg}", replay(g),
                      shape_extra=far if g.startswith("physical-order") else (),
                      soft_fallback=g.startswith("physical-order"),
                      # float against Decimal: the rounding model does not know that a double rounds to itself
                      always_soft=(set(kinds.values()) == {"float", "dec"}))
        # hash: on a path where a == b holds, hashes must agree; with different unit objects
        # hash((x, U)) != hash((y, V)) unless by accident -> ask the solver for a witness
        hgoal = z3.Implies(o["eq_ab"], z3.BoolVal(U is V))
        if not exact_same:
            hgoal = z3.Not(o["eq_ab"])

        def hreplay(m: Dict[str, Fraction]) -> str:
            return HEADER + f"""
U, V = {uc}, {vc}
a, b = {lit(kinds['x'], m['x'])} * U, {lit(kinds['y'], m['y'])} * V
print(a, b, a == b, hash(a), hash(b))
if a == b and hash(a) != hash(b):
    print('REPRODUCED: equal quantities with different hashes'); sys.exit(1)
sys.exit(0)
"""
        sig = "C12:hash:same-unit" if exact_same else "C12:hash:equal-quantities-in-different-units"
        if affine is not None:
            # offset scales: an exactly equal pair in reals (x*a1+b1 == y*a2+b2) is in general not
            # equal in doubles, so a hash witness cannot be replayed; the different-units hash
            # finding is established on the ratio pairs
            continue
        if exact_same:
            # same unit: a == b forces x == y, and Python hashes equal numbers equally
            acc.prove(case, p, z3.Implies(o["eq_ab"], x == y), f"{cfg}#p{i}:hash", key, sig,
                      "a == b with different magnitudes in one unit", hreplay,
                      shape_extra=[x >= -4, x <= 4, y >= -4, y <= 4],
                      always_soft=(set(kinds.values()) == {"float", "dec"}))
            # ... which settles the contract only if __hash__ hashes the number: witnesses of
            # this path's a == b (generic, integral, zero) go through the real hash() in every
            # numeric type and representation of the same value (main: hash_witnesses)
            for extra in ([x != 0, z3.Not(z3.IsInt(x))], [x != 0, z3.IsInt(x)], [x == 0]):
                m = acc.P.shaped_model([p.cond, o["eq_ab"], *extra], list(case.vars.values()))
                if m is not None:
                    acc.out.setdefault("witness", []).append((uc, str(m["x"])))
        else:
            # witness at zero only: 0 U == 0 V holds in doubles whatever the ratio, so the replay
            # with the real hash() does not hinge on a product of doubles coming out exactly;
            # paths that exclude zero add nothing to this (known) finding
            rz, _ = acc.P.check(p.cond, z3.Not(hgoal), x == 0, y == 0)
            if rz == "sat":
                acc.ob("sat", f"{cfg}#p{i}:hash", key)
                acc.out["viol"].append((sig, f"{cfg}: a == b but hash((x,U)) != hash((y,V)) at x = y = 0",
                                        hreplay({"x": Fraction(0), "y": Fraction(0)})))
    acc.sample({"config": cfg, "paths": len(ex.paths),
                "first_path_pc": [str(c) for c in ex.paths[0].pc][:4]})
    acc.out["selfchecked"] += case.selfchecked


# ------------------------------------------------------------------------------------
# B. measurement / approximately symmetry


def measurement_task(acc: work.Acc, uc: str, vc: str, shape: str, kinds: Dict[str, str]) -> None:
    n = ns()
    U, V = eval(uc, n), eval(vc, n)
    from measured import Measurement, approximately

    orc = families.orc()
    rho = orc.ratios(U, V)[0][0]
    exact_same = U is V

    def mk(kind: str, mag: Any, unc: Any, unit: Any) -> Any:
        if kind == "M":
            return Measurement(mag * unit, unc)
        if kind == "A":
            return approximately(mag * unit, unc)
        return mag * unit

    def build(v: Dict[str, Any]) -> Dict[str, Any]:
        a = mk(shape[0], v["x"], v["s"], U)
        b = mk(shape[1], v["y"], v["t"], V)
        return {"eq_ab": a == b, "eq_ba": b == a, "eq_aa": a == a}

    def assume(vs: Dict[str, z3.ArithRef]) -> List[z3.BoolRef]:
        return [vs["s"] >= 0, vs["t"] >= 0]

    case = Case(build, kinds, assume, max_paths=400)
    ex = case.explore()
    acc.explored(ex)
    x, y, s, t = (real(case.vars[k]) for k in ("x", "y", "s", "t"))
    absz = lambda e: z3.If(e >= 0, e, -e)
    r = symnum.q(rho)
    # interval end points in V's unit
    su = s if shape[0] == "M" else (absz(z3.If(x == 0, 1, x)) * s if shape[0] == "A" else 0)
    tu = t if shape[1] == "M" else (absz(z3.If(y == 0, 1, y)) * t if shape[1] == "A" else 0)
    L1, U1, L2, U2 = (x - su) * r, (x + su) * r, y - tu, y + tu
    scale = absz(x * r) + absz(y) + su * r + tu
    margin_ok = z3.BoolVal(True)
    if not exact_same:
        eps = symnum.q(TOL) * scale
        pts = [L1, U1, L2, U2]
        margin_ok = z3.And(*[absz(pts[i] - pts[j]) > eps for i in (0, 1) for j in (2, 3)])
    cfg = f"measurement/{shape}/{uc}/{vc}/{','.join(kinds.values())}"
    mkc = {"M": "Measurement({m} * {u}, {s})", "A": "approximately({m} * {u}, {s})",
           "Q": "({m} * {u})"}

    def replay(m: Dict[str, Fraction]) -> str:
        a = mkc[shape[0]].format(m="x", u="U", s="s")
        b = mkc[shape[1]].format(m="y", u="V", s="t")
        return HEADER + f"""
U, V = {uc}, {vc}
x, s = {lit(kinds['x'], m['x'])}, {lit(kinds['s'], m['s'])}
y, t = {lit(kinds['y'], m['y'])}, {lit(kinds['t'], m['t'])}
a, b = {a}, {b}
print(repr(a), repr(b), 'a == b:', a == b, ' b == a:', b == a)
if bool(a == b) != bool(b == a):
    print('REPRODUCED: == is not symmetric'); sys.exit(1)
if not (a == a):
    print('REPRODUCED: == is not reflexive'); sys.exit(1)
sys.exit(0)
"""
    for i, p in enumerate(ex.paths):
        key = (cfg, i)
        if p.exc is not None:
            acc.ob("sat", f"{cfg}#p{i}:raised-{p.outcome}", key)
            m = acc.P.shaped_model([p.cond], list(case.vars.values()))
            if m is not None:
                acc.out["viol"].append((f"C12:measurement:{shape}:raises-{p.outcome}",
                                        f"{p.outcome} from comparing {cfg}", replay(m)))
            continue
        case.selfcheck(p, acc.P)
        o = {k: norm(v) for k, v in p.result.items()}
        contain = "contained" if True else ""
        acc.prove(case, p, z3.Implies(margin_ok, o["eq_ab"] == o["eq_ba"]),
                  f"{cfg}#p{i}:symmetric", key, f"C12:measurement:{shape}:eq-asymmetric",
                  f"(a == b) != (b == a) for {cfg}", replay)
        acc.prove(case, p, o["eq_aa"], f"{cfg}#p{i}:reflexive", key,
                  f"C12:measurement:{shape}:not-reflexive", f"a != a for {cfg}", replay,
                  # code that converts an operand to compare it with itself is reflexive or not
                  # depending on double rounding (x*1000*0.001 == x), which exact reals do not
                  # show: a witness that does not replay is inconclusive, not a harness error
                  always_soft=True)
    acc.sample({"config": cfg, "paths": len(ex.paths)})
    acc.out["selfchecked"] += case.selfchecked


# ------------------------------------------------------------------------------------
# C. levels


def level_task(acc: work.Acc, luc: str, qc: str, shape: str, kinds: Dict[str, str]) -> None:
    n = ns()
    LU, QU = eval(luc, n), eval(qc, n)
    from measured import Measurement

    def build(v: Dict[str, Any]) -> Dict[str, Any]:
        lv = v["l"] * LU
        other: Any
        if shape == "LQ":
            other = v["x"] * QU
        elif shape == "LM":
            other = Measurement(v["x"] * QU, v["s"])
        else:
            other = v["x"] * LU
        out = {"eq_ab": lv == other, "eq_ba": other == lv, "eq_aa": lv == lv}
        if shape == "LQ":
            out["denoted"] = lv.quantify().magnitude      # in the reference unit
        return out

    def assume(vs: Dict[str, z3.ArithRef]) -> List[z3.BoolRef]:
        a = [vs["l"] >= -200, vs["l"] <= 200]
        if "s" in vs:
            a.append(vs["s"] >= 0)
        if shape in ("LQ", "LM"):
            a.append(vs["x"] > 0)
        else:
            a += [vs["x"] >= -200, vs["x"] <= 200]
        return a

    case = Case(build, kinds, assume, max_paths=200)
    ex = case.explore()
    acc.explored(ex)
    cfg = f"level/{shape}/{luc}/{qc}/{','.join(kinds.values())}"
    same_unit = LU.reference.unit is QU.quantify().unit and QU.prefix.base == 0

    def replay(m: Dict[str, Fraction]) -> str:
        other = {"LQ": "x * QU", "LM": "Measurement(x * QU, s)", "LL": "x * LU"}[shape]
        sline = f"s = {lit(kinds['s'], m['s'])}" if "s" in m else ""
        return HEADER + f"""
LU, QU = {luc}, {qc}
l, x = {lit(kinds['l'], m['l'])}, {lit(kinds['x'], m['x'])}
{sline}
a, b = l * LU, {other}
print(a, b, 'a == b:', a == b, ' b == a:', b == a)
if bool(a == b) != bool(b == a):
    print('REPRODUCED: == is not symmetric'); sys.exit(1)
sys.exit(0)
"""
    for i, p in enumerate(ex.paths):
        key = (cfg, i)
        if p.exc is not None:
            if isinstance(p.exc, symnum.HarnessError):
                raise p.exc
            acc.ob("sat", f"{cfg}#p{i}:raised-{p.outcome}", key)
            m = acc.P.shaped_model([p.cond], list(case.vars.values()))
            if m is not None:
                acc.out["viol"].append((f"C12:level:{shape}:raises-{p.outcome}",
                                        f"{p.outcome} from comparing {cfg}", replay(m)))
            continue
        o = {k: norm(v) for k, v in p.result.items() if k != "denoted"}
        if shape == "LQ" and not same_unit:
            # a quantity in another unit than the reference: away from the tie both orders must
            # say "different"; the level's value is what its own quantify() denotes, the
            # quantity's is taken into the reference unit with the declaration oracle
            rr = families.orc().ratio(QU, LU.reference.unit)
            if rr is None:
                raise symnum.HarnessError(f"oracle cannot relate {qc} to the reference unit")
            absz = lambda e: z3.If(e >= 0, e, -e)
            D = real(term(p.result["denoted"]))
            Xr = real(case.vars["x"]) * symnum.q(rr[0])
            far = absz(D - Xr) > symnum.q(Fraction(1, 10 ** 6)) * (absz(D) + absz(Xr))
            acc.prove(case, p, z3.Implies(far, z3.And(z3.Not(o["eq_ab"]), z3.Not(o["eq_ba"]))),
                      f"{cfg}#p{i}:both-orders-differ-away-from-ties", key,
                      f"C12:level:{shape}:eq-asymmetric", f"a == b or b == a holds for clearly different values, {cfg}",
                      replay, shape_extra=[real(case.vars["l"]) == 0],
                      soft_fallback=True)   # away from l == 0 the witness rests on the uninterpreted exp
        elif shape == "LM" or same_unit or shape == "LL":
            acc.prove(case, p, o["eq_ab"] == o["eq_ba"], f"{cfg}#p{i}:symmetric", key,
                      f"C12:level:{shape}:eq-asymmetric", f"(a == b) != (b == a) for {cfg}",
                      replay)
        acc.prove(case, p, o["eq_aa"], f"{cfg}#p{i}:reflexive", key,
                  f"C12:level:{shape}:not-reflexive", f"a != a for {cfg}", replay)
    acc.sample({"config": cfg, "paths": len(ex.paths)})


TRIPLES = [
    ("measured.si.Meter", "measured.us.Foot", "(measured.si.Kilo * measured.si.Meter)"),
    ("measured.si.Hour", "measured.si.Second", "measured.si.Minute"),
    ("measured.us.Mile", "measured.us.Inch", "(measured.si.Centi * measured.si.Meter)"),
    ("(measured.iec.Kibi * measured.iec.Byte)", "(measured.si.Kilo * measured.iec.Bit)", "measured.iec.Byte"),
    ("measured.si.Kilogram", "measured.avoirdupois.Pound", "(measured.si.Milli * measured.si.Gram)"),
]


def triple_task(acc: work.Acc, uc: str, vc: str, wc: str) -> None:
    """sorted() on a mixed-unit list orders it physically; < is transitive (away from ties)."""
    n = ns()
    U, V, W = eval(uc, n), eval(vc, n), eval(wc, n)
    orc = families.orc()
    sV = orc.ratios(V, U)[0][0]
    sW = orc.ratios(W, U)[0][0]
    Z = z3.Real("z")

    def build(v: Dict[str, Any]) -> Dict[str, Any]:
        a, b, c = v["x"] * U, v["y"] * V, v["z"] * W
        order = sorted([a, b, c])
        idx = [0 if q is a else (1 if q is b else 2) for q in order]
        return {"order": tuple(idx), "ab": a < b, "bc": b < c, "ac": a < c}

    case = Case(build, {"x": "float", "y": "float", "z": "float"}, max_paths=400)
    ex = case.explore()
    acc.explored(ex)
    x, y, z = (real(case.vars[k]) for k in ("x", "y", "z"))
    SI = [x, y * symnum.q(sV), z * symnum.q(sW)]
    absz = lambda e: z3.If(e >= 0, e, -e)
    scale = absz(SI[0]) + absz(SI[1]) + absz(SI[2])
    eps = symnum.q(TOL) * scale
    cfg = f"triple/{uc}/{vc}/{wc}"

    def replay(m: Dict[str, Fraction]) -> str:
        return HEADER + f"""
U, V, W = {uc}, {vc}, {wc}
sizes = [1.0, {float(sV)!r}, {float(sW)!r}]      # relative unit sizes from the declarations
mags = [{float(m['x'])!r}, {float(m['y'])!r}, {float(m['z'])!r}]
qs = [mags[0] * U, mags[1] * V, mags[2] * W]
si = {{id(q): mg * s for q, mg, s in zip(qs, mags, sizes)}}
order = sorted(qs)
vals = [si[id(q)] for q in order]
print([str(q) for q in order], vals)
tol = 1e-7 * sum(abs(v) for v in vals)
if any(vals[i] > vals[i + 1] + tol for i in range(2)):
    print('REPRODUCED: sorted() does not order the quantities physically'); sys.exit(1)
a, b, c = qs
if (a < b) and (b < c) and not (a < c) and min(abs(vals[i] - vals[j]) for i in range(3) for j in range(i)) > tol:
    print('REPRODUCED: < is not transitive'); sys.exit(1)
sys.exit(0)
"""
    for i, p in enumerate(ex.paths):
        key = (cfg, i)
        if p.exc is not None:
            acc.ob("sat", f"{cfg}#p{i}:raised-{p.outcome}", key)
            continue
        o = p.result["order"]
        s0, s1, s2 = SI[o[0]], SI[o[1]], SI[o[2]]
        goal = z3.And(s0 <= s1 + eps, s1 <= s2 + eps)
        acc.prove(case, p, goal, f"{cfg}#p{i}:sorted-orders-physically", key,
                  f"C12:sorted:{uc}|{vc}|{wc}", f"sorted() misorders {cfg}", replay,
                  shape_extra=[])
        t_ab, t_bc, t_ac = norm(p.result["ab"]), norm(p.result["bc"]), norm(p.result["ac"])
        apart = z3.And(absz(SI[0] - SI[1]) > eps, absz(SI[1] - SI[2]) > eps, absz(SI[0] - SI[2]) > eps)
        acc.prove(case, p, z3.Implies(z3.And(apart, t_ab, t_bc), t_ac), f"{cfg}#p{i}:transitive", key,
                  f"C12:transitive:{uc}|{vc}|{wc}", f"< not transitive for {cfg}", replay)
    acc.sample({"config": cfg, "paths": len(ex.paths)})
    acc.out["selfchecked"] += case.selfchecked


HASH_LIB = """
def representations(v):
    from fractions import Fraction
    f = Fraction(v)
    out = []
    if f.denominator == 1:
        out.append(int(f))
    if Fraction(float(f)) == f:
        out.append(float(f))
        if f == 0:
            out.append(-0.0)
    d = Decimal(f.numerator) / Decimal(f.denominator)
    if Fraction(d) == f:
        out += [d, d.normalize(), d.scaleb(0) * Decimal('1.00'), d * Decimal('1.0000')]
        if f == 0:
            out.append(Decimal('-0'))
    return out
def disagreements(U, v):
    reps = representations(v)
    bad = []
    for i, r1 in enumerate(reps):
        for r2 in reps[i:]:
            a, b = r1 * U, r2 * U
            if a == b and hash(a) != hash(b):
                bad.append((repr(r1), repr(r2)))
    return bad
"""


def hash_witnesses(rep: report.Report, witnesses: List[Tuple[str, str]]) -> None:
    """Equal same-unit quantities written with different numeric types / Decimal exponents must
    hash equally: the solver's a == b witnesses go through the real hash()."""
    import json
    import subprocess

    ws = sorted(set(witnesses))
    if not ws:
        return
    code = HEADER + HASH_LIB + f"""
import json
out = []
for uc, v in {ws!r}:
    out.append((uc, v, disagreements(eval(uc), v)))
print(json.dumps(out))
"""
    p = subprocess.run([report.REPO_PY, "-c", code], capture_output=True, text=True, timeout=600, cwd="/")
    if p.returncode != 0:
        raise symnum.HarnessError(f"hash witness run failed: {p.stderr[-400:]}")
    for uc, v, bad in json.loads(p.stdout.strip().splitlines()[-1]):
        rep.ob("sat" if bad else "unsat", f"hash agrees across representations of {v} {uc}", ("hashw", uc, v))
        if bad:
            rep.violation("C12:hash:same-unit:representations",
                          f"{v} {uc}: equal quantities written as {bad[0][0]} and {bad[0][1]} hash differently",
                          HEADER + HASH_LIB + f"""
bad = disagreements({uc}, {v!r})
print(bad)
if bad:
    print('REPRODUCED: equal quantities of one unit with different hashes'); sys.exit(1)
sys.exit(0)
""")
    rep.coverage["hash_witnesses"] = len(ws)


def worker(task: Tuple) -> Dict[str, Any]:
    families.boot()
    acc = work.Acc()
    with symnum.Shims():
        kind = task[0]
        if kind == "quantity":
            mixed = set(task[3].values()) == {"float", "dec"}
            symnum.ROUND_FLOAT_OF_DECIMAL[0] = mixed
            try:
                quantity_task(acc, *task[1:])
            finally:
                symnum.ROUND_FLOAT_OF_DECIMAL[0] = False
        elif kind == "measurement":
            measurement_task(acc, *task[1:])
        elif kind == "level":
            level_task(acc, *task[1:])
        elif kind == "triple":
            triple_task(acc, *task[1:])
        else:
            raise symnum.HarnessError(kind)
    return acc.finish()


def one_way_pairs(limit: int) -> List[Tuple[str, str]]:
    """Named units of one dimension between which the planner converts in one direction only
    (found by asking the real planner for every ordered pair): both operand orders of each."""
    import measured
    from measured import conversions

    families.boot()
    units = families.offset_free(families.named_units())
    out: List[Tuple[str, str]] = []
    for dim, us in families.by_dimension(units).items():
        for a, b in itertools.combinations(us, 2):
            res = []
            for s_, d_ in ((a, b), (b, a)):
                try:
                    (1 * s_).in_unit(d_)
                    res.append(True)
                except conversions.ConversionNotFound:
                    res.append(False)
                except Exception:
                    res.append(None)
            if sorted(map(str, res)) == ["False", "True"]:
                out.append((families.code(a), families.code(b)))
                out.append((families.code(b), families.code(a)))
                if len(out) >= limit:
                    return out
    return out


def tasks_for(tier: str) -> List[Tuple]:
    pairs = PAIRS_QUICK if tier == "quick" else PAIRS_THOROUGH
    pairs = pairs + one_way_pairs(4 if tier == "quick" else 24)
    kq = [("float", "float"), ("int", "float"), ("dec", "dec")]
    if tier == "thorough":
        kq += [("int", "int"), ("float", "int"), ("dec", "int")]
    tasks: List[Tuple] = []
    for u, v in pairs + TEMPERATURE_PAIRS:
        for kx, ky in kq:
            if (u, v) in TEMPERATURE_PAIRS and kx == "int":
                continue
            if "int" in (kx, ky) and any(t in u + v for t in ("us.", "avoirdupois", "calorie", "Gallon")):
                continue   # mixed integer/real queries over 52-bit constants take minutes
            tasks.append(("quantity", u, v, {"x": kx, "y": ky}))
    # a float against a Decimal in the same unit (Python compares the two exactly; code that goes
    # through float() first rounds the Decimal)
    for u in ("measured.si.Meter", "(measured.si.Kilo * measured.si.Meter)", "measured.si.Second"):
        tasks.append(("quantity", u, u, {"x": "float", "y": "dec"}))
        tasks.append(("quantity", u, u, {"x": "dec", "y": "float"}))
    mpairs = pairs[:4] if tier == "quick" else pairs[:10]
    for u, v in mpairs:
        for shape in ("MM", "MQ", "QM", "AM", "MA", "AQ", "AA"):
            ks = [("float", "float")] if tier == "quick" and shape != "MM" else \
                [("float", "float"), ("int", "float"), ("dec", "dec")]
            for km, ku in ks:
                if km == "int" and "us." in u + v:
                    # int magnitudes only decide the numeric-type dispatch, which does not
                    # depend on the units; with non-dyadic conversion constants the mixed
                    # integer/real queries take minutes, so ints are kept to exact pairs
                    continue
                tasks.append(("measurement", u, v, shape,
                              {"x": km, "s": ku, "y": km, "t": ku}))
    for tr in (TRIPLES if tier == "thorough" else TRIPLES[:3]):
        tasks.append(("triple",) + tr)
    for lu, qu in LEVEL_UNITS if tier == "thorough" else LEVEL_UNITS[:3]:
        for shape in ("LQ", "LM", "LL"):
            kinds = {"l": "float", "x": "float"}
            if shape == "LM":
                kinds["s"] = "float"
            tasks.append(("level", lu, qu, shape, kinds))
    return tasks


ORDER_REPLAY = """
A, B, C = {a}, {b}, {c}
qa, qb, qc = {xa!r} * A, {xb!r} * B, {xc!r} * C
obs = (qa < qb, qb < qc, qc < qa)
print(qa, '<', qb, ':', obs[0], ' ', qb, '<', qc, ':', obs[1], ' ', qc, '<', qa, ':', obs[2])
print('sorted:', sorted([qa, qb, qc]), ' and from the other end:', sorted([qc, qb, qa]))
if all(obs):
    print('REPRODUCED: a < b < c < a: no assignment of physical values agrees with this order'); sys.exit(1)
sys.exit(0)
"""


def order_cycle(rep: report.Report, dim: str, named: List[str], core: List[Tuple], cs: List[Tuple],
                pid: str = "C12") -> None:
    """The factors between named units of a dimension admit no consistent sizes (c04's query): then
    `<`, which compares through those factors, cannot agree with any physical values.  A triple
    whose factors multiply round to less than 1 gives three quantities with a < b < c < a."""
    K = {(c[1], c[2]): (Fraction(c[5], c[6]), c[3], c[4]) for c in cs}
    units = sorted({c[1] for c in core} | {c[2] for c in core})
    best = None
    for a, b, c in itertools.permutations(units, 3):
        if (a, b) in K and (b, c) in K and (c, a) in K:
            P = K[(a, b)][0] * K[(b, c)][0] * K[(c, a)][0]
            if P < 1 and (best is None or P < best[0]):
                best = (P, a, b, c)
    name = f"order among the named units of {dim} agrees with some assignment of physical values"
    if best is None or 1 - best[0] < Fraction(1, 10 ** 7):
        rep.ob("unknown", name + " (no consistent sizes, but no triple whose order is cyclic beyond rounding)", ("order", dim))
        return
    P, a, b, c = best
    d = ((1 / float(P)) ** (1 / 3) - 1) / 2
    xa = 1.0
    xb = xa * float(K[(a, b)][0]) * (1 + d)
    xc = xb * float(K[(b, c)][0]) * (1 + d)
    rep.ob("sat", name, ("order", dim))
    rep.violation(f"{pid}:order:{dim}:" + "|".join(named),
                  f"{xa!r} {a} < {xb!r} {b} < {xc!r} {c} < {xa!r} {a}: the factors between them multiply round to "
                  f"{float(P)!r}, so the order agrees with no physical values (units concerned: {named})",
                  families.REPLAY_IMPORTS + ORDER_REPLAY.format(a=K[(a, b)][1], b=K[(b, c)][1], c=K[(c, a)][1],
                                                                xa=xa, xb=xb, xc=xc))


def named_order(rep: report.Report) -> None:
    """Order against physical values over ALL named units of a dimension, through c04's sizes query."""
    from props import c04

    coeffs = c04.named_coefficients()
    rep.coverage["named_pairs_for_order"] = len(coeffs)
    c04.sizes_feasibility(rep, coeffs, emit=order_cycle)


def main(tier: str, selftest_cases: int = 0) -> int:
    rep = report.Report(PID, tier, "other")
    tasks = families.shuffled(tasks_for(tier), rep.seed)
    results = par.run("props.c12", "worker", tasks)
    work.merge(rep, results)
    hash_witnesses(rep, [tuple(w) for r in results for w in r.get("witness", [])])
    named_order(rep)
    rep.functions.update(FUNCTIONS)
    rep.coverage["configurations"] = len(tasks)
    rep.coverage["exhaustive"] = True
    rep.coverage["selftest_cases"] = selftest_cases
    rep.coverage["bounds"] = (
        "symbolic (all reals / ints): magnitudes x, y; uncertainties s, t >= 0; relative "
        "`within` >= 0; level magnitude in [-200, 200]. Enumerated completely: "
        f"{len(tasks)} configurations = unit pairs x operand kinds x numeric kinds "
        "(listed in props/c12.py). Tie zone excluded for different units: "
        f"|X-Y| <= {TOL}*(|X|+|Y|) in physical values from the declaration oracle.")
    rep.coverage["explanation"] = (
        "The real comparison operators run on solver-backed magnitudes; per path z3 proves "
        "that away from ties exactly one of <, ==, > holds in agreement with the physical "
        "values of the independent oracle, <= / >= mirror, == is reflexive and symmetric "
        "(Measurement/approximately/Level: for all measurands and uncertainties), and "
        "searches for equal quantities whose hashed tuples differ (replayed with real hash()).")
    rep.assumptions += [
        "exact real arithmetic over the binary constants present in the code",
        "ln/exp uninterpreted with instance axioms for Level.quantify",
        "hash: Python hashes numerically equal int/float/Decimal equally (language guarantee)",
    ]
    return rep.finish()
