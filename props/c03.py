"""C03 -- Quantity operations obey dimensional analysis; incommensurables are rejected (E1).

Symbolic: both magnitudes (int / float / Decimal kinds) and plain-number operands.  What the
solver adds over examples: every feasible path (a zero, negative or huge magnitude taking a
different branch) is enumerated with its condition, and the unit, dimension, numeric type and
exception class observed on it must be the same for all magnitudes on that path.
"""

from __future__ import annotations

import itertools
from decimal import Decimal
from typing import Any, Dict, List, Optional, Tuple

import z3

from engine import families, par, report, symnum, work
from engine.symnum import bool_term, explore, mk, real, var

PID = "C03"
X, Y = {k: var(k, f"x_{k}") for k in ("int", "float", "dec")}, \
    {k: var(k, f"y_{k}") for k in ("int", "float", "dec")}

UNITS = [
    "measured.si.Meter", "measured.us.Foot", "(measured.si.Kilo * measured.si.Meter)",
    "measured.si.Second", "measured.si.Hour", "measured.si.Kilogram", "measured.si.Newton",
    "(measured.si.Meter / measured.si.Second)", "(measured.si.Meter ** 2)", "measured.One",
    "measured.si.Hertz", "(measured.si.Kilogram * measured.si.Meter ** 2 / measured.si.Second ** 2)",
    "(measured.si.Milli * measured.si.Gram / measured.si.Liter)", "measured.iec.Byte",
]
BINOPS = ["add", "sub", "mul", "div", "eq", "lt", "le", "gt", "ge", "in_unit"]
UNDEFINED_OK = {"ZeroDivisionError", "DivisionByZero", "InvalidOperation", "NonFinite",
                "ComplexResult", "Overflow"}


def ns() -> Dict[str, Any]:
    import measured
    import measured.systems  # noqa

    return {"measured": measured}


def dim_of(u: Any) -> Tuple[int, ...]:
    return tuple(u.dimension.exponents)


def dim_code(d: Tuple[int, ...]) -> str:
    return f"measured.Dimension({d!r})"


def run(fn: Any) -> Any:
    ex = explore(fn, max_paths=64)
    if not ex.complete:
        raise symnum.HarnessError("path limit")
    return ex


def outcome_kind(v: Any) -> str:
    from measured import Quantity, Unit

    if isinstance(v, Quantity):
        return "Quantity"
    if isinstance(v, Unit):
        return "Unit"
    if isinstance(v, symnum.SBool) or isinstance(v, bool):
        return "bool"
    if symnum.is_sym(v) or isinstance(v, (int, float, Decimal)):
        return "number"
    return type(v).__name__


def replay(expr: str, uc: str, vc: str, kx: str, ky: str, want: str) -> str:
    lit = {"int": "{v}", "float": "{v}.5", "dec": "Decimal('{v}.5')"}
    return families.REPLAY_IMPORTS + f"""from decimal import Decimal
U, V = {uc}, {vc}
bad = []
for xv, yv in ((3, 2), (0, 5), (-4, 1), (7, -2)):
    x, y = {lit[kx].format(v='xv')}, {lit[ky].format(v='yv')}
    x, y = eval(repr(x).replace('xv', str(xv))) if False else x, y
    a, b = x * U, y * V
    try:
        r = {expr}
        o = ('ok', type(r).__name__, str(getattr(r, 'unit', None) and r.unit.dimension.exponents),
             type(getattr(r, 'magnitude', None)).__name__, repr(r))
    except Exception as e:
        o = ('exc', type(e).__name__)
    print(x, y, '->', o)
    want = {want}
    if not want(o, a, b):
        bad.append((x, y, o))
if bad:
    print('REPRODUCED:', bad); sys.exit(1)
sys.exit(0)
""".replace("{lit_x}", "")


def check_config(acc: work.Acc, op: str, shape: str, uc: str, vc: str, kx: str, ky: str,
                 n: int = 0) -> None:
    """shape: QQ, QU (Quantity op Unit), UQ (Unit op Quantity), QN (Quantity op number),
    NQ (number op Quantity)."""
    n_ = ns()
    U, V = eval(uc, n_), eval(vc, n_)
    import measured
    from measured import Quantity

    dU, dV = dim_of(U), dim_of(V)
    same_dim = dU == dV
    label = f"{op}/{shape}/{families.show(U)},{families.show(V)}/{kx},{ky}" + (f"/n={n}" if op in ("pow", "root") else "")

    def fn() -> Any:
        a = Quantity(mk(kx, X[kx]), U)
        if shape == "QQ":
            b: Any = Quantity(mk(ky, Y[ky]), V)
        elif shape == "QU":
            b = V
        else:
            b = mk(ky, Y[ky])
        if shape == "NQ":
            a, b = b, a
        if shape == "UQ":
            a, b = U, Quantity(mk(ky, Y[ky]), V)
        if op == "add":
            return a + b
        if op == "sub":
            return a - b
        if op == "mul":
            return a * b
        if op == "div":
            return a / b
        if op == "eq":
            return a == b
        if op == "lt":
            return a < b
        if op == "le":
            return a <= b
        if op == "gt":
            return a > b
        if op == "ge":
            return a >= b
        if op == "in_unit":
            return a.in_unit(V)
        if op == "pow":
            return a ** n
        if op == "root":
            return a.root(n)
        if op == "neg":
            return -a
        if op == "pos":
            return +a
        if op == "abs":
            return abs(a)
        raise symnum.HarnessError(op)

    ex = run(fn)
    acc.explored(ex)
    any_dec = (ky == "dec") if shape == "UQ" else "dec" in ((kx, ky) if shape != "QU" and op not in ("pow", "root", "neg", "pos", "abs", "in_unit") else (kx,))
    for i, p in enumerate(ex.paths):
        key = (label, i)
        name = f"{label}#p{i}"
        ok = True
        why = ""
        if p.exc is not None:
            en = type(p.exc).__name__
            if isinstance(p.exc, TypeError) and "decimal" in str(p.exc).lower() and "float" in str(p.exc):
                acc.ob("unsat", name + ":python-rejects-float-decimal-mix", key)
                continue
        if op in ("add", "sub", "lt", "le", "gt", "ge", "in_unit") and shape in ("QQ", "UQ") and not same_dim:
            # incommensurable: must raise TypeError or ConversionNotFound, never yield a value
            ok = p.exc is not None and type(p.exc).__name__ in ("TypeError", "ConversionNotFound")
            why = f"incommensurable {op} ended with {p.outcome if p.exc else outcome_kind(p.result)}"
        elif op == "eq" and shape == "QQ" and not same_dim:
            ok = p.exc is None and (p.result is False or
                                    z3.is_false(z3.simplify(bool_term(p.result))))
            why = f"== between different dimensions gave {p.result!r}/{p.outcome}"
        elif p.exc is not None:
            en = type(p.exc).__name__
            if en in UNDEFINED_OK:
                # only where the operation is undefined: divisor zero / zero to a negative power
                zero = {"div": (Y[ky] == 0) if shape in ("QQ", "QN", "UQ") else (X[kx] == 0),
                        "pow": X[kx] == 0, "root": X[kx] <= 0}.get(op)
                if zero is None:
                    ok, why = False, f"{en} from {op}"
                else:
                    r, _ = acc.P.check(p.cond, z3.Not(zero))
                    ok = r == "unsat"
                    why = f"{en} from {op} where the operation is defined"
            elif en in ("TypeError",) and shape in ("QN", "NQ", "QU") and op in ("add", "sub", "lt", "le", "gt", "ge"):
                ok = True  # a plain number / unit is not a quantity: rejecting is dimensional analysis
            elif en == "TypeError" and shape == "UQ":
                ok = True  # a bare unit on the left may be refused; what is returned must be right
            elif en == "FractionalDimensionError" and op == "root":
                ok = True
            elif en == "ConversionNotFound" and op in ("add", "sub", "in_unit"):
                ok, why = False, "commensurable core units failed to convert"
            else:
                ok, why = False, f"{en} from {op}: {p.exc}"
        else:
            res = p.result
            if op in ("eq", "lt", "le", "gt", "ge"):
                ok = outcome_kind(res) == "bool" or res is NotImplemented
                why = f"comparison returned {outcome_kind(res)}"
            else:
                if outcome_kind(res) != "Quantity":
                    ok, why = False, f"{op} returned a {outcome_kind(res)}"
                else:
                    if op in ("add", "sub"):
                        want_dim, want_unit = dU, (U if shape not in ("NQ", "UQ") else None)
                    elif op == "mul":
                        want_dim = tuple(a + b for a, b in zip(dU, dV)) if shape in ("QQ", "QU", "UQ") else dU
                        want_unit = None
                    elif op == "div":
                        if shape in ("QQ", "QU", "UQ"):
                            want_dim = tuple(a - b for a, b in zip(dU, dV))
                        elif shape == "NQ":
                            want_dim = tuple(-b for b in dU)      # number / quantity
                        else:
                            want_dim = dU
                        want_unit = None
                    elif op == "pow":
                        want_dim, want_unit = tuple(a * n for a in dU), None
                    elif op == "root":
                        if n and any(a % n for a in dU):
                            # no such root exists among integer dimensions: only a refusal is right
                            want_dim = "refused"
                        else:
                            want_dim = tuple(a // n for a in dU) if n else tuple(0 for _ in dU)
                        want_unit = None
                    elif op == "in_unit":
                        want_dim, want_unit = dV, V
                    else:
                        want_dim, want_unit = dU, U
                    got_dim = tuple(res.unit.dimension.exponents)
                    if want_dim == "refused":
                        ok, why = False, (f"root {n} of a quantity whose dimension exponents {tuple(dU)} it does "
                                          f"not divide returned dimension {got_dim} instead of being refused")
                    elif want_dim is not None and got_dim != want_dim:
                        ok, why = False, f"dimension {got_dim} expected {want_dim}"
                    if want_unit is not None and res.unit is not want_unit:
                        ok, why = False, f"result unit {res.unit} expected {want_unit}"
                    mk_ = symnum.kind_of(res.magnitude)
                    if any_dec and mk_ != "dec":
                        ok, why = False, f"magnitude is {mk_} although an operand is Decimal"
        if ok:
            acc.ob("unsat", name, key)
        else:
            acc.ob("sat", name, key)
            m = acc.P.shaped_model([p.cond], [X[kx], Y[ky]]) or {}
            sig = f"C03:{op}:{shape}:{families.show(U)},{families.show(V)}:{kx},{ky}"
            if op == "div" and shape == "NQ" and why.startswith("dimension"):
                sig = "C03:div:NQ:number-divided-by-quantity-keeps-the-unit"
            acc.out["viol"].append((sig,
                                    f"{label}: {why} at { {k: str(v) for k, v in m.items()} }",
                                    generic_replay(op, shape, uc, vc, kx, ky, n, m)))
    acc.sample({"config": label, "paths": [(p.outcome, [str(c) for c in p.pc][:3])
                                           for p in ex.paths[:3]]})


def generic_replay(op: str, shape: str, uc: str, vc: str, kx: str, ky: str, n: int,
                   m: Dict[str, Any]) -> str:
    from engine.work import lit

    xv = lit(kx, m.get(str(X[kx]), 3)) if m else {"int": "3", "float": "3.5", "dec": "Decimal('3.5')"}[kx]
    yv = lit(ky, m.get(str(Y[ky]), 2)) if m else {"int": "2", "float": "2.5", "dec": "Decimal('2.5')"}[ky]
    b = {"QQ": "y * V", "QU": "V", "QN": "y", "NQ": "y", "UQ": "y * V"}[shape]
    a, bb = ("x * U", b) if shape != "NQ" else (b, "x * U")
    if shape == "UQ":
        a = "U"
    expr = {"add": "a + b", "sub": "a - b", "mul": "a * b", "div": "a / b", "eq": "a == b",
            "lt": "a < b", "le": "a <= b", "gt": "a > b", "ge": "a >= b", "in_unit": "a.in_unit(V)",
            "pow": f"a ** {n}", "root": f"a.root({n})", "neg": "-a", "pos": "+a", "abs": "abs(a)"}[op]
    return families.REPLAY_IMPORTS + f"""from decimal import Decimal
from measured import Quantity
U, V = {uc}, {vc}
x, y = {xv}, {yv}
same_dim = U.dimension is V.dimension
def compute(x, y):
    a, b = {a}, {bb}
    return {expr}
# history: the same operation on numerically equal magnitudes of the other numeric types first
# (results must not depend on what was computed earlier in the process)
for wx in (int(x) if x == int(x) else None, float(x), Decimal(str(x))):
    if wx is not None and type(wx) is not type(x):
        try:
            compute(wx, y)
        except Exception:
            pass
a, b = {a}, {bb}
try:
    r = compute(x, y)
    o = ('ok', r)
except Exception as e:
    o = ('exc', type(e).__name__, str(e))
print(a, b, '->', o)
op, shape = {op!r}, {shape!r}
if shape in ('QQ', 'UQ') and not same_dim and op in ('add', 'sub', 'lt', 'le', 'gt', 'ge', 'in_unit'):
    if o[0] == 'ok' or o[1] not in ('TypeError', 'ConversionNotFound'):
        print('REPRODUCED: incommensurable operation did not raise TypeError/ConversionNotFound'); sys.exit(1)
    sys.exit(0)
if shape == 'QQ' and not same_dim and op == 'eq':
    if o != ('ok', False):
        print('REPRODUCED: == across dimensions is not False'); sys.exit(1)
    sys.exit(0)
if o[0] == 'exc' and shape == 'UQ' and o[1] == 'TypeError':
    sys.exit(0)
if o[0] == 'exc':
    print('REPRODUCED: unexpected exception', o); sys.exit(1)
r = o[1]
if isinstance(r, Quantity):
    dU, dV = U.dimension.exponents, V.dimension.exponents
    want = dict(add=dU, sub=dU, mul=tuple(p + q for p, q in zip(dU, dV)) if shape in ('QQ', 'QU', 'UQ') else dU,
                div=tuple(p - q for p, q in zip(dU, dV)) if shape in ('QQ', 'QU', 'UQ') else dU,
                pow=tuple(p * {n} for p in dU),
                root=(tuple(p // ({n} or 1) for p in dU) if not any(p % ({n} or 1) for p in dU) else 'refused') if {n} else tuple(0 for _ in dU),
                in_unit=dV, neg=dU, pos=dU, abs=dU)[op]
    if shape == 'NQ' and op == 'div':
        want = tuple(-p for p in dU)
    dec = isinstance(x, Decimal) or (isinstance(y, Decimal) and shape in ('QQ', 'QN', 'NQ') and op in ('add', 'sub', 'mul', 'div'))
    if shape == 'UQ':
        dec = isinstance(y, Decimal)
    if tuple(r.unit.dimension.exponents) != tuple(want) or (dec and not isinstance(r.magnitude, Decimal)) \\
            or (op in ('add', 'sub') and shape not in ('NQ', 'UQ') and r.unit is not U):
        print('REPRODUCED: wrong dimension / unit / numeric type', r.unit.dimension.exponents, want, type(r.magnitude)); sys.exit(1)
elif op not in ('eq', 'lt', 'le', 'gt', 'ge'):
    print('REPRODUCED: result is not a Quantity:', type(r)); sys.exit(1)
sys.exit(0)
"""


def worker(task: List[Tuple]) -> Dict[str, Any]:
    families.boot()
    acc = work.Acc()
    with symnum.Shims():
        for cfg in task:
            check_config(acc, *cfg)
    return acc.finish()


def tasks_for(tier: str) -> List[List[Tuple]]:
    units = UNITS if tier == "thorough" else UNITS[:12]
    kinds_all = list(itertools.product(("int", "float", "dec"), repeat=2))
    kinds_quick = [("float", "float"), ("int", "float"), ("dec", "dec"), ("dec", "int"), ("float", "dec")]
    cfgs: List[Tuple] = []
    pairs = list(itertools.product(units, units))
    if tier == "quick":
        pairs = pairs[::3]
    for uc, vc in pairs:
        for op in BINOPS:
            for (kx, ky) in ([("float", "float")] if tier == "quick" else kinds_quick[:3]):
                cfgs.append((op, "QQ", uc, vc, kx, ky))
    # numeric kinds x operators on a few pairs (same and different dimension)
    few = [(units[0], units[1]), (units[0], units[3]), (units[6], units[11 % len(units)]),
           (units[2], units[2])]
    for uc, vc in few:
        for op in BINOPS:
            for (kx, ky) in (kinds_all if tier == "thorough" else kinds_quick):
                cfgs.append((op, "QQ", uc, vc, kx, ky))
        for op in ("mul", "div", "add", "sub", "lt"):
            for shape in ("QU", "UQ", "QN", "NQ"):
                for (kx, ky) in kinds_quick:
                    cfgs.append((op, shape, uc, vc, kx, ky))
    for uc in units:
        for kx in ("int", "float", "dec"):
            for n in range(-4, 5):
                cfgs.append(("pow", "QN", uc, uc, kx, "int", n))
            for op in ("neg", "pos", "abs"):
                cfgs.append((op, "QN", uc, uc, kx, "int"))
        # roots: of unit**d for the degrees that divide
        for d in (1, 2, 3, -1, -2, 0):
            for kx in ("float", "dec", "int"):
                src = f"({uc} ** {d})" if d else uc
                cfgs.append(("root", "QN", src, src, kx, "int", d))
        # roots the dimension does not allow, of either sign of the degree
        for d in (2, -2, 3, -3):
            cfgs.append(("root", "QN", uc, uc, "float", "int", d))
            cfgs.append(("root", "QN", f"({uc} ** 3)", f"({uc} ** 3)", "dec", "int", 2 if d > 0 else -2))
    return [ch for ch in par.chunks(cfgs, 48)]


def main(tier: str, selftest_cases: int = 0) -> int:
    rep = report.Report(PID, tier, "other")
    tasks = families.shuffled(tasks_for(tier), rep.seed)
    results = par.run("props.c03", "worker", tasks)
    work.merge(rep, results)
    rep.functions.update([f"measured.Quantity.{m}" for m in (
        "__add__", "__sub__", "__mul__", "__rmul__", "__truediv__", "__rtruediv__", "__pow__",
        "root", "__neg__", "__pos__", "__abs__", "__eq__", "__lt__", "in_unit")] + [
        "functools.total_ordering derived orderings", "measured._add", "measured._sub",
        "measured._mul", "measured._div", "measured._pow", "measured.conversions.convert",
        "measured.Unit._multiply", "measured.Unit._divide", "measured.Unit.__pow__",
        "measured.Unit.root"])
    rep.coverage["configurations"] = sum(len(t) for t in tasks)
    rep.coverage["selftest_cases"] = selftest_cases
    rep.coverage["exhaustive"] = True
    rep.coverage["bounds"] = (
        "symbolic: magnitudes and plain-number operands of int/float/Decimal kind. Enumerated: "
        f"{len(UNITS if tier == 'thorough' else UNITS[:12])} units of 8 dimensions (named, prefixed, "
        "compound with negative exponents, dimensionless), unit pairs (quick: every third), "
        "operators + - * / == < <= > >= in_unit ** root neg pos abs, operand shapes "
        "Quantity/Unit/number on either side, exponents and degrees in [-4,4].")
    rep.coverage["explanation"] = (
        "Real operators on symbolic magnitudes; every feasible path is enumerated by the solver "
        "and on each path the result's dimension (oracle: exponent-tuple arithmetic), unit "
        "(+/- keep the left unit), numeric type (Decimal whenever an operand is) and exception "
        "class (TypeError/ConversionNotFound for incommensurables, == False) are checked; "
        "arithmetic exceptions must be confined (z3) to where the operation is undefined.")
    rep.assumptions += ["Decimal context rounding outside the claim",
                        "float**Decimal style mixtures that Python itself rejects are recorded as such"]
    return rep.finish()
