"""C15 -- pickle, copy and JSON round-trip, preserving identity (E2 + transports by contract).

The transports (pickle, copy, json) are C / stdlib code; their documented contracts are
(a) pickle protocol >= 2 and copy rebuild an object as cls.__new__(cls, *args, **kwargs) with
(args, kwargs) = obj.__getnewargs_ex__() and then restore the slot state, (b) json is the
bottom-up structural map with default=/object_hook=.  Decided symbolically is the library's side:
on shadow objects with unbounded symbolic exponents the real __getnewargs_ex__ fed to the real
__new__ (table model with symbolic membership) reproduces the object's own intern key, and the
real __json__ -> __from_json__ does the same.  The contracts themselves are validated on every
run by pushing every registered dimension, prefix and unit and a compound family through the
real pickle / copy / deepcopy / json.
"""

from __future__ import annotations

import copy
import itertools
import json
import pickle
from decimal import Decimal
from typing import Any, Dict, List, Tuple

import z3

from engine import families, internmodel as im, par, report, symnum, work
from engine.symnum import SInt, explore, term
from props import c02

PID = "C15"


def symbolic_newargs(rep: report.Report) -> None:
    import measured

    N = im.ndim()
    P = symnum.Prover()
    cases = []

    def dim_case() -> Any:
        d = im.shadow_dimension([0] + [SInt(z3.Int(f"g{j}")) for j in range(1, N)])
        args, kwargs = d.__getnewargs_ex__()
        with_tables.models["Dimension._known"].on_present = lambda k: d
        r = measured.Dimension.__new__(measured.Dimension, *args, **kwargs)
        return ("Dimension", d, r, args, list(with_tables.models["Dimension._known"].writes))

    def prefix_case() -> Any:
        p = im.shadow_prefix(10, SInt(z3.Int("p")))
        args, kwargs = p.__getnewargs_ex__()
        with_tables.models["Prefix._known"].on_present = lambda k: p
        r = measured.Prefix.__new__(measured.Prefix, *args, **kwargs)
        return ("Prefix", p, r, args, list(with_tables.models["Prefix._known"].writes))

    def unit_case(nf: int = 3, identity: bool = False) -> Any:
        bs = [measured.Unit._by_name[n] for n in ("meter", "second", "pound-force")][:nf]
        fs = {b: SInt(z3.Int(f"e{i}")) for i, b in enumerate(bs)}
        dim = im.shadow_dimension([SInt(z3.simplify(t)) for t in im.dim_of_factors(fs, N)])
        # the real identity prefix object: code may test `prefix is IdentityPrefix`
        pre = measured.IdentityPrefix if identity else im.shadow_prefix(10, SInt(z3.Int("p")))
        u = im.shadow_unit(pre, fs, dim)
        args, kwargs = u.__getnewargs_ex__()
        with_tables.models["Unit._known"].on_present = lambda k: u
        r = measured.Unit.__new__(measured.Unit, *args, **kwargs)
        return ("Unit", u, r, args, list(with_tables.models["Unit._known"].writes))

    import functools

    for fn in (dim_case, prefix_case, unit_case, functools.partial(unit_case, 1, True),
               functools.partial(unit_case, 2, True), functools.partial(unit_case, 1, False)):
        with symnum.Shims(), im.Tables("symbolic") as with_tables:
            def run() -> Any:
                with_tables.reset()
                return fn()
            ex = explore(run, assumptions=[z3.Int("p") != 0] + [z3.Int(f"e{i}") != 0 for i in range(3)],
                         max_paths=32)
        rep.merge_stats(queries=ex.queries, solver_s=ex.solver_s, paths=len(ex.paths))
        for i, p in enumerate(ex.paths):
            if p.exc is not None:
                raise symnum.HarnessError(f"newargs run raised {p.outcome}: {p.exc}")
            kind, obj, r, args, writes = p.result
            if r is obj:
                rep.ob("unsat", f"{kind}: __getnewargs_ex__ -> __new__ on the present path returns the object "
                                "itself, no table write", ("newargs", kind, i))
                if writes:
                    raise symnum.HarnessError("present path wrote to the table")
                continue
            # absent path: the key the constructor registered must be the object's own key
            if kind == "Dimension":
                same = z3.And(*[term(a) == term(b) for a, b in zip(args[0], obj.exponents)])
            elif kind == "Prefix":
                same = z3.And(z3.BoolVal(args[0] == obj.base), term(args[1]) == term(obj.exponent))
            else:
                same_keys = set(map(id, args[1])) == set(map(id, obj.factors))
                # (a base unit proper is pickled with empty factors and re-keyed under itself;
                # a shadow unit here never is one: its factors are other, registered units)
                same = z3.And(z3.BoolVal(args[0] is obj.prefix and args[2] is obj.dimension),
                              z3.BoolVal(same_keys),
                              *([term(args[1][f]) == term(obj.factors[f]) for f in obj.factors] if same_keys else []))
            st, _ = P.check(p.cond, z3.Not(same))
            rep.ob("unsat" if st == "unsat" else "sat", f"{kind}: the key rebuilt from __getnewargs_ex__ equals "
                   "the object's intern key", ("newargs", kind, i))
            if st != "unsat":
                rep.violation(f"C15:newargs:{kind}", f"{kind}.__getnewargs_ex__ does not reproduce the intern key "
                              f"(factors {len(getattr(obj, 'factors', ()))}, prefix "
                              f"{'identity' if getattr(obj, 'prefix', None) is measured.IdentityPrefix else 'other'})",
                              transport_replay(kind))
    rep.merge_stats(queries=P.asked, solver_s=P.solver_s)


def symbolic_json(rep: report.Report) -> None:
    """Real __json__ then __from_json__ on shadow objects (the json module in between is the
    identity on this structure apart from tuple -> list, applied by hand)."""
    import measured

    N = im.ndim()
    P = symnum.Prover()

    def tolist(x: Any) -> Any:
        if isinstance(x, tuple):
            return [tolist(v) for v in x]
        if isinstance(x, list):
            return [tolist(v) for v in x]
        return x

    def fn() -> Any:
        p = im.shadow_prefix(10, SInt(z3.Int("p")))
        pj = dict(p.__json__())
        p2 = measured.Prefix.__from_json__(pj)
        d = im.shadow_dimension([0] + [SInt(z3.Int(f"g{j}")) for j in range(1, 4)] + [0] * (N - 4))
        dj = dict(d.__json__())
        dj["exponents"] = tolist(dj["exponents"])
        d2 = measured.Dimension.__from_json__(dj)
        bs = [measured.Unit._by_name[n] for n in ("meter", "second")]
        fs = {b: SInt(z3.Int(f"e{i}")) for i, b in enumerate(bs)}
        u = im.shadow_unit(p, fs, d)
        uj = u.__json__()
        # what the decoder hands to Unit.__from_json__: nested objects already decoded bottom-up
        doc = {"name": uj["name"], "symbol": uj["symbol"], "dimension": d2,
               "prefix": (measured.Prefix.__from_json__(uj["prefix"]) if uj["prefix"] else None),
               "factors": [[f, e] for f, e in uj["factors"]] if uj["factors"] else None}
        u2 = measured.Unit.__from_json__(doc)
        return p, p2, d, d2, u, u2

    with symnum.Shims(), im.Tables("absent"):
        ex = explore(fn, assumptions=[z3.Int("p") != 0, z3.Int("e0") != 0, z3.Int("e1") != 0], max_paths=32)
    rep.merge_stats(queries=ex.queries, solver_s=ex.solver_s, paths=len(ex.paths))
    for i, pth in enumerate(ex.paths):
        if pth.exc is not None:
            raise symnum.HarnessError(f"json run raised {pth.outcome}: {pth.exc}")
        p, p2, d, d2, u, u2 = pth.result
        for kind, a, b in (("Prefix", p, p2), ("Dimension", d, d2), ("Unit", u, u2)):
            comparable, cond, why = c02.key_equal(a, b) if kind != "Unit" else (
                True, z3.And(c02.key_equal(a.prefix, b.prefix)[1],
                             z3.BoolVal(set(map(id, a.factors)) == set(map(id, b.factors))),
                             *[term(a.factors[f]) == term(b.factors[f]) for f in a.factors
                               if f in b.factors]), "unit")
            st, _ = P.check(pth.cond, z3.Not(cond if comparable else z3.BoolVal(False)))
            rep.ob("unsat" if st == "unsat" else "sat", f"{kind}: __from_json__(__json__(x)) has x's intern key",
                   ("json", kind, i))
            if st != "unsat":
                rep.violation(f"C15:json:{kind}", f"{kind} JSON round trip changes the intern key ({why})",
                              transport_replay(kind))
    rep.merge_stats(queries=P.asked, solver_s=P.solver_s)


def symbolic_quantity_json(rep: report.Report) -> None:
    """Quantity.__json__ / __from_json__ on a symbolic int / float magnitude: the magnitude must
    pass through untouched on every path (any branch on the value would show up as a fork)."""
    import measured
    from measured import Quantity

    for kind in ("int", "float", "dec"):
        mv = symnum.var(kind, "m")
        texts: List[Any] = []

        def fn() -> Any:
            q = Quantity(symnum.mk(kind, mv), measured.Unit._by_name["meter"])
            doc = q.__json__()
            if isinstance(doc["magnitude"], symnum.SStr):
                texts.append(doc["magnitude"])
            back = Quantity.__from_json__(dict(doc))
            return doc["magnitude"], back.magnitude, back.unit

        # a Decimal magnitude travels as its text: str(x) is a symbolic string in the language of
        # str(Decimal), and what the decoder does with it (Decimal(text), int(text), float(text))
        # is decided by the solver over that language
        symnum.STR_MODEL[0] = kind == "dec"
        try:
            with symnum.Shims():
                ex = explore(fn, max_paths=16)
        except symnum.NotEncodable as e:
            # an int / float magnitude is being rendered to text (or hashed) on some path: the JSON
            # form no longer carries it as a number for every value
            rep.ob("sat", f"Quantity JSON: a {kind} magnitude passes through unchanged for every value",
                   ("qjson", kind))
            rep.violation(f"C15:quantity:json:{kind}-magnitude-depends-on-value",
                          f"Quantity.__json__ converts some {kind} magnitudes ({e})", transport_replay("Quantity"))
            continue
        finally:
            symnum.STR_MODEL[0] = False
        rep.merge_stats(queries=ex.queries, solver_s=ex.solver_s, paths=len(ex.paths))
        if kind == "dec":
            decimal_text_paths(rep, ex, mv)
            continue
        ok = len(ex.paths) == 1 and ex.paths[0].exc is None and symnum.is_sym(ex.paths[0].result[0]) and \
            symnum.kind_of(ex.paths[0].result[1]) == kind and \
            ex.paths[0].result[2] is measured.Unit._by_name["meter"]
        if ok:
            P = symnum.Prover()
            st, _ = P.check(ex.paths[0].cond, symnum.real(ex.paths[0].result[1].t) != symnum.real(mv))
            ok = st == "unsat"
        rep.ob("unsat" if ok else "sat", f"Quantity JSON: a {kind} magnitude passes through unchanged for "
               "every value (single path, same term, same kind)", ("qjson", kind))
        if not ok:
            detail = [(p.outcome, [str(c) for c in p.pc][:2]) for p in ex.paths[:4]]
            rep.violation(f"C15:quantity:json:{kind}-magnitude-depends-on-value",
                          f"Quantity.__json__/__from_json__ treats some {kind} magnitudes differently: {detail}",
                          transport_replay("Quantity"))


def decimal_text_paths(rep: report.Report, ex: Any, mv: Any) -> None:
    """Every path of Quantity.__from_json__(Quantity.__json__(q)) for a Decimal magnitude must end
    with a Decimal of the same value; a path that ends otherwise comes with the text that takes it."""
    import measured

    P = symnum.Prover()
    for i, p in enumerate(ex.paths):
        key = ("qjson", "dec", i)
        name = f"Quantity JSON: a Decimal magnitude comes back a Decimal of the same value (path {i})"
        if p.exc is not None and isinstance(p.exc, symnum.HarnessError):
            rep.ob("unknown", name + f": {p.exc}", key)
            continue
        why = None
        if p.exc is not None:
            why = f"raises {type(p.exc).__name__}"
        else:
            text, back, unit = p.result
            if not isinstance(text, symnum.SStr) and not isinstance(text, str):
                why = f"the JSON form carries a {type(text).__name__}, which json cannot represent exactly"
            elif not symnum.is_sym(back) or symnum.kind_of(back) != "dec":
                why = f"comes back as {symnum.kind_of(back) if symnum.is_sym(back) else type(back).__name__}"
            elif unit is not measured.Unit._by_name["meter"]:
                why = "comes back in another unit"
            else:
                st, _ = P.check(p.cond, symnum.real(back.t) != symnum.real(mv))
                if st != "unsat":
                    why = f"comes back with another value ({st})"
        if why is None:
            rep.ob("unsat", name, key)
            continue
        rep.ob("sat", name + ": " + why, key)
        # the text that takes this path, from the solver
        st, m = P.check(p.cond)
        witness = None
        if st == "sat" and m is not None:
            for d in m.decls():
                if d.name().startswith("text!"):
                    witness = m[d].as_string()
        if witness is None:
            rep.ob("unknown", name + ": no text witness", key + ("witness",))
            continue
        rep.violation("C15:quantity:json:decimal-magnitude-text",
                      f"a Decimal magnitude printed as {witness!r} {why} from Quantity.__from_json__",
                      families.REPLAY_IMPORTS + f"""import json
from decimal import Decimal
from measured import Quantity
from measured.json import MeasuredJSONEncoder, MeasuredJSONDecoder
q = Quantity(Decimal({witness!r}), measured.si.Meter)
try:
    r = json.loads(json.dumps(q, cls=MeasuredJSONEncoder), cls=MeasuredJSONDecoder)
except Exception as e:
    print('REPRODUCED: the JSON round trip raises', type(e).__name__, e); sys.exit(1)
print(repr(q), '->', repr(r), type(r.magnitude).__name__)
if not (type(r.magnitude) is Decimal and r == q and r.magnitude == q.magnitude):
    print('REPRODUCED: a Decimal magnitude does not come back as the same Decimal'); sys.exit(1)
sys.exit(0)
""")


def transport_replay(kind: str) -> str:
    return families.REPLAY_IMPORTS + """import pickle, copy, json
from decimal import Decimal
from measured.json import MeasuredJSONEncoder, MeasuredJSONDecoder
from measured import Unit, Prefix, Dimension
from measured.si import Kilo, Milli, Meter, Second, Newton
from measured.iec import Kibi, Byte
objs = [Meter, Newton, Kilo * Meter, (Milli * Second) ** -2, Kilo * Newton / Meter ** 2, Kibi * Byte, Kilo, Kibi,
        Meter ** 2, Second ** -2, Meter ** -1, Meter ** 3 / Second, Kilo * Meter ** 2,
        Kilo * Kilo, Meter.dimension, Newton.dimension, (Meter ** 7 / Second ** 5).dimension, Meter ** 7 / Second ** 5]
bad = []
for o in objs:
    names = (getattr(o, 'names', None), getattr(o, 'symbols', None), getattr(o, 'name', None))
    for label, f in (('pickle', lambda x: pickle.loads(pickle.dumps(x))), ('copy', copy.copy), ('deepcopy', copy.deepcopy),
                     ('json', lambda x: json.loads(json.dumps(x, cls=MeasuredJSONEncoder), cls=MeasuredJSONDecoder))):
        try:
            r = f(o)
        except Exception as e:
            bad.append((label, repr(o), type(e).__name__)); continue
        if r is not o or names != (getattr(o, 'names', None), getattr(o, 'symbols', None), getattr(o, 'name', None)):
            bad.append((label, repr(o)))
# floats that need 1..17 significant digits, the extremes of the double range, long ints and Decimals:
# a transform of the rendered magnitude (rounding, a digit limit, a text detour) shows on some of them
FLOATS = [float(repr(1 / 3)[:d + 2]) for d in range(1, 18)] + [0.1 + 0.2, 1 / 3, -200 / 3, 123456789.12345679,
          1234567.891 * 1.1, 5e-324, 2.2250738585072014e-308, 1.7976931348623157e308, 9007199254740993.0, 1e22, 1e23, -1e-7]
for m in [5, 5.5, Decimal('5.25'), 2 ** 53 + 1, -(2 ** 70), 10 ** 30, 1e21, -0.1, Decimal('1E-30'),
          Decimal('0.1000000000000000055511151231257827'), Decimal('12345678901234567890.123456789')] + FLOATS:
    q = m * (Kilo * Meter / Second)
    for label, f in (('pickle', lambda x: pickle.loads(pickle.dumps(x))), ('deepcopy', copy.deepcopy),
                     ('json', lambda x: json.loads(json.dumps(x, cls=MeasuredJSONEncoder), cls=MeasuredJSONDecoder))):
        r = f(q)
        if not (r == q and type(r.magnitude) is type(m)) or (label != 'json' and r.unit is not q.unit):
            bad.append((label, repr(q), repr(r)))
if bad:
    print('REPRODUCED:', bad[:6]); sys.exit(1)
sys.exit(0)
"""


def transports_worker(task: Tuple) -> Dict[str, Any]:
    families.boot()
    import measured
    from measured.json import MeasuredJSONDecoder, MeasuredJSONEncoder, codecs_installed

    kind, names = task
    out: Dict[str, Any] = {"n": 0, "bad": []}

    def via_json(x: Any) -> Any:
        return json.loads(json.dumps(x, cls=MeasuredJSONEncoder), cls=MeasuredJSONDecoder)

    def via_installed(x: Any) -> Any:
        with codecs_installed():
            return json.loads(json.dumps(x))

    transports = [("pickle", lambda x: pickle.loads(pickle.dumps(x))),
                  ("pickle-proto2", lambda x: pickle.loads(pickle.dumps(x, protocol=2))),
                  ("copy", copy.copy), ("deepcopy", copy.deepcopy), ("json", via_json),
                  ("json-installed", via_installed)]
    objs: List[Tuple[str, Any]] = []
    if kind == "dimension":
        objs = [(repr(d), d) for d in list(measured.Dimension._known.values())]
    elif kind == "prefix":
        objs = [(repr(p), p) for p in list(measured.Prefix._known.values())]
    elif kind == "unit":
        objs = [(n, measured.Unit._by_name[n]) for n in names]
    elif kind == "compound":
        for (pn, un, e) in names:
            p = measured.Prefix._by_name[pn] if pn else measured.IdentityPrefix
            objs.append((f"({pn}*{un})**{e}", (p * measured.Unit._by_name[un]) ** e))
    for label, o in objs:
        state = (getattr(o, "names", None), getattr(o, "symbols", None), getattr(o, "name", None),
                 getattr(o, "symbol", None))
        for tname, f in transports:
            out["n"] += 1
            try:
                r = f(o)
            except Exception as e:
                out["bad"].append((kind, tname, label, f"{type(e).__name__}: {str(e)[:80]}"))
                continue
            now = (getattr(o, "names", None), getattr(o, "symbols", None), getattr(o, "name", None),
                   getattr(o, "symbol", None))
            if r is not o:
                out["bad"].append((kind, tname, label, "not the identical object"))
            elif now != state:
                out["bad"].append((kind, tname, label, f"names/symbols changed {state} -> {now}"))
        if kind in ("unit", "compound"):
            for m in (5, 5.5, Decimal("5.25"), -3, 0, 2 ** 53 + 1, -(2 ** 70), 1e21,
                      Decimal("1E+40"), 0.1):
                q = m * o
                for tname, f in transports:
                    out["n"] += 1
                    try:
                        r = f(q)
                    except Exception as e:
                        out["bad"].append(("quantity", tname, f"{m!r} {label}", f"{type(e).__name__}: {str(e)[:80]}"))
                        continue
                    ok = type(r.magnitude) is type(m) and r.magnitude == m
                    if not tname.startswith("json"):
                        ok = ok and r.unit is o
                    else:
                        # JSON carries the unit as text; 'kg' deliberately reads back as Kilogram,
                        # so compare physically (1e-9: float rounding of the conversion is outside)
                        same = r.unit is o
                        if not same:
                            try:
                                back = float(r.in_unit(o).magnitude)
                                same = abs(back - float(m)) <= 1e-9 * abs(float(m))
                            except Exception:
                                same = False
                        ok = ok and same
                    if not ok:
                        out["bad"].append(("quantity", tname, f"{m!r} {label}", f"got {r!r}"))
    return out


def decode_history(rep: report.Report, tier: str) -> None:
    """A quantity document / composite row decodes to the same unit whatever was decoded earlier
    in the process: a staged process decodes one document per registered symbol with one unit
    module imported, imports the rest, decodes again, and must agree with a process that
    imported everything first (the staged runner of C13, decoding instead of parsing)."""
    import json as _json
    import subprocess

    import measured
    from props import c13

    texts = sorted(set(measured.Unit._by_symbol))
    for mode in ("json", "quantity"):
        f = subprocess.run([report.REPO_PY, "-c", c13.FRESH_SRC, _json.dumps(texts), mode], capture_output=True,
                           text=True, timeout=300, cwd="/")
        if f.returncode != 0:
            raise symnum.HarnessError(f"fresh decode process failed: {f.stderr[-400:]}")
        ref = _json.loads(f.stdout.strip().splitlines()[-1])
        for first in (["us"] if tier == "quick" else ["si", "us", "iec", "energy", "avoirdupois"]):
            p = subprocess.run([report.REPO_PY, "-c", c13.STAGED_SRC, first, _json.dumps(texts), mode],
                               capture_output=True, text=True, timeout=300, cwd="/")
            if p.returncode != 0:
                raise symnum.HarnessError(f"staged decode process failed: {p.stderr[-400:]}")
            late = _json.loads(p.stdout.strip().splitlines()[-1])
            diff = [t for t in texts if late.get(t) != ref[t]]
            rep.obligations += len(texts)
            rep.discharged += len(texts) - len(diff)
            rep.nontrivial.add(("decode-history", mode, first))
            if diff:
                t = diff[0]
                rep.violation(f"C15:history:{mode}-decoding-depends-on-earlier-decodes",
                              f"after importing measured.{first}, decoding a quantity of every symbol ({mode}), then "
                              f"importing the rest, the unit text {t!r} decodes to {late.get(t)} instead of {ref[t]}",
                              c13.history_replay(first, diff[:20], mode).replace(
                                  "the result of parsing depends on what was parsed before",
                                  "the unit a quantity decodes to depends on what was decoded before"))
    rep.coverage["decode_history_texts"] = len(texts)


def main(tier: str, selftest_cases: int = 0) -> int:
    rep = report.Report(PID, tier, "other")
    families.boot()
    import measured

    decode_history(rep, tier)
    symbolic_newargs(rep)
    symbolic_json(rep)
    symbolic_quantity_json(rep)
    names = sorted(measured.Unit._by_name)
    comp = [(p, u, e) for p in (None, "kilo", "milli", "kibi", "micro")
            for u in [x.name for x in families.core_units()][: (12 if tier == "quick" else 33)]
            for e in (-2, -1, 1, 2, 3)]
    tasks = [("dimension", None), ("prefix", None)] + [("unit", ch) for ch in par.chunks(names, 12)] + \
        [("compound", ch) for ch in par.chunks(comp, 12)]
    res = par.run("props.c15", "transports_worker", tasks)
    n = sum(r["n"] for r in res)
    bad = [b for r in res for b in r["bad"]]
    rep.obligations += n
    rep.discharged += n - len(bad)
    rep.nontrivial.update(("transport", i) for i in range(min(n, 500)))
    rep.coverage["transport_round_trips"] = n
    groups: Dict[str, List[Tuple]] = {}
    for kind, tname, label, why in bad:
        head = why.split(":")[0].split(" ")[0]
        sig = f"C15:{kind}:{tname.split('-')[0]}:{head}"
        if kind == "quantity" and tname.startswith("json") and why.startswith("got "):
            sig = "C15:quantity:json:unit-text-parses-to-another-unit(C13 collision)"
        if kind in ("unit", "compound", "quantity") and "pars" in why.lower() or "Unexpected" in why or "KeyError" in why:
            sig = f"C15:{kind}:{tname.split('-')[0]}:unit-text-does-not-parse-back(C13)"
        groups.setdefault(sig, []).append((kind, tname, label, why))
    rep.coverage["finding_groups"] = {k: len(v) for k, v in groups.items()}
    for sig, fs in sorted(groups.items()):
        kind, tname, label, why = fs[0]
        rep.violation(sig, f"{len(fs)} case(s), e.g. {tname} of {kind} {label}: {why}",
                      single_replay(kind, tname, label))
    rep.sample({"transports": ["pickle", "pickle protocol 2", "copy", "deepcopy", "json (codec classes)",
                               "json (codecs_installed)"], "objects": n})
    rep.functions.update(["measured.Dimension.__getnewargs_ex__", "measured.Prefix.__getnewargs_ex__",
                          "measured.Unit.__getnewargs_ex__", "measured.*.__new__", "measured.*.__json__",
                          "measured.*.__from_json__", "measured.json.MeasuredJSONEncoder",
                          "measured.json.MeasuredJSONDecoder", "measured.json.codecs_installed",
                          "measured.Quantity.__json__", "measured.Quantity.__from_json__"])
    rep.coverage["selftest_cases"] = selftest_cases
    rep.coverage["bounds"] = ("symbolic: unbounded exponents of shadow dimensions/prefixes/units (<= 3 factors); "
                              "concrete: every registered dimension, prefix and unit, a compound family "
                              "(5 prefixes x core units x 5 exponents), quantities with magnitudes 5, 5.5, "
                              "Decimal('5.25'), -3, 0, through 6 transports")
    rep.coverage["explanation"] = (
        "The library's side of the transports' contracts is decided symbolically on the real code "
        "(newargs -> __new__ and __json__ -> __from_json__ reproduce the intern key for all exponents); "
        "the transports themselves are exercised concretely and exhaustively over the registries as "
        "the validation of those contracts.")
    rep.assumptions += ["pickle/copy: cls.__new__(cls, *args, **kwargs) + slot state restore; json: bottom-up "
                        "structural map (validated concretely on every run)",
                        "pydantic / SQLAlchemy internals beyond __json__ / __composite_values__ outside"]
    return rep.finish()


def single_replay(kind: str, tname: str, label: str) -> str:
    return families.REPLAY_IMPORTS + f"""import pickle, copy, json
from decimal import Decimal
from measured.json import MeasuredJSONEncoder, MeasuredJSONDecoder, codecs_installed
kind, tname, label = {kind!r}, {tname!r}, {label!r}
def installed(x):
    with codecs_installed():
        return json.loads(json.dumps(x))
f = {{'pickle': lambda x: pickle.loads(pickle.dumps(x)), 'pickle-proto2': lambda x: pickle.loads(pickle.dumps(x, protocol=2)),
     'copy': copy.copy, 'deepcopy': copy.deepcopy,
     'json': lambda x: json.loads(json.dumps(x, cls=MeasuredJSONEncoder), cls=MeasuredJSONDecoder),
     'json-installed': installed}}[tname]
def obj(lab):
    if lab.startswith('('):
        inner, e = lab.rsplit('**', 1)
        pn, un = inner.strip('()').split('*', 1)
        p = measured.Prefix._by_name[pn] if pn != 'None' else measured.IdentityPrefix
        return (p * measured.Unit._by_name[un]) ** int(e)
    if lab in measured.Unit._by_name:
        return measured.Unit._by_name[lab]
    return eval(lab, {{'Dimension': measured.Dimension, 'Prefix': measured.Prefix}})
if kind == 'quantity':
    m, lab = label.split(' ', 1)
    o = eval(m, {{'Decimal': Decimal}}) * obj(lab)
else:
    o = obj(label)
labels = lambda x: (getattr(x, 'names', None), getattr(x, 'symbols', None), getattr(x, 'name', None), getattr(x, 'symbol', None))
before = labels(o)
try:
    r = f(o)
except Exception as e:
    print('REPRODUCED:', tname, 'of', repr(o), 'raised', type(e).__name__, e); sys.exit(1)
print(repr(o), '->', repr(r))
if kind != 'quantity' and (labels(o) != before or labels(r) != before):
    print('REPRODUCED: the round trip changed the names / symbols:', before, '->', labels(o), labels(r)); sys.exit(1)
ok = (r is o) if kind != 'quantity' else (r == o and type(r.magnitude) is type(o.magnitude)
                                          and (r.unit is o.unit or tname.startswith('json')))
if not ok:
    print('REPRODUCED: round trip does not preserve the value / identity'); sys.exit(1)
sys.exit(0)
"""
