"""C17 -- parsing is total (E3 + real callbacks; level: model_checking).

parser.parse(text) = contextual lexer -> LALR driver -> inline callbacks of QuantityTransformer.
* lexer/driver raise only LarkError subclasses (AST side condition over the shipped _parser.py);
* callback obligations, decided by z3 over the shipped terminal regexes: every text of each
  terminal is in the domain of the callback it is handed to (int / float / DIGITS map), token
  length <= 64; the interpreter's int digit limit lies beyond that bound and is asked on a length
  abstraction of the terminal (integer loop counts), with the witness replayed;
* whole pipeline: the characters are partitioned into classes; z3 proves that no character set of
  any terminal regex splits a class, so two strings with the same class word lex identically;
  the real Unit.parse / Quantity.parse then run on one representative of EVERY class word of
  length <= L, plus the boundary representatives the callback obligations single out.
"""

from __future__ import annotations

import ast
import itertools
import os
import sys
from typing import Any, Dict, List, Optional, Tuple

import z3

from engine import families, internmodel as im, par, parsertables as pt, report, robust, symnum, work

PID = "C17"
MAXLEN = 64

# Python's documented literal grammars for int() and float() (ASCII part), as regexes
PY_INT = r"[ \t\n\r\x0b\x0c]*[+\-]?[0-9](?:_?[0-9])*[ \t\n\r\x0b\x0c]*"
PY_FLOAT = (r"[ \t\n\r\x0b\x0c]*[+\-]?(?:(?:[0-9](?:_?[0-9])*)?\.(?:[0-9](?:_?[0-9])*)|"
            r"[0-9](?:_?[0-9])*\.?)(?:[eE][+\-]?[0-9](?:_?[0-9])*)?[ \t\n\r\x0b\x0c]*")


def larkerror_side_condition() -> Tuple[int, List[str]]:
    """Every `raise` in the lexer / parser machinery of the shipped module raises a LarkError."""
    from measured import _parser

    src = open(_parser.__file__).read()
    tree = ast.parse(src)
    machinery = {"BasicLexer", "ContextualLexer", "LexerThread", "_Parser", "ParserState", "LALR_Parser",
                 "ParsingFrontend", "Scanner", "LineCounter"}
    bad, n = [], 0
    for node in ast.walk(tree):
        if isinstance(node, ast.ClassDef) and node.name in machinery:
            for sub in ast.walk(node):
                if isinstance(sub, ast.Raise) and sub.exc is not None:
                    n += 1
                    e = sub.exc
                    name = e.func.id if isinstance(e, ast.Call) and isinstance(e.func, ast.Name) else (
                        e.id if isinstance(e, ast.Name) else None)
                    if name is None or name[0].islower():
                        continue  # re-raise of a caught exception held in a variable
                    import builtins
                    cls = getattr(_parser, name, None) or getattr(builtins, name, None)
                    ok = isinstance(cls, type) and (issubclass(cls, _parser.LarkError) or
                                                    issubclass(cls, (AssertionError, NotImplementedError,
                                                                     StopIteration, EOFError)))
                    if not ok:
                        bad.append(f"{node.name}: raise {name} (line {sub.lineno})")
    return n, bad


def length_abstraction(pattern: str) -> List[Tuple[str, int, Optional[int], List[Tuple[int, int]]]]:
    """A terminal regex that is a concatenation of optional literals / classes and +/* loops over
    classes, as a list of (kind, min, max, charset); refuses any other shape."""
    sre_parse, sre_c = pt.sre_parse, pt.sre_c
    out = []

    def charset(op: Any, av: Any) -> List[Tuple[int, int]]:
        if op is sre_c.LITERAL:
            return [(av, av)]
        if op is sre_c.IN:
            rs = []
            for o2, a2 in av:
                if o2 is sre_c.LITERAL:
                    rs.append((a2, a2))
                elif o2 is sre_c.RANGE:
                    rs.append(tuple(a2))
                else:
                    raise symnum.HarnessError("length abstraction: class item outside the shape")
            return rs
        if op is sre_c.SUBPATTERN:
            inner = list(av[3])
            if len(inner) == 1:
                return charset(*inner[0])
        if op is sre_c.BRANCH:
            rs = []
            for b in av[1]:
                if len(b) != 1:
                    raise symnum.HarnessError("length abstraction: multi-character alternative")
                rs += charset(*b[0])
            return rs
        raise symnum.HarnessError(f"length abstraction: operator {op} outside the shape")

    for op, av in sre_parse.parse(pattern):
        if op in (sre_c.MAX_REPEAT, sre_c.MIN_REPEAT):
            lo, hi, sub = av
            sub = list(sub)
            if len(sub) != 1:
                raise symnum.HarnessError("length abstraction: loop over a sequence")
            out.append(("loop", lo, None if hi == sre_c.MAXREPEAT else hi, charset(*sub[0])))
        else:
            out.append(("one", 1, 1, charset(op, av)))
    return out


def callback_obligations(rep: report.Report, t: pt.Tables) -> List[Tuple[str, str, str]]:
    """Returns boundary witnesses [(text, start, why)] for the real parser."""
    P = symnum.Prover(60000)
    s = z3.String("s")
    witnesses: List[Tuple[str, str, str]] = []
    from measured import formatting

    def include(name: str, sub: Any, sup: Any, what: str) -> None:
        st, m = P.check(z3.InRe(s, sub), z3.Not(z3.InRe(s, sup)), z3.Length(s) <= MAXLEN)
        rep.ob("unsat" if st == "unsat" else ("unknown" if st == "unknown" else "sat"),
               f"callback:{name}: every text of the terminal (len <= {MAXLEN}) is in the domain of {what}",
               ("cb", name))
        if st == "sat":
            w = pt.z3_string(m.eval(s, model_completion=True))
            ctx_ = {"SIGNED_INT": (w + " m", "quantity"), "SIGNED_FLOAT": (w + " m", "quantity"),
                    "CARAT_EXPONENT": ("m" + w, "unit"), "SUPERSCRIPT_EXPONENT": ("m" + w, "unit")}[name]
            witnesses.append((ctx_[0], ctx_[1], f"{name} text {w!r} outside the domain of {what}"))

    include("SIGNED_INT", pt.terminal_re(t, "SIGNED_INT"), pt.regex_to_z3(PY_INT), "int()")
    include("SIGNED_FLOAT", pt.terminal_re(t, "SIGNED_FLOAT"), pt.regex_to_z3(PY_FLOAT), "float()")
    include("CARAT_EXPONENT", pt.terminal_re(t, "CARAT_EXPONENT"),
            z3.Concat(z3.Re(z3.StringVal("^")), pt.regex_to_z3(PY_INT)), "int(text[1:])")
    # SUPERSCRIPT_EXPONENT: every character is a key of DIGITS, and the mapped text is an int literal
    keys = z3.Union(*[z3.Re(z3.StringVal(k)) for k in formatting.DIGITS])
    include("SUPERSCRIPT_EXPONENT", pt.terminal_re(t, "SUPERSCRIPT_EXPONENT"), z3.Plus(keys),
            "DIGITS[c] for every character")
    minus = [k for k, v in formatting.DIGITS.items() if v == "-"]
    digs = [k for k, v in formatting.DIGITS.items() if v.isdigit()]
    mapped_ok = z3.Concat(z3.Option(z3.Union(*[z3.Re(z3.StringVal(k)) for k in minus]) if len(minus) > 1
                                    else z3.Re(z3.StringVal(minus[0]))),
                          z3.Plus(z3.Union(*[z3.Re(z3.StringVal(k)) for k in digs])))
    include("SUPERSCRIPT_EXPONENT", pt.terminal_re(t, "SUPERSCRIPT_EXPONENT"), mapped_ok,
            "int() of the mapped text (sign only in front, digits only)")
    # the interpreter's digit limit, on the length abstraction
    limit = sys.get_int_max_str_digits() if hasattr(sys, "get_int_max_str_digits") else 0
    for name, prefix, suffix, start in (("SIGNED_INT", "", " m", "quantity"),
                                        ("CARAT_EXPONENT", "m", "", "unit"),
                                        ("SUPERSCRIPT_EXPONENT", "m", "", "unit")):
        shape = length_abstraction(t.terminals[name][1])
        S = z3.Solver()
        S.set("timeout", 10000)
        counts = []
        for i, (kind, lo, hi, cs) in enumerate(shape):
            c = z3.Int(f"n{i}")
            S.add(c >= lo)
            if hi is not None:
                S.add(c <= hi)
            counts.append((c, cs))
        digit_runs = [c for c, cs in counts if all(chr(a).isdigit() or chr(a) in formatting.DIGITS
                                                   for a, b in cs for _ in (0,)) and
                      any((chr(a).isdigit() or formatting.DIGITS.get(chr(a), "").isdigit()) for a, _ in cs)]
        S.add(z3.Sum(digit_runs) > limit if limit else z3.BoolVal(False))
        r = str(S.check())
        rep.queries += 1
        if r != "sat":
            rep.ob("unsat" if r == "unsat" else "unknown",
                   f"callback:{name}: no text of the terminal exceeds the interpreter's {limit}-digit int "
                   f"limit (length abstraction {[(k, lo, hi) for k, lo, hi, _ in shape]})", ("limit", name))
        # when such texts exist (sat) the obligation is discharged by what the real parser does
        # with the witness ("boundary witness" below)
        if r == "sat":
            m = S.model()
            text = ""
            for c, cs in counts:
                n = m.eval(c, model_completion=True).as_long()
                ch = chr(cs[-1][0]) if not chr(cs[-1][0]).isdigit() else "9"
                if n and not (chr(cs[0][0]).isdigit() or formatting.DIGITS.get(chr(cs[0][0]), "").isdigit()):
                    ch = chr(cs[0][0])
                elif n and formatting.DIGITS.get(chr(cs[0][0]), "").isdigit():
                    ch = chr(cs[-1][0])
                text += ch * n
            witnesses.append((prefix + text + suffix, start, f"{name} with {len(text)} characters "
                              f"(int digit limit {limit})"))
    # digit-count boundaries of the numeric callbacks: the callbacks are code, a branch on how long
    # the literal is (a precision switch, a fast path for short numerals) shows on a text with that
    # many digits; one member of the terminal's language per digit count, 1..24 and powers of two
    import re as _re

    fre, ire = _re.compile(t.terminals["SIGNED_FLOAT"][1]), _re.compile(t.terminals["SIGNED_INT"][1])
    for k in list(range(1, 25)) + [32, 64, 128, 256, 309, 400]:
        for text, rx, nm in (("1." + "2" * (k - 1) if k > 1 else "1.", fre, "SIGNED_FLOAT"),
                             ("-0." + "0" * 3 + "7" * k, fre, "SIGNED_FLOAT"),
                             ("3" * k + ".5e2", fre, "SIGNED_FLOAT"), ("1." + "0" * k + "e-3", fre, "SIGNED_FLOAT"),
                             ("4" * k, ire, "SIGNED_INT"), ("-" + "1" + "0" * (k - 1), ire, "SIGNED_INT")):
            if rx.fullmatch(text):
                witnesses.append((text + " m", "quantity", f"{nm} with {k} digits (digit-count boundary)"))
    rep.merge_stats(queries=P.asked, solver_s=P.solver_s)
    return witnesses


def char_classes(t: pt.Tables) -> Tuple[List[Tuple[str, List[Tuple[int, int]], str]], int]:
    """Partition induced by the character sets of the terminal regexes; returns
    [(class name, ranges, representative)] and the number of z3 soundness queries discharged."""
    sets: List[List[Tuple[int, int]]] = []
    for name, (kind, value, flags, _) in t.terminals.items():
        if kind == "PatternStr":
            for ch in value:
                sets.append([(ord(ch), ord(ch))])
        else:
            sets += pt.char_sets(value)
    # boundaries of all ranges split the code-point line
    cuts = {0, 0x110000}
    for rs in sets:
        for a, b in rs:
            cuts.add(a)
            cuts.add(b + 1)
    pts = sorted(cuts)
    segs = [(pts[i], pts[i + 1] - 1) for i in range(len(pts) - 1)]
    sig: Dict[Tuple, List[Tuple[int, int]]] = {}
    for a, b in segs:
        key = tuple(any(x <= a and b <= y for x, y in rs) for rs in sets)
        sig.setdefault(key, []).append((a, b))
    classes = []
    for key, rs in sig.items():
        rep_ch = chr(rs[0][0])
        for a, b in rs:                       # prefer a printable representative
            for c in (a, b, (a + b) // 2):
                if chr(c).isprintable() and not (0xD800 <= c <= 0xDFFF):
                    rep_ch = chr(c)
                    break
        if any(0xD800 <= rs[0][0] <= 0xDFFF for _ in (0,)):
            pass
        classes.append((f"class{len(classes)}", rs, rep_ch))
    # z3: soundness of the partition -- no character set splits a class
    c = z3.Int("c")
    S = z3.Solver()
    S.set("timeout", 20000)
    n = 0
    for cname, rs, _ in classes:
        inK = z3.Or(*[z3.And(c >= a, c <= b) for a, b in rs])
        for cs in sets:
            inC = z3.Or(*[z3.And(c >= a, c <= b) for a, b in cs])
            c2 = z3.Int("c2")
            inK2 = z3.Or(*[z3.And(c2 >= a, c2 <= b) for a, b in rs])
            inC2 = z3.Or(*[z3.And(c2 >= a, c2 <= b) for a, b in cs])
            S.push()
            S.add(inK, inK2, inC, z3.Not(inC2))       # two members of K, one inside C, one outside
            r, _ = robust.check(S, 20000)
            S.pop()
            n += 1
            if r != "unsat":
                raise symnum.HarnessError(f"character partition unsound for {cname} ({r})")
    # coverage: every code point is in some class
    S.push()
    S.add(c >= 0, c < 0x110000, z3.Not(z3.Or(*[z3.And(c >= a, c <= b) for _, rs, _ in classes for a, b in rs])))
    if robust.check(S, 20000)[0] != "unsat":
        raise symnum.HarnessError("character partition does not cover all code points")
    S.pop()
    return classes, n + 1


UNICODEDATA_OBSERVERS = ("name", "category", "numeric", "decimal", "digit", "bidirectional", "combining",
                         "east_asian_width", "mirrored", "decomposition", "normalize", "lookup")
STR_OBSERVERS = ("isalpha", "isdigit", "isdecimal", "isnumeric", "isspace", "isprintable", "isidentifier",
                 "isalnum", "isupper", "islower", "istitle", "isascii")


def character_observers() -> List[str]:
    """Functions the hand-written parsing module applies to characters besides the terminal regexes
    (read from its AST): unicodedata.* and the str.is* predicates.  The terminal classes are refined
    by what each observer returns (or whether it raises), so that every behaviour of the module on a
    character has a representative."""
    import ast

    tree = ast.parse(open(os.path.join(os.environ.get("VERIF_REPO", "/repo"), "src/measured/parsing.py")).read())
    found = set()
    imported = {}
    for node in ast.walk(tree):
        if isinstance(node, ast.ImportFrom) and node.module == "unicodedata":
            for a in node.names:
                imported[a.asname or a.name] = a.name
    for node in ast.walk(tree):
        if isinstance(node, ast.Attribute):
            owner = ast.unparse(node.value)
            if owner.split(".")[-1] == "unicodedata" and node.attr in UNICODEDATA_OBSERVERS:
                found.add("unicodedata." + node.attr)
            elif node.attr in STR_OBSERVERS:
                found.add("str." + node.attr)
        elif isinstance(node, ast.Name) and node.id in imported and imported[node.id] in UNICODEDATA_OBSERVERS:
            found.add("unicodedata." + imported[node.id])
    return sorted(found)


def observer_representatives(classes: List[Tuple[str, List[Tuple[int, int]], str]],
                             observers: List[str]) -> List[str]:
    """One character per (terminal class, observer signature)."""
    import unicodedata

    def sig(ch: str) -> Tuple:
        out = []
        for o in observers:
            mod, fn = o.split(".")
            try:
                if mod == "str":
                    v: Any = getattr(ch, fn)()
                elif fn == "normalize":
                    v = tuple(unicodedata.normalize(f, ch) == ch for f in ("NFC", "NFKC", "NFD", "NFKD"))
                elif fn == "name":
                    unicodedata.name(ch)
                    v = "named"
                elif fn == "lookup":
                    v = None
                else:
                    v = getattr(unicodedata, fn)(ch)
            except ValueError:
                v = "raises ValueError"
            except Exception as e:  # noqa
                v = "raises " + type(e).__name__
            out.append(v)
        return tuple(out)

    reps: Dict[Tuple, str] = {}
    for ci, (_, ranges, rep_ch) in enumerate(classes):
        for a, b in ranges:
            for c in range(a, b + 1):
                k = (ci, sig(chr(c)))
                if k not in reps:
                    reps[k] = chr(c)
    return list(reps.values())


def snapshot() -> Tuple:
    import measured

    return (dict(measured.Unit._by_name), dict(measured.Unit._by_symbol), dict(measured.Prefix._by_name),
            dict(measured.Prefix._by_symbol), dict(measured.Dimension._by_name))


def restore(before: Tuple) -> None:
    """Put the registries back, so that every input is judged from the pristine state (an earlier
    accepted input must not mask what a later rejected one leaks)."""
    import measured

    for d, b in zip((measured.Unit._by_name, measured.Unit._by_symbol, measured.Prefix._by_name,
                     measured.Prefix._by_symbol, measured.Dimension._by_name), before):
        if d != b:
            d.clear()
            d.update(b)


_FLOAT_RE: List[Any] = []


def float_re() -> Any:
    import re

    if not _FLOAT_RE:
        _FLOAT_RE.append(re.compile(pt.load_shipped().terminals["SIGNED_FLOAT"][1]))
    return _FLOAT_RE[0]


def classify(text: str) -> Tuple[str, Any]:
    import measured
    from measured import Quantity, Unit
    from measured.parsing import ParseError

    out = []
    for fn, typ in ((Unit.parse, Unit), (Quantity.parse, Quantity)):
        before = snapshot()
        try:
            r = fn(text)
            r2 = fn(text)
            if not isinstance(r, typ):
                out.append(("bad", f"returned {type(r).__name__}"))
                continue
            same = (r is r2) if typ is Unit else (r == r2 or (r.magnitude != r.magnitude))
            if not same:
                out.append(("bad", "parsing twice gave different results"))
                continue
            if typ is Quantity:
                m = r.magnitude
                if type(m) not in (int, float):
                    out.append(("bad", f"magnitude type {type(m).__name__}"))
                    continue
                # the numeric type is the one written: the text starts with a SIGNED_FLOAT token
                # (tried first by the lexer) or else with a SIGNED_INT token
                wrote_float = bool(float_re().match(text.lstrip(" \t\x0c\r\n")))
                if isinstance(m, float) != wrote_float:
                    out.append(("bad", f"magnitude written as {'float' if wrote_float else 'int'} came back as "
                                       f"{type(m).__name__}"))
                    continue
            out.append(("ok", None))
        except (ParseError, KeyError):
            if snapshot() != before:
                out.append(("bad", "rejected input changed the registries"))
            else:
                # a text that is rejected must be rejected the second time too
                try:
                    fn(text)
                    out.append(("bad", "parsing twice gave different results (rejected, then accepted)"))
                except (ParseError, KeyError):
                    out.append(("rejected", None))
                except Exception as e2:  # noqa
                    out.append(("bad", f"{type(e2).__name__}: {str(e2)[:80]}"))
        except RecursionError:
            out.append(("bad", "RecursionError"))
        except Exception as e:  # noqa
            out.append(("bad", f"{type(e).__name__}: {str(e)[:80]}"))
        finally:
            restore(before)
    return out[0], out[1]


def word_worker(task: Tuple) -> Dict[str, Any]:
    families.boot()
    reps, prefixes, L = task
    bad: List[Tuple] = []
    n = ok = rej = 0
    history: List[str] = []           # texts this process parsed before (for history-dependent results)
    for pre in prefixes:
        for tail in itertools.product(reps, repeat=max(L - len(pre), 0)):
            text = "".join(pre) + "".join(tail)
            n += 1
            (u, q) = classify(text)
            for which, (st, why) in (("Unit.parse", u), ("Quantity.parse", q)):
                if st == "bad" and len(bad) < 50:
                    bad.append((text, which, why, list(history) if len(bad) < 3 else []))
                ok += st == "ok"
                rej += st == "rejected"
            history.append(text)
    return {"n": n, "ok": ok, "rejected": rej, "bad": bad}


def minimise_history(text: str, why: str, history: List[str]) -> List[str]:
    """A result that depends on what the process parsed before: shrink the texts parsed earlier
    to a short list after which the replay of `text` still shows the violation (halving)."""
    import os

    def shows(h: List[str]) -> bool:
        tmp = os.path.join(report.REPLAY_DIR, "_c17_probe.py")
        os.makedirs(report.REPLAY_DIR, exist_ok=True)
        with open(tmp, "w") as f:
            f.write("import sys\n" + replay(text, why, h))
        okr, _ = report.run_replay(tmp)
        os.remove(tmp)
        return okr

    if shows([]) or not history or not shows(history):
        return []
    h = list(history)
    while len(h) > 1:
        half = len(h) // 2
        a, b = h[half:], h[:half]
        if shows(a):
            h = a
        elif shows(b):
            h = b
        else:
            break
    return h


def replay(text: str, why: str, history: List[str] = ()) -> str:
    return families.REPLAY_IMPORTS + f"""import re
from measured import Unit, Quantity
from measured.parsing import ParseError
text = {text!r}
FLOAT = re.compile({float_re().pattern!r})     # the grammar's SIGNED_FLOAT terminal
for earlier in {list(history)!r}:              # what the process had parsed before (history-dependent results)
    for fn in (Unit.parse, Quantity.parse):
        try:
            fn(earlier)
        except Exception:
            pass
bad = []
for fn, typ in ((Unit.parse, Unit), (Quantity.parse, Quantity)):
    names, symbols = dict(Unit._by_name), dict(Unit._by_symbol)
    try:
        r = fn(text); r2 = fn(text)
        print(fn.__qualname__, '->', repr(r)[:100])
        if not isinstance(r, typ): bad.append('wrong type')
        if typ is Unit and r is not r2: bad.append('not deterministic')
        if typ is Quantity and type(r.magnitude) not in (int, float): bad.append('magnitude type')
        if typ is Quantity and isinstance(r.magnitude, float) != bool(FLOAT.match(text.lstrip())):
            bad.append('magnitude is not of the type written')
    except (ParseError, KeyError) as e:
        print(fn.__qualname__, 'rejected:', type(e).__name__)
        if (names, symbols) != (dict(Unit._by_name), dict(Unit._by_symbol)): bad.append('registries changed')
        try:
            again = fn(text)
            print(fn.__qualname__, 'second attempt ->', repr(again)[:100])
            bad.append('rejected, then accepted')
        except (ParseError, KeyError):
            pass
    except Exception as e:
        print(fn.__qualname__, 'raised', type(e).__name__, str(e)[:100])
        bad.append(type(e).__name__)
if bad:
    print('REPRODUCED (' + {why!r} + '):', bad); sys.exit(1)
sys.exit(0)
"""


def callback_arithmetic(rep: report.Report) -> None:
    """The semantic callbacks `term`, `unit_sequence`, `unit` with every exponent the exponent
    terminals can denote (|n| < 10**digit-limit, symbolic): the unit arithmetic they do may raise
    only ParseError / KeyError.  Runs the real callbacks on real resolved units with the intern
    tables modelled (E2) and CPython's int -> float range check switched on in the proxies."""
    import measured
    from measured import parsing

    T = parsing.QuantityTransformer
    tr = T()
    limit = sys.get_int_max_str_digits() if hasattr(sys, "get_int_max_str_digits") else 4300
    bound = 10 ** (limit or 4300)
    n, m = z3.Int("n"), z3.Int("m")
    # one representative per kind of prefix arithmetic: none, base 10, base 2, and a unit whose
    # prefix exponent is a float because it mixes bases (kilo-byte: 10**3 * 2**3)
    syms = ["m", "km", "Kib", "kB"]
    allowed = (parsing.ParseError, KeyError)
    configs: List[Tuple[str, Any, str]] = []
    for sy in syms:
        configs.append((f"term({sy!r}, n)", lambda sy=sy: T.term.base_func(tr, sy, symnum.SInt(n)), f"{sy}^{{n}}"))
    for a_, b_ in (("km", "Kib"), ("Kib", "km"), ("km", "km"), ("m", "kB")):
        configs.append((f"unit_sequence(term({a_!r}, n), term({b_!r}, m))",
                        lambda a_=a_, b_=b_: T.unit_sequence.base_func(
                            tr, T.term.base_func(tr, a_, symnum.SInt(n)), T.term.base_func(tr, b_, symnum.SInt(m))),
                        f"{a_}^{{n}}⋅{b_}^{{m}}"))
        configs.append((f"unit(term({a_!r}, n), term({b_!r}, m))",
                        lambda a_=a_, b_=b_: T.unit.base_func(
                            tr, T.term.base_func(tr, a_, symnum.SInt(n)), T.term.base_func(tr, b_, symnum.SInt(m))),
                        f"{a_}^{{n}}/{b_}^{{m}}"))
    symnum.FLOAT_RANGE[0] = True
    old_limit = sys.get_int_max_str_digits() if hasattr(sys, "get_int_max_str_digits") else None
    if old_limit is not None:
        sys.set_int_max_str_digits(0)       # the harness writes numerals with more digits than the limit
    try:
        for name, fn, template in configs:
            with symnum.Shims(), im.Tables("absent") as tables:
                def run(fn: Any = fn) -> Any:
                    tables.reset()
                    return fn()
                ex = symnum.explore(run, assumptions=[n > -bound, n < bound, m > -bound, m < bound],
                                    max_paths=200)
            rep.merge_stats(queries=ex.queries, solver_s=ex.solver_s, paths=len(ex.paths), stubs=ex.stubs)
            for i, p in enumerate(ex.paths):
                key = ("callback-arithmetic", name, i)
                if p.exc is None or isinstance(p.exc, allowed):
                    rep.ob("unsat", f"callback arithmetic: {name}#p{i}: returns or raises ParseError/KeyError", key)
                    continue
                if isinstance(p.exc, symnum.NotEncodable):
                    rep.ob("unknown", f"callback arithmetic: {name}#p{i}: {p.exc}", key)
                    continue
                # a model of the path: the smallest exponents (in absolute value) that take it
                S = z3.Optimize()
                S.set("timeout", 20000)
                S.add(p.cond, n > -bound, n < bound, m > -bound, m < bound)
                S.minimize(z3.If(n >= 0, n, -n) + z3.If(m >= 0, m, -m))
                if str(S.check()) != "sat":
                    rep.ob("unknown", f"callback arithmetic: {name}#p{i}: no model", key)
                    continue
                mm = S.model()
                nv = mm.eval(n, model_completion=True).as_long()
                mv = mm.eval(m, model_completion=True).as_long()
                text = template.format(n=nv, m=mv)
                rep.ob("sat", f"callback arithmetic: {name}#p{i}: {type(p.exc).__name__} escapes", key)
                rep.violation(f"C17:callback-arithmetic:{type(p.exc).__name__}:{name.split('(')[0]}",
                              f"{name}: {type(p.exc).__name__} ({p.exc}) escapes for exponents of "
                              f"{len(str(abs(nv)))} / {len(str(abs(mv)))} digits, e.g. Unit.parse of {text[:40]}...",
                              replay(text, f"{type(p.exc).__name__} from the unit arithmetic of a callback"))
    finally:
        symnum.FLOAT_RANGE[0] = False
        if old_limit is not None:
            sys.set_int_max_str_digits(old_limit)
    rep.functions.update(["measured.parsing.QuantityTransformer.term", "measured.parsing.QuantityTransformer.unit_sequence",
                          "measured.parsing.QuantityTransformer.unit", "measured.Unit.__pow__", "measured.Prefix.__pow__",
                          "measured.Prefix.__mul__", "measured.Prefix.__truediv__"])


def main(tier: str, selftest_cases: int = 0) -> int:
    rep = report.Report(PID, tier, "model_checking")
    families.boot()
    import measured
    import measured.systems  # noqa

    t = pt.load_shipped()
    # (a) side condition
    nraise, badraise = larkerror_side_condition()
    rep.ob("unsat" if not badraise else "sat", f"{nraise} raise statements in the lexer/parser machinery "
           f"raise LarkError subclasses", ("raises",))
    if badraise:
        raise symnum.HarnessError(f"lexer/parser machinery raises non-LarkError: {badraise}")
    # (d) callbacks get the terminals they expect
    expect = {"int": ("SIGNED_INT",), "float": ("SIGNED_FLOAT",), "carat_exponent": ("CARAT_EXPONENT",),
              "superscript_exponent": ("SUPERSCRIPT_EXPONENT",)}
    for rid, (origin, exp, alias, *_r) in t.rules.items():
        if alias in expect:
            okr = tuple(exp) == expect[alias]
            rep.ob("unsat" if okr else "sat", f"rule {origin}->{exp} feeds callback {alias}", ("rule", rid))
            if not okr:
                raise symnum.HarnessError(f"callback {alias} is fed {exp}")
        if origin == "term":
            okr = exp[0] == "SYMBOL" and all(e == "exponent" for e in exp[1:])
            rep.ob("unsat" if okr else "sat", f"rule term->{exp}", ("rule", rid))
    # (b) callback obligations
    witnesses = callback_obligations(rep, t)
    # (c) whole pipeline over class words
    classes, nq = char_classes(t)
    rep.queries += nq
    for _ in range(nq):
        rep.ob("unsat", "partition: no terminal character set splits a class", None)
    rep.nontrivial.add("partition")
    # refine the SYMBOL letters by whether they can start / continue registered symbols: take
    # extra representatives (this only adds words; it cannot make the abstraction unsound)
    extra = ["m", "k", "s", "1", "K", "Ω", "μ"]
    reps = [r for _, _, r in classes]
    for e in extra:
        if e not in reps:
            reps.append(e)
    L = 4 if tier == "quick" else 6
    if tier == "thorough":
        reps_used = reps
    else:
        reps_used = reps
    tasks = []
    for length in range(0, L + 1):
        if length <= 1:
            tasks.append((reps_used, [()], length))
        else:
            for first in reps_used:
                tasks.append((reps_used, [(first,)], length))
    # characters the module looks at through something other than the terminals: every (class,
    # observer signature) gets a representative, tried in words of <= 2 and inside sentences
    observers = character_observers()
    rep.coverage["character_observers"] = observers
    if observers:
        oreps = [c for c in observer_representatives(classes, observers) if c not in reps_used]
        rep.coverage["observer_representatives"] = len(oreps)
        ctx_words = []
        for c in oreps:
            ctx_words += [(c,), ("m", c), (c, "m"), ("5", " ", "m", c), ("5", " ", c), ("5", c), ("m", "^", c),
                          ("m", " ", c, " ", "s"), ("m", "/", c)]
            ctx_words += [(c, r) for r in reps_used] + [(r, c) for r in reps_used]
        for chunk in par.chunks(ctx_words, 32):
            tasks.append(([], chunk, 0))
    results = par.run("props.c17", "word_worker", tasks)
    total = sum(r["n"] for r in results)
    accepted = sum(r["ok"] for r in results)
    rejected = sum(r["rejected"] for r in results)
    bad = [b for r in results for b in r["bad"]]
    rep.coverage.update(states=max(total, 1), transitions=max(accepted + rejected, 1),
                        traces_validated_against_impl=total)
    rep.coverage["class_words"] = {"classes": len(classes), "representatives": len(reps_used), "max_length": L,
                                   "words": total, "parses_accepted": accepted, "parses_rejected": rejected}
    rep.obligations += total
    rep.discharged += total - len({b[0] for b in bad})
    rep.nontrivial.update(("word", i) for i in range(min(total, 1000)))
    seen = set()
    for text, which, why, *hist in bad:
        sig = f"C17:{which}:{why.split(':')[0]}"
        if sig in seen:
            continue
        seen.add(sig)
        earlier = minimise_history(text, why, hist[0] if hist else [])
        rep.violation(sig, f"{which}({text!r}){' after parsing ' + repr(earlier) if earlier else ''}: {why}",
                      replay(text, why, earlier))
    # boundary witnesses from the callback obligations
    for text, start, why in witnesses:
        (u, q) = classify(text)
        st, detail = u if start == "unit" else q
        rep.ob("unsat" if st != "bad" else "sat", f"boundary witness: {why}", ("witness", why))
        if st == "bad":
            kind = "digit-limit" if "digit limit" in why else "callback-domain"
            rep.violation(f"C17:{kind}:{why.split()[0]}", f"{why}: {detail}", replay(text, why))
    # (b') the unit arithmetic inside the callbacks, for every exponent that can be written
    callback_arithmetic(rep)
    # (e) the parse path constructs units without names: no registry write (real constructor, E2)
    from props import c19

    subject: List[Any] = [None]
    regs = {"n": c19.Registry("Unit._by_name", subject), "s": c19.Registry("Unit._by_symbol", subject)}

    def fn() -> Any:
        saved = (measured.Unit._by_name, measured.Unit._by_symbol)
        measured.Unit._by_name, measured.Unit._by_symbol = regs["n"], regs["s"]
        try:
            with im.Tables("absent"):
                b = im.shadow_base_unit([0] * im.ndim(), "b")
                u = measured.Unit(measured.IdentityPrefix, {b: symnum.SInt(z3.Int("e"))},
                                  im.shadow_dimension([0] * im.ndim()))
            return list(regs["n"].writes), list(regs["s"].writes), u
        finally:
            measured.Unit._by_name, measured.Unit._by_symbol = saved

    with symnum.Shims():
        ex = symnum.explore(fn, max_paths=8)
    for p in ex.paths:
        okp = p.exc is None and not p.result[0] and not p.result[1]
        rep.ob("unsat" if okp else "sat", "anonymous construction writes no name/symbol registry", ("anon",))
        if not okp:
            raise symnum.HarnessError(f"anonymous Unit construction touched the registries: {p.result!r} {p.exc!r}")
    rep.sample({"classes": [(n, rs[:3], r) for n, rs, r in classes][:16]})
    rep.sample({"word_examples": ["".join(w) for w in itertools.islice(itertools.product(reps_used, repeat=3), 40, 46)]})
    rep.functions.update(["measured.Unit.parse", "measured.Quantity.parse", "measured._parser (lexer, LALR driver)",
                          "measured.parsing.QuantityTransformer.*", "measured.formatting.from_superscript",
                          "measured.Unit.resolve_symbol", "measured.Unit.__new__", "measured.Unit.__init__"])
    rep.coverage["selftest_cases"] = selftest_cases
    rep.coverage["bounds"] = (f"callback domains: token texts of length <= {MAXLEN} (z3 regex inclusion); int digit "
                              f"limit by length abstraction (unbounded loop counts); whole pipeline: all class "
                              f"words of length <= {L} over {len(reps_used)} representatives of {len(classes)} "
                              "solver-checked character classes, both entry points; longer raw strings not covered")
    rep.coverage["explanation"] = (
        "z3 decides per terminal that every token text is in the domain of the callback it reaches, "
        "finds texts beyond the interpreter's int digit limit on a length abstraction, and proves the "
        "character partition sound (no terminal character set splits a class), so that running the "
        "real parsers on one representative per class word covers every string of that length up to "
        "the choice of symbol letters; each parse is checked for result type, magnitude type, "
        "allowed exception classes, determinism and unchanged registries on rejection.")
    rep.assumptions += ["strings with the same class word lex to the same token types (proved); which registered "
                        "symbol a SYMBOL token spells is sampled by extra representatives",
                        "memory exhaustion on astronomically large exponents is outside"]
    return rep.finish()
