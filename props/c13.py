"""C13 -- str() output parses back; spellings are equivalent (E2 + E3 + concretised end-to-end).

1. Rendering arithmetic: the real formatting._unit_to_magnitude_and_terms on shadow units with
   unbounded symbolic prefix exponent and factor exponents; z3 proves the (magnitude, terms) it
   returns denote the unit's scale on every path, and that a magnitude is rendered only when the
   prefix cannot be pushed into the first factor.
2. Lexical layer over the shipped terminal regexes (z3): superscript/from_superscript are inverse
   character maps, rendered exponents lie in L(SUPERSCRIPT_EXPONENT) / L(CARAT_EXPONENT), every
   registered symbol, prefix+symbol concatenation and space-free name lies in L(SYMBOL).
3. End to end on the real library, for the finite family prefix x unit x exponent (and products):
   Unit.parse(str(u)) / Quantity.parse(str(q)) must give the same object or an equal scale and
   dimension (oracle sizes); alternative spellings must parse to the same unit.
"""

from __future__ import annotations

import ast
import inspect
import itertools
from fractions import Fraction
from typing import Any, Dict, List, Optional, Tuple

import z3

from engine import families, internmodel as im, par, parsertables as pt, report, robust, symnum, work
from engine.symnum import SInt, explore, term

PID = "C13"


# ------------------------------------------------------------------------------------
# layer 1


def rendering_worker(task: Tuple) -> Dict[str, Any]:
    families.boot()
    import measured
    from measured import formatting

    _, nfac, pbase = task
    acc = work.Acc()
    N = im.ndim()
    P_, E = z3.Int("p"), [z3.Int(f"e{i}") for i in range(nfac)]

    def fn() -> Any:
        bases = [im.shadow_base_unit([0] * N, f"b{i}") for i in range(nfac)]
        fs = {b: SInt(E[i]) for i, b in enumerate(bases)}
        pre = im.shadow_prefix(pbase, SInt(P_)) if pbase else measured.IdentityPrefix
        u = im.shadow_unit(pre, fs, im.shadow_dimension([0] * N))
        mag, terms = formatting._unit_to_magnitude_and_terms(u)
        return mag, terms

    pre = [e != 0 for e in E] + ([P_ != 0] if pbase else [])
    with symnum.Shims(), im.Tables("absent"):
        saved = formatting.math if hasattr(formatting, "math") else None
        ex = explore(fn, assumptions=pre, max_paths=64)
    acc.explored(ex)
    cfg = f"rendering/factors={nfac}/prefix-base={pbase}"
    for i, p in enumerate(ex.paths):
        key = (cfg, i)
        if p.exc is not None:
            raise symnum.HarnessError(f"{cfg}: {p.outcome}: {p.exc}")
        mag, terms = p.result
        # exponents of the rendered terms, symbols in factor order
        ok_struct = len(terms) == nfac and [t[1] for t in terms] == [f"b{i}" for i in range(nfac)]
        exps_same = z3.And(*[term(t[2]) == E[i] for i, t in enumerate(terms)])
        rest_identity = all(t[0].base == 0 for t in terms[1:])
        first_p = terms[0][0]
        if symnum.is_sym(mag):
            # non-integral branch: magnitude = base ** p, first prefix untouched (identity)
            lnb = symnum.LN(z3.simplify(symnum.real(symnum.q(pbase))))
            scale_ok = z3.And(symnum.real(mag.t) == symnum.EXP(z3.simplify(lnb * z3.ToReal(P_))),
                              z3.BoolVal(first_p.base == 0))
            only_when_needed = P_ % E[0] != 0
            goal = z3.And(z3.BoolVal(ok_struct and rest_identity), exps_same, scale_ok, only_when_needed)
            branch = "magnitude"
        else:
            if first_p.base == 0:
                scale = z3.BoolVal(not pbase) if not pbase else z3.BoolVal(False)
                if pbase:
                    scale = P_ == 0
            else:
                scale = z3.And(z3.BoolVal(first_p.base == pbase), term(first_p.exponent) * E[0] == P_)
            goal = z3.And(z3.BoolVal(ok_struct and rest_identity and mag == 1), exps_same, scale)
            branch = "pushed-into-first-factor"
        st, mdl = acc.P.check(p.cond, z3.Not(goal))
        acc.ob("unsat" if st == "unsat" else ("unknown" if st == "unknown" else "sat"),
               f"{cfg}#p{i}:{branch}: rendered terms denote the unit's scale", key)
        if st == "sat":
            sm = {str(d): mdl[d] for d in mdl.decls() if d.arity() == 0 and mdl[d] is not None}
            pe = int(str(sm.get("p", 3))) if str(sm.get("p", "3")).lstrip("-").isdigit() else 3
            es = [int(str(sm.get(f"e{k}", 1))) if str(sm.get(f"e{k}", "1")).lstrip("-").isdigit() else 1
                  for k in range(nfac)]
            acc.out["viol"].append((f"C13:rendering:{branch}", f"{cfg}: wrong rendering at p={pe}, e={es}",
                                    rendering_replay(pbase, pe, es)))
    acc.sample({"config": cfg, "paths": len(ex.paths)})
    return acc.finish()


def rendering_replay(pbase: int, p: int, es: List[int]) -> str:
    names = ["meter", "second", "kilogram"]
    expr = " * ".join(f"measured.Unit.named({names[i]!r})**{e}" for i, e in enumerate(es))
    pre = f"measured.Prefix({pbase}, {p}) * " if pbase else ""
    return families.REPLAY_IMPORTS + f"""
from measured import formatting
u = {pre}({expr})
mag, terms = formatting._unit_to_magnitude_and_terms(u)
print(repr(u), '->', mag, [(str(t[0]), t[1], t[2]) for t in terms])
import math
total = (math.log(mag, {pbase or 10}) if mag != 1 else 0.0) + sum(t[2] * (t[0].exponent if t[0].base else 0) for t in terms)
want = u.prefix.exponent if u.prefix.base else 0
if abs(total - want) > 1e-9 or [t[2] for t in terms] != list(u.factors.values()):
    print('REPRODUCED: rendered magnitude and terms do not denote the unit', total, want); sys.exit(1)
sys.exit(0)
"""


# ------------------------------------------------------------------------------------
# layer 2


def lexical(rep: report.Report) -> None:
    import measured
    from measured import formatting

    t = pt.load_shipped()
    P = symnum.Prover(60000)
    # the two helpers are character-wise maps (AST shape), otherwise nothing below applies
    # the two helpers as character maps, read off their behaviour (however they are written): what
    # each of -,0..9 renders as, and what each rendered character reads back as
    sup: Dict[str, str] = {}
    dig: Dict[str, str] = {}
    try:
        for d_ in range(10):
            sup[str(d_)] = formatting.superscript(d_) if d_ != 1 else formatting.superscript(11)[:1]
        m5 = formatting.superscript(-5)
        sup["-"] = m5[:len(m5) - len(sup["5"])]
        for k_, v_ in sup.items():
            if k_ == "-":
                back = formatting.from_superscript(v_ + sup["5"])
                dig[v_] = "-" if back == -5 else "!"
            else:
                dig[v_] = str(formatting.from_superscript(v_))
        # character-wise: longer numbers are rendered and read digit by digit (validated on a family)
        family = list(range(-130, 131)) + [10 ** 9 + 7, -(10 ** 12), 9876543210]
        homomorphic = all(formatting.superscript(n_) == "".join(sup[c_] for c_ in str(n_)) for n_ in family if n_ != 1) \
            and all(len(v_) == 1 for v_ in sup.values())
    except Exception as e:  # noqa
        rep.ob("unknown", f"superscript / from_superscript could not be read as character maps ({type(e).__name__})",
               ("lex", "maps"))
        return
    if not homomorphic:
        rep.ob("unknown", "superscript is not a character-wise map: the lexical layer does not apply", ("lex", "maps"))
        return
    # (a) DIGITS o SUPERSCRIPTS is the identity on [-0-9]: symbolic character query
    c = z3.String("c")
    img = z3.StringVal("")
    expr: Any = z3.StringVal("?")
    for k, v in sup.items():
        back = dig.get(v)
        expr = z3.If(c == z3.StringVal(k), z3.StringVal(back if back is not None else "!"), expr)
    domain = z3.InRe(c, z3.Union(z3.Range("0", "9"), z3.Re(z3.StringVal("-"))))
    st, _ = P.check(domain, expr != c)
    rep.ob("unsat" if st == "unsat" else "sat", "DIGITS[SUPERSCRIPTS[c]] == c for every c in [-0-9]", ("lex", "inv"))
    if st != "unsat":
        rep.violation("C13:lexical:digit-maps", "SUPERSCRIPTS and DIGITS are not inverse on [-0-9]",
                      families.REPLAY_IMPORTS + """
from measured.formatting import superscript, from_superscript
bad = [n for n in list(range(-130, 131)) + [10**9 + 7, -(10**12)] if n != 1 and from_superscript(superscript(n)) != n]
if bad:
    print('REPRODUCED:', bad[:5]); sys.exit(1)
sys.exit(0)
""")
    # image of canonical integers (minus "1") under SUPERSCRIPTS lies in L(SUPERSCRIPT_EXPONENT)
    s = z3.String("s")
    sd = {k: v for k, v in sup.items() if k.isdigit()}
    nz = z3.Union(*[z3.Re(z3.StringVal(sd[str(d)])) for d in range(1, 10)])
    anyd = z3.Union(*[z3.Re(z3.StringVal(sd[str(d)])) for d in range(0, 10)])
    canon = z3.Concat(z3.Option(z3.Re(z3.StringVal(sup["-"]))),
                      z3.Union(z3.Re(z3.StringVal(sd["0"])), z3.Concat(nz, z3.Star(anyd))))
    st, m = P.check(z3.InRe(s, canon), z3.Not(z3.InRe(s, pt.terminal_re(t, "SUPERSCRIPT_EXPONENT"))),
                    z3.Length(s) <= 24)
    rep.ob("unsat" if st == "unsat" else ("unknown" if st == "unknown" else "sat"),
           "superscript(n) for every integer n lies in L(SUPERSCRIPT_EXPONENT) (len <= 24)", ("lex", "sup"))
    if st == "sat":
        w = pt.z3_string(m.eval(s, model_completion=True))
        rep.violation("C13:lexical:superscript-language", f"rendered exponent {w!r} is not a SUPERSCRIPT_EXPONENT",
                      families.REPLAY_IMPORTS + f"""
try:
    u = measured.Unit.parse('m' + {w!r})
    print(u)
except Exception as e:
    print('REPRODUCED: rendered exponent does not parse', type(e).__name__); sys.exit(1)
sys.exit(0)
""")
    asc = z3.Concat(z3.Re(z3.StringVal("^")), z3.Option(z3.Re(z3.StringVal("-"))),
                    z3.Union(z3.Re(z3.StringVal("0")), z3.Concat(z3.Range("1", "9"), z3.Star(z3.Range("0", "9")))))
    st, _ = P.check(z3.InRe(s, asc), z3.Not(z3.InRe(s, pt.terminal_re(t, "CARAT_EXPONENT"))), z3.Length(s) <= 24)
    rep.ob("unsat" if st == "unsat" else ("unknown" if st == "unknown" else "sat"),
           "'^' + str(n) for every integer n lies in L(CARAT_EXPONENT) (len <= 24)", ("lex", "carat"))
    # (b) registered symbols / prefix+symbol / space-free names lie in L(SYMBOL)
    sym_re = pt.terminal_re(t, "SYMBOL")
    texts = set()
    for sy in measured.Unit._by_symbol:
        texts.add(sy)
        for ps in measured.Prefix._by_symbol:
            texts.add(ps + sy)
    for nm in measured.Unit._by_name:
        if " " not in nm:
            texts.add(nm)
    S = z3.Solver()
    S.set("timeout", 20000)
    bad = []
    for tx in sorted(texts):
        S.push()
        S.add(z3.Not(z3.InRe(z3.StringVal(tx), sym_re)))
        r, _ = robust.check(S, 20000)
        S.pop()
        rep.queries += 1
        if r != "unsat":
            bad.append(tx)
    rep.obligations += len(texts)
    rep.discharged += len(texts) - len(bad)
    rep.nontrivial.add(("lex", "symbols", len(texts)))
    rep.coverage["symbol_texts_checked"] = len(texts)
    by_unit: Dict[str, List[str]] = {}
    for tx in bad:
        by_unit.setdefault(tx, []).append(tx)
    for tx in bad[:40]:
        rep.violation(f"C13:lexical:not-lexable:{tx}", f"registered symbol/name {tx!r} is not in "
                      f"L(SYMBOL) and cannot be parsed back", families.REPLAY_IMPORTS + f"""
try:
    print(measured.Unit.parse({tx!r}))
except Exception as e:
    print('REPRODUCED: registered symbol does not parse:', type(e).__name__); sys.exit(1)
sys.exit(0)
""")
    rep.merge_stats(queries=P.asked, solver_s=P.solver_s)


# ------------------------------------------------------------------------------------
# layer 3


def classify_roundtrip(u: Any, orc: Any) -> Tuple[str, str]:
    import measured
    from measured.parsing import ParseError

    try:
        text = str(u)
    except Exception as e:
        return "str-raises", f"{type(e).__name__}"
    try:
        back = measured.Unit.parse(text)
    except (ParseError, KeyError) as e:
        return "unparsable", text
    except Exception as e:
        return "parse-raises", f"{text} {type(e).__name__}"
    if back is u:
        return "identical", text
    if back.dimension is not u.dimension:
        return "different-dimension", text
    a, b = orc.size(u), orc.size(back)
    if a is None or b is None or a[1] != b[1]:
        return "unknown-size", text
    if abs(a[0] - b[0]) <= Fraction(1, 10 ** 9) * abs(a[0]):
        return "equal-scale", text
    return "different-value", text


def e2e_worker(task: Tuple) -> Dict[str, Any]:
    orc = families.boot()
    import measured
    from measured import Quantity

    kind, items = task
    out: Dict[str, Any] = {"counts": {}, "findings": [], "n": 0}
    for item in items:
        if kind == "pue":
            pname, uname, e = item
            p = measured.Prefix._by_name[pname] if pname else measured.IdentityPrefix
            u0 = measured.Unit._by_name[uname]
            try:
                u = (p * u0) ** e
            except Exception as ex:
                out["findings"].append(("construct", f"{pname}*{uname}**{e}", type(ex).__name__, ""))
                continue
            code = f"(({families.code(p)} * {families.code(u0)}) ** {e})" if pname else f"({families.code(u0)} ** {e})"
        else:
            (p1, u1, e1), (p2, u2, e2) = item
            pa = measured.Prefix._by_name[p1] if p1 else measured.IdentityPrefix
            pb = measured.Prefix._by_name[p2] if p2 else measured.IdentityPrefix
            ua, ub = measured.Unit._by_name[u1], measured.Unit._by_name[u2]
            u = (pa * ua) ** e1 * (pb * ub) ** e2
            code = f"(({families.code(pa)} * {families.code(ua)}) ** {e1} * ({families.code(pb)} * {families.code(ub)}) ** {e2})"
        cls, text = classify_roundtrip(u, orc)
        out["counts"][cls] = out["counts"].get(cls, 0) + 1
        out["n"] += 1
        if cls not in ("identical", "equal-scale"):
            out["findings"].append((cls, code, text, families.show(u)))
            if cls == "unparsable" and " " in text:
                # text with a magnitude in front reads as a quantity: it must be one of this unit
                # (no text produced by str() parses to something of a different physical value)
                try:
                    asq = Quantity.parse(text)
                    one = asq.in_unit(u).magnitude
                    if abs(float(one) - 1) > 1e-9:
                        out["findings"].append(("str-as-quantity-different-value", code, text, families.show(u)))
                    out["counts"]["unit-text-read-as-quantity"] = out["counts"].get("unit-text-read-as-quantity", 0) + 1
                except (measured.parsing.ParseError, KeyError):
                    pass
                except Exception as ex:
                    out["findings"].append(("str-as-quantity-raises", code, text, type(ex).__name__))
                # the unit alone renders a magnitude in front, but a *quantity* of it folds that
                # magnitude into its own and must still round-trip to an equal quantity
                for m in (5, 2.5):
                    q = m * u
                    try:
                        back = Quantity.parse(str(q))
                        okq = abs(float(back.in_unit(u).magnitude) - m) <= 1e-9 * m
                    except Exception as ex:
                        okq = False
                    out["counts"]["quantity-of-unparsable-unit-" + ("ok" if okq else "FAILS")] = \
                        out["counts"].get("quantity-of-unparsable-unit-" + ("ok" if okq else "FAILS"), 0) + 1
                    if not okq:
                        out["findings"].append(("quantity-unparsable", code, str(q), ""))
        elif kind == "pue" and e in (1, 2) and cls == "identical":
            # quantities and alternative spellings on the units that do round-trip
            for m in (5, 5.5, -3, 1e21, 2 ** 53 + 1, -(10 ** 23) - 7, 12345678901234567891):
                q = m * u
                try:
                    back = Quantity.parse(str(q))
                    if not (back == q and type(back.magnitude) is type(m)):
                        out["findings"].append(("quantity-differs", code, str(q), repr(back)))
                except Exception as ex:
                    out["findings"].append(("quantity-unparsable", code, str(q), type(ex).__name__))
            sym = u0.symbol
            if sym and e != 1:
                psym = p.symbol or ""
                sp = [f"{psym}{sym}^{e}", f"{psym}{sym}{measured.formatting.superscript(e)}",
                      f" {psym}{sym} ^{e} ".replace(" ^", "^")]
                for tx in sp:
                    try:
                        if measured.Unit.parse(tx) is not u:
                            out["findings"].append(("spelling-differs", code, tx, ""))
                    except Exception as ex:
                        out["findings"].append(("spelling-unparsable", code, tx, type(ex).__name__))
    return out


SPELLINGS = [
    ("m^2/s", "m²⋅s⁻¹"), ("m^2*s", "m²⋅s"), ("m s", "m⋅s"), ("m*s", "m⋅s"), ("m/s", "m⋅s⁻¹"), ("m / s", "m/s"),
    ("kg m^2/s^2", "kg⋅m²⋅s⁻²"), ("kg*m^2*s^-2", "kg⋅m²⋅s⁻²"), ("  m  ", "m"), ("meter", "m"), ("hertz", "Hz"),
    ("m/s s", "m⋅s⁻²"), ("m^-1", "m⁻¹"), ("km^2", "km²"), ("m²A³/s^3", "m²⋅A³⋅s⁻³"), ("1/s", "s⁻¹"),
]


PRODUCT_TEXTS = [("s⋅km", "measured.si.Second * (measured.si.Kilo * measured.si.Meter)"),
                 ("km⋅s", "(measured.si.Kilo * measured.si.Meter) * measured.si.Second"),
                 ("N mm", "measured.si.Newton * (measured.si.Milli * measured.si.Meter)"),
                 ("m⋅ks⁻¹", "measured.si.Meter * (measured.si.Kilo * measured.si.Second)**-1"),
                 ("kg*mm^2/ms", "measured.si.Kilogram * (measured.si.Milli * measured.si.Meter)**2 / (measured.si.Milli * measured.si.Second)"),
                 ("m/ks", "measured.si.Meter / (measured.si.Kilo * measured.si.Second)")]


def callback_products(rep: report.Report) -> None:
    """The parser's callbacks ARE the operators: for shadow units with symbolic prefix and factor
    exponents, unit_sequence(a, b) has the intern key of a * b and unit(a, b) that of a / b (z3 over
    the keys), so a product means the same whichever term carries the prefix."""
    import measured
    from measured import Unit, parsing
    from props import c01, c02

    c01.N = c02.N = im.ndim()
    T = parsing.QuantityTransformer
    tr = T()
    P = symnum.Prover(20000)
    bases = [measured.Unit._by_name[n] for n in ("meter", "second", "kilogram")]

    def fn() -> Any:
        a = c01.operand("a", bases[:2], 10)
        b = c01.operand("b", bases[1:], 10)
        seq = T.unit_sequence.base_func(tr, a, b)
        quo = T.unit.base_func(tr, a, b)
        return (seq, Unit._multiply.__wrapped__(a, b)), (quo, Unit._divide.__wrapped__(a, b))

    with symnum.Shims(), im.Tables("absent"):
        ex = explore(fn, max_paths=400, query_timeout_ms=20000)
    rep.merge_stats(queries=ex.queries, solver_s=ex.solver_s, paths=len(ex.paths))
    bad = None
    for i, p in enumerate(ex.paths):
        key = ("callback-products", i)
        if p.exc is not None:
            rep.ob("unknown", f"parser callbacks on shadow units#p{i}: {p.outcome}", key)
            continue
        ok = True
        for what, (got, want) in zip(("unit_sequence(a, b) is a * b", "unit(a, b) is a / b"), p.result):
            comparable, cond, why = c02.key_equal(got, want)
            st, _ = P.check(p.cond, z3.Not(cond if comparable else z3.BoolVal(False)))
            if st != "unsat":
                ok = False
                bad = bad or (what, why)
        rep.ob("unsat" if ok else "sat", f"parser callbacks on shadow units#p{i}: products and quotients are the operators'", key)
    if bad:
        lines = "\n".join(f"check({t!r}, {c})" for t, c in PRODUCT_TEXTS)
        rep.violation("C13:spelling:callback-products", f"{bad[0]} fails on shadow units ({bad[1]}): a product text does not "
                      f"mean the product of its terms", families.REPLAY_IMPORTS + f"""
bad = []
def check(text, want):
    got = measured.Unit.parse(text)
    print(repr(text), '->', got, ' the product of its terms:', want)
    if got is not want:
        bad.append(text)
{lines}
if bad:
    print('REPRODUCED: these texts do not parse to the product of their terms:', bad); sys.exit(1)
sys.exit(0)
""", soft=True)     # the replay is a fixed list of product texts: a difference it does not show stays a candidate
    rep.functions.update(["measured.parsing.QuantityTransformer.unit_sequence", "measured.parsing.QuantityTransformer.unit"])


def ambiguous_tokens(text: str, orc: Any) -> List[str]:
    """Symbol tokens of a rendered unit that are a registered unit symbol AND a registered
    prefix symbol + unit symbol of a different physical value."""
    import measured

    out = []
    for tok in text.replace("/", "⋅").split("⋅"):
        sym = tok.strip().rstrip("⁻⁰¹²³⁴⁵⁶⁷⁸⁹")
        direct = measured.Unit._by_symbol.get(sym)
        if direct is None:
            continue
        for i in range(1, len(sym)):
            pr, un = measured.Prefix._by_symbol.get(sym[:i]), measured.Unit._by_symbol.get(sym[i:])
            if pr is None or un is None:
                continue
            other = pr * un
            if other is direct:
                continue
            a, b = orc.size(other), orc.size(direct)
            if other.dimension is direct.dimension and a and b and a[1] == b[1] and \
                    abs(a[0] - b[0]) <= Fraction(1, 10 ** 9) * abs(a[0]):
                continue   # the deliberate mapping of a prefixed symbol to an equal named unit (kg)
            out.append(f"{sym} ({pr.name}-{un.name} reads as {direct.name})")
    return out


def e2e_replay(code: str, what: str) -> str:
    return families.REPLAY_IMPORTS + f"""
from measured import Unit
u = {code}
text = str(u)
try:
    back = Unit.parse(text)
except Exception as e:
    print('REPRODUCED ({what}): str() gives', repr(text), 'which does not parse:', type(e).__name__); sys.exit(1)
print(repr(text), '->', repr(back))
if back is u:
    sys.exit(0)
try:
    same = (1 * back) == (1 * u)
except Exception:
    same = False
if not same:
    print('REPRODUCED ({what}): parses to a unit of a different physical value'); sys.exit(1)
sys.exit(0)
"""


STAGED_SRC = r'''
import importlib, json, sys
first, texts = sys.argv[1], json.loads(sys.argv[2])
mode = sys.argv[3] if len(sys.argv) > 3 else "parse"
import measured
importlib.import_module("measured." + first)
from measured import Unit, Quantity
from measured.json import MeasuredJSONDecoder
def spec(u):
    return [[u.prefix.base, u.prefix.exponent], [[f.name, e] for f, e in u.factors.items()]]
def resolve(t):
    if mode == "parse":
        return Unit.parse(t)
    if mode == "quantity":
        return Quantity(1, t).unit
    return json.loads(json.dumps({"__measured__": "Quantity", "magnitude": 1, "unit": t}), cls=MeasuredJSONDecoder).unit
def parse_all():
    out = {}
    for t in texts:
        try:
            out[t] = spec(resolve(t))
        except Exception as e:
            out[t] = type(e).__name__
    return out
early = parse_all()            # with only one module imported (most texts do not resolve yet)
import measured.systems        # now everything is registered
late = parse_all()
print(json.dumps(late))
'''


def history_layer(rep: report.Report, tier: str) -> None:
    """Parsing must not depend on what was parsed before the rest of the modules were imported
    ("every set of imported unit modules"): a staged process parses every registered symbol and
    name with one module imported, imports the rest, parses again, and must then agree with a
    process that imported everything first."""
    import json as _json
    import subprocess

    import measured

    texts = sorted(set(measured.Unit._by_symbol) | {n for n in measured.Unit._by_name if " " not in n})
    ref = {}
    for t in texts:
        try:
            u = measured.Unit.parse(t)
            ref[t] = [[u.prefix.base, u.prefix.exponent], [[f.name, e] for f, e in u.factors.items()]]
        except Exception as e:
            ref[t] = type(e).__name__
    firsts = ["si"] if tier == "quick" else ["si", "iec", "us", "avoirdupois", "energy", "metric"]
    for first in firsts:
        p = subprocess.run([report.REPO_PY, "-c", STAGED_SRC, first, _json.dumps(texts)], capture_output=True,
                           text=True, timeout=300, cwd="/")
        if p.returncode != 0:
            raise symnum.HarnessError(f"staged parse process failed: {p.stderr[-400:]}")
        late = _json.loads(p.stdout.strip().splitlines()[-1])
        diff = [t for t in texts if late.get(t) != ref[t]]
        rep.obligations += len(texts)
        rep.discharged += len(texts) - len(diff)
        rep.nontrivial.add(("staged", first))
        for t in diff[:3]:
            rep.violation("C13:history:parse-depends-on-earlier-parses", f"after importing measured.{first}, "
                          f"parsing every symbol, then importing the rest, Unit.parse({t!r}) gives {late.get(t)} "
                          f"instead of {ref[t]}", history_replay(first, diff[:20]))


FRESH_SRC = r'''
import json, sys, measured, measured.systems
from measured import Unit, Quantity
from measured.json import MeasuredJSONDecoder
mode = sys.argv[2] if len(sys.argv) > 2 else "parse"
def resolve(t):
    if mode == "parse":
        return Unit.parse(t)
    if mode == "quantity":
        return Quantity(1, t).unit
    return json.loads(json.dumps({"__measured__": "Quantity", "magnitude": 1, "unit": t}), cls=MeasuredJSONDecoder).unit
out = {}
for t in json.loads(sys.argv[1]):
    try:
        u = resolve(t)
        out[t] = [[u.prefix.base, u.prefix.exponent], [[f.name, e] for f, e in u.factors.items()]]
    except Exception as e:
        out[t] = type(e).__name__
print(json.dumps(out))
'''


def history_replay(first: str, texts: List[str], mode: str = "parse") -> str:
    return "import subprocess, json\n" + f"STAGED = {STAGED_SRC!r}\nFRESH = {FRESH_SRC!r}\n" + \
        f"texts = {texts!r}\nfirst = {first!r}\nmode = {mode!r}\n" + """
p = subprocess.run([sys.executable, '-c', STAGED, first, json.dumps(texts), mode], capture_output=True, text=True)
late = json.loads(p.stdout.strip().splitlines()[-1])
f = subprocess.run([sys.executable, '-c', FRESH, json.dumps(texts), mode], capture_output=True, text=True)
ref = json.loads(f.stdout.strip().splitlines()[-1])
bad = [t for t in texts if late[t] != ref[t]]
print('staged process:', {t: late[t] for t in bad})
print('fresh process :', {t: ref[t] for t in bad})
if bad:
    print('REPRODUCED: the result of parsing depends on what was parsed before the modules were imported')
    sys.exit(1)
sys.exit(0)
"""


def main(tier: str, selftest_cases: int = 0) -> int:
    rep = report.Report(PID, tier, "other")
    orc = families.boot()
    import measured

    # layer 1
    t1 = [("render", nf, pb) for nf in (1, 2, 3) for pb in (10, 2, 0)]
    r1 = par.run("props.c13", "rendering_worker", t1)
    work.merge(rep, r1)
    # layer 2
    lexical(rep)
    # layer 4: independence of parsing from the import / parse history
    history_layer(rep, tier)
    # layer 3
    prefixes = [None] + sorted(measured.Prefix._by_name)
    units = sorted(measured.Unit._by_name)
    if tier == "quick":
        units = [u for u in units if measured.Unit._by_name[u] in families.core_units()] + units[::7]
        units = sorted(set(units))
    exps = [-3, -2, -1, 1, 2, 3]
    items = [(p, u, e) for p in prefixes for u in units for e in exps]
    core = [u.name for u in families.core_units()][:10]
    pp = [None, "kilo", "milli", "kibi"]
    pairs = [((p1, u1, e1), (p2, u2, e2)) for u1, u2 in itertools.combinations(core, 2)
             for p1 in pp[:3] for p2 in pp[:2] for e1 in (1, 2, -1) for e2 in (1, -1, -2)]
    if tier == "quick":
        pairs = pairs[::3]
    tasks = [("pue", ch) for ch in par.chunks(items, 32)] + [("pair", ch) for ch in par.chunks(pairs, 16)]
    res = par.run("props.c13", "e2e_worker", tasks)
    counts: Dict[str, int] = {}
    findings: List[Tuple] = []
    total = 0
    for r in res:
        total += r["n"]
        for k, v in r["counts"].items():
            counts[k] = counts.get(k, 0) + v
        findings += r["findings"]
    rep.coverage["end_to_end"] = {"units_tried": total, "outcomes": counts}
    rep.obligations += total
    rep.discharged += counts.get("identical", 0) + counts.get("equal-scale", 0)
    rep.nontrivial.update(("e2e", k) for k in counts)
    # findings are grouped by the *condition* that fails
    groups: Dict[str, List[Tuple]] = {}
    for cls, code, text, shown in findings:
        if cls == "unparsable":
            head = text.split(" ")[0]
            if " " in text and head.replace(".", "").replace("e", "").replace("-", "").replace("+", "").isdigit():
                sig = "C13:str-renders-a-magnitude-in-front-of-a-unit"
            elif text[:1].isdigit() and not text.startswith("1"):
                sig = "C13:str-renders-a-prefix-without-symbol"
            elif text[:2] in ("10", "12") or text[:1] == "2" and "⁻" in text[:4] or text[:1].isdigit():
                sig = "C13:str-renders-a-prefix-without-symbol"
            else:
                sig = f"C13:unparsable:{text}"
        elif cls == "different-value" or cls == "different-dimension":
            toks = ambiguous_tokens(text, orc)
            sig = f"C13:collision:{toks[0]}" if toks else f"C13:collision:{text}"
        elif cls == "str-as-quantity-different-value":
            sig = "C13:str-of-a-unit-read-as-a-quantity-has-a-different-value"
        else:
            sig = f"C13:{cls}:{text}"
        groups.setdefault(sig, []).append((cls, code, text, shown))
    rep.coverage["finding_groups"] = {k: len(v) for k, v in sorted(groups.items())}
    for sig, fs in sorted(groups.items()):
        cls, code, text, shown = fs[0]
        if cls.startswith("str-as-quantity"):
            rep.violation(sig, f"{len(fs)} unit(s), e.g. str({shown}) = {text!r} reads as a quantity that is not "
                          f"one {shown}", families.REPLAY_IMPORTS + f"""
from measured import Quantity
u = {code}
text = str(u)
q = Quantity.parse(text)
print(repr(text), '->', q, ' in the unit itself:', q.in_unit(u).magnitude)
if abs(float(q.in_unit(u).magnitude) - 1) > 1e-9:
    print('REPRODUCED: str() of a unit parses to a quantity of a different physical value'); sys.exit(1)
sys.exit(0)
""")
            continue
        rep.violation(sig, f"{len(fs)} unit(s), e.g. str({shown or code}) = {text!r}: {cls}",
                      e2e_replay(code, cls) if cls not in ("spelling-differs", "spelling-unparsable",
                                                           "quantity-differs", "quantity-unparsable")
                      else spelling_replay(code, text),
                      soft=(cls == "unknown-size"))    # the oracle could not size what came back: a candidate
    callback_products(rep)
    # alternative spellings
    from measured.parsing import ParseError

    for a, b in SPELLINGS:
        try:
            same = measured.Unit.parse(a) is measured.Unit.parse(b)
        except (ParseError, KeyError):
            same = False
        rep.ob("unsat" if same else "sat", f"spelling {a!r} parses to the same unit as {b!r}", ("sp", a))
        if not same:
            rep.violation(f"C13:spelling:{a}", f"{a!r} and {b!r} do not parse to the same unit",
                          families.REPLAY_IMPORTS + f"""
a, b = measured.Unit.parse({a!r}), measured.Unit.parse({b!r})
print(repr(a), repr(b))
if a is not b:
    print('REPRODUCED: alternative spellings parse differently'); sys.exit(1)
sys.exit(0)
""")
    rep.sample({"end_to_end_outcomes": counts})
    rep.sample({"example": "Unit.parse(str((Kilo*Meter)**-2))"})
    rep.functions.update(["measured.formatting._unit_to_magnitude_and_terms", "measured.formatting.unit_str",
                          "measured.formatting.prefix_str", "measured.formatting.quantity_str",
                          "measured.formatting.superscript", "measured.formatting.from_superscript",
                          "measured.Unit.parse", "measured.Quantity.parse", "measured.Unit.resolve_symbol",
                          "measured.Prefix.root", "measured.Prefix.__mul__", "measured._parser terminals"])
    rep.coverage["selftest_cases"] = selftest_cases
    rep.coverage["bounds"] = (
        "layer 1: unbounded symbolic unit-prefix exponent and factor exponents, 1-3 factors, prefix base in "
        "{0,2,10}; layer 2: texts of length <= 24, all registered symbols/prefix+symbol/names; layer 3 "
        f"(concrete, exhaustive over the family): {len(prefixes)} prefixes x {len(units)} units x exponents "
        f"{exps} plus {len(pairs)} two-term products; int/float magnitudes 5, 5.5, -3, 1e21.")
    rep.coverage["explanation"] = (
        "The prefix-push-down arithmetic of rendering is decided by z3 for all exponents on the real "
        "code; the lexical layer is decided by z3 on the shipped terminal regexes; whether a rendered "
        "text resolves to the same unit (symbol collisions) is an exhaustive concrete enumeration of "
        "the finite prefix x unit x exponent family on the real library, compared by identity or by "
        "oracle scale and dimension -- this part is enumeration, not proof.")
    rep.assumptions += ["factors of a unit are base units with the identity prefix (representation invariant)",
                        "float magnitudes: repr round-trip of arbitrary floats is outside"]
    return rep.finish()


def spelling_replay(code: str, text: str) -> str:
    return families.REPLAY_IMPORTS + f"""
from measured import Unit, Quantity
u = {code}
text = {text!r}
try:
    back = Unit.parse(text) if not text[:1].lstrip('-').isdigit() else Quantity.parse(text)
    print(repr(text), '->', repr(back))
    ok = (back is u) or (hasattr(back, 'magnitude') and back.unit is u)
except Exception as e:
    print(type(e).__name__, e); ok = False
if not ok:
    print('REPRODUCED: spelling / quantity text does not parse back'); sys.exit(1)
sys.exit(0)
"""
