"""C20 -- singletons stay singletons under concurrent construction (E4; level: model_checking).

The transition system is generated from the AST of the real `__new__`/`__init__` of Dimension,
Prefix, Unit, Logarithm, LogarithmicUnit (one atomic step per source line); z3 searches all
line-level schedules of 2 (quick) / 3 (thorough) threads doing a first-time construction of the
same key.  A schedule found is replayed on real threads under a `sys.settrace` line scheduler.
"""

from __future__ import annotations

import os
import types
from typing import Any, Dict, List, Tuple

from engine import families, par, report, stepbmc, symnum, tracebmc

PID = "C20"

SETUP = {
    "Dimension": ("A, B = measured.Length**7, measured.Time**5", "A / B", "measured.Dimension"),
    "Prefix": ("A, B = measured.Prefix(10, 17), measured.Prefix(10, 20)", "A * B", "measured.Prefix"),
    # a prefix whose exponent is a float (what mixing bases produces): constructors may treat it apart
    "PrefixFloat": ("A, B = measured.Prefix(2, 17), measured.Prefix(10, 21)", "A * B", "measured.Prefix"),
    "Unit": ("A, B = measured.Length.unit('c20-a', 'c20-a'), measured.Time.unit('c20-b', 'c20-b')\n"
             "_ = (A.dimension * B.dimension, A.prefix * B.prefix)", "A * B", "measured.Unit"),
    "Logarithm": ("A, B = measured.Logarithm(7.0), measured.Prefix(10, -5)", "A * B", "measured.Logarithm"),
    "LogarithmicUnit": ("A, B = measured.Logarithm(11.0), 3 * measured.One", "A[B]",
                        "measured.LogarithmicUnit"),
}


CLASS_OF = {"PrefixFloat": "Prefix"}


def env_for(cname: str) -> Dict[str, Any]:
    import measured

    if cname == "PrefixFloat":
        return {"name": None, "symbol": None, "self": types.SimpleNamespace(_initialized=False), "base": 2,
                "exponent": 86.7603377}
    slf = types.SimpleNamespace(_initialized=False)
    common = {"name": None, "symbol": None, "self": slf}
    if cname == "Dimension":
        return {**common, "exponents": (0, 7, -5) + (0,) * (len(measured.Number.exponents) - 3)}
    if cname == "Prefix":
        return {**common, "base": 10, "exponent": 37}
    if cname == "Unit":
        return {**common, "prefix": measured.IdentityPrefix, "factors": {"a": 1, "b": 1},
                "dimension": measured.Length * measured.Time}
    if cname == "Logarithm":
        return {**common, "base": 7.0, "prefix": measured.Prefix(10, -5)}
    return {**common, "logarithm": None, "reference": None}


def table_setdefault(cls: Any) -> Tuple[bool, List[int]]:
    """Is the intern table's setdefault one atomic step?  For a builtin dict: yes (a single C call
    with no Python code between look-up and insertion).  For any other table whose setdefault is a
    Python function: no -- it is modelled as look-up, then store, and the lines of that function
    which store into a subscript are the preemption point the replay stops at."""
    import ast
    import inspect
    import textwrap

    tbl = cls._known
    if type(tbl) is dict:
        return True, []
    fn = getattr(type(tbl), "setdefault", None)
    if not isinstance(fn, types.FunctionType):
        raise symnum.HarnessError(f"{cls.__name__}._known is a {type(tbl).__name__}: setdefault is neither "
                                  f"dict's nor a Python function; no model")
    tree = ast.parse(textwrap.dedent(inspect.getsource(fn)))
    first = fn.__code__.co_firstlineno
    lines = [n.lineno + first - 1 for n in ast.walk(tree) if isinstance(n, ast.Assign)
             and any(isinstance(t, ast.Subscript) for t in n.targets)]
    if not lines:
        raise symnum.HarnessError(f"no store found in {type(tbl).__name__}.setdefault")
    return False, lines


def constructor_call(cname: str) -> Any:
    """A direct call of the class with fixed arguments denoting a key nobody has built yet (the
    operators' lru_cache wrappers are bypassed: extraction re-executes the call many times)."""
    import measured

    cls = getattr(measured, CLASS_OF.get(cname, cname))
    if cname == "Dimension":
        args: Tuple = ((0, 7, -5) + (0,) * (len(measured.Number.exponents) - 3),)
    elif cname == "Prefix":
        args = (10, 37)
    elif cname == "PrefixFloat":
        args = (2, 86.7603377)
    elif cname == "Unit":
        a, b = measured.Length.unit("c20-xa", "c20-xa"), measured.Time.unit("c20-xb", "c20-xb")
        args = (measured.IdentityPrefix, {a: 1, b: 1}, measured.Length * measured.Time)
    elif cname == "Logarithm":
        args = (7.0, measured.Prefix(10, -5))
    else:
        args = (measured.Logarithm(11.0), 3 * measured.One)
    return lambda: cls(*args)


def replay(cname: str, threads: int, schedule: List[int], trace: List[Tuple],
           store_lines: List[int] = (), code_spec: List[Tuple[str, int]] = ()) -> str:
    setup, expr, clsc = SETUP[cname]
    tr = "\n".join(f"#   thread {k}  line {ln}  {act:14s} {src}" for k, ln, act, src in trace)
    return families.REPLAY_IMPORTS + f"""import threading, queue
# schedule found by the solver (one entry = one source line of {cname}.__new__/__init__):
{tr}
{setup}
cls = {clsc}
CODE_SPEC = {list(code_spec)!r}     # (function name, first line) of the functions the model steps through
def find_codes(spec):
    spec = {{tuple(x) for x in spec}}
    found, seen = set(), set()
    def visit_code(c):
        if id(c) in seen: return
        seen.add(id(c))
        if (c.co_name, c.co_firstlineno) in spec: found.add(c)
        for k in c.co_consts:
            if hasattr(k, 'co_code'): visit_code(k)
    def visit(obj):
        f = getattr(obj, '__func__', obj)
        f = getattr(f, '__wrapped__', f)
        c = getattr(f, '__code__', None)
        if c is not None: visit_code(c)
    import types
    for mod in list(sys.modules.values()):
        if getattr(mod, '__name__', '').split('.')[0] != 'measured': continue
        for v in list(vars(mod).values()):
            visit(v)
            if isinstance(v, type):
                for w in list(vars(v).values()): visit(w)
    return found
codes = find_codes(CODE_SPEC) if CODE_SPEC else {{cls.__new__.__code__, cls.__init__.__code__}}
# a table that is not a builtin dict: also stop before the store inside its Python-level setdefault
STORE_LINES = {list(store_lines)!r}
sd = getattr(type(cls._known), 'setdefault', None)
sd_code = getattr(sd, '__code__', None) if STORE_LINES else None
if sd_code is not None:
    codes.add(sd_code)
SCHEDULE = {schedule!r}
N = {threads}
go = [threading.Semaphore(0) for _ in range(N)]
events = [queue.Queue() for _ in range(N)]
results = [None] * N
free_run = threading.Event()
def tracer_for(k):
    def local(frame, event, arg):
        if event == 'line' and not free_run.is_set():
            if frame.f_code is sd_code and frame.f_lineno not in STORE_LINES:
                return local
            events[k].put('line')
            go[k].acquire()
        return local
    def glob(frame, event, arg):
        if event == 'call' and frame.f_code in codes:
            return local
        return None
    return glob
raised = [None] * N
def body(k):
    sys.settrace(tracer_for(k))
    try:
        results[k] = {expr}
    except Exception as e:
        raised[k] = type(e).__name__ + ': ' + str(e)
    finally:
        sys.settrace(None)
        events[k].put('done')
ts = [threading.Thread(target=body, args=(k,)) for k in range(N)]
for t in ts: t.start()
state = [events[k].get(timeout=30) for k in range(N)]     # every thread at its first traced line
for k in SCHEDULE:
    if state[k] == 'done':
        continue
    go[k].release()
    state[k] = events[k].get(timeout=30)
free_run.set()
for k in range(N):
    for _ in range(10000): go[k].release()
for t in ts: t.join(30)
if any(raised):
    print('REPRODUCED: a thread evaluating the expression raised', raised); sys.exit(1)
later = {expr}
table_entries = [v for v in cls._known.values() if v is later or any(v is r for r in results)]
print('objects returned to the threads:', [hex(id(r)) for r in results], ' later evaluation:', hex(id(later)))
distinct = {{id(r) for r in results}} | {{id(later)}}
if len(distinct) != 1:
    print('REPRODUCED: threads evaluating the same expression obtained different {cname} objects'); sys.exit(1)
sys.exit(0)
"""


def worker(task: Tuple) -> Dict[str, Any]:
    cname, threads = task
    families.boot()
    import measured
    import measured.systems  # noqa

    cls = getattr(measured, CLASS_OF.get(cname, cname))
    atomic, store_lines = table_setdefault(cls)
    # the step system: every trace of the real constructor under a scripted table
    import os

    ex = tracebmc.Extraction(cls, constructor_call(cname), (os.path.dirname(measured.__file__),))
    try:
        traces, codes = ex.all_traces()
    except symnum.HarnessError as e:
        if "never consults the intern table" not in str(e):
            raise
        # the constructor answers a repeated call without looking at the table (state of its own
        # besides the table): outside the single-table step system.  Fallback, NOT a solver verdict:
        # every one-preemption schedule of two threads through the real constructor
        hit = preemption_sweep(cname, store_lines)
        if hit is None:
            raise
        return {"class": cname, "result": "sat", "fallback": "one-preemption sweep of the real constructor "
                "(the step system does not apply: " + str(e) + ")", "schedule": hit[0], "replay": hit[1],
                "witness": "sat", "threads": 2, "steps": 0, "solver_s": 0.0, "trace": [], "variables": 0, "horizon": 0,
                "rets": "different objects", "table": "one of them", "ast_model": "not applicable (fallback)",
                "table_type": type(cls._known).__name__, "setdefault_atomic": atomic, "functions": [], "program": []}
    tracebmc.annotate(traces, codes, atomic, cls)
    res = tracebmc.search(traces, threads, timeout_ms=120000)
    if ex.extra_state_written and threads == 2:
        # the constructor also writes plain class attributes (state shared between threads that the
        # single-table step system does not have): besides the model, every one-preemption schedule of
        # two threads through the real constructor is swept -- an enumeration, NOT a solver verdict
        res["extra_shared_state"] = sorted(ex.extra_state_written)
        hit = preemption_sweep(cname, store_lines) if res["result"] != "sat" else None
        res["extra_shared_state_sweep"] = "a schedule replays" if hit else "no one-preemption schedule shows a difference"
        if hit is not None:
            res.update(result="sat", schedule=hit[0], rets="different objects", table="one of them", trace=[])
            res["fallback_replay"] = hit[1]
    res["class"] = cname
    res["table_type"] = type(cls._known).__name__
    res["setdefault_atomic"] = atomic
    res["functions"] = [f"{c.co_name}:{c.co_firstlineno}" for c in codes]
    res["program"] = [[repr(s_) for s_ in tr.steps] + [f"returns {tr.ret}"] for tr in traces]
    code_spec = [(c.co_name, c.co_firstlineno) for c in codes]
    # cross-check: the AST-derived step system of stepbmc, where its statement forms apply
    try:
        steps = stepbmc.extract(cls, "_known", env_for(cname), atomic_setdefault=atomic)
        if not any(s_.action in (stepbmc.STORE, stepbmc.SETDEFAULT_RET, stepbmc.SETDEFAULT_ASSIGN,
                                 stepbmc.SETDEFAULT_DISCARD, stepbmc.SDW_RET, stepbmc.SDW_ASSIGN,
                                 stepbmc.SDW_DISCARD) for s_ in steps):
            raise symnum.HarnessError("the constructor does not store into the table itself")
        r2 = stepbmc.search(steps, threads, timeout_ms=120000)
        res["ast_model"] = r2["result"]
        if {r2["result"], res["result"]} == {"sat", "unsat"}:
            raise symnum.HarnessError(f"{cname}: the trace-derived and the AST-derived step systems disagree "
                                      f"({res['result']} vs {r2['result']})")
    except symnum.HarnessError as e:
        if "disagree" in str(e):
            raise
        res["ast_model"] = f"not applicable ({str(e)[:120]})"
    if res["result"] == "sat":
        res["replay"] = res.pop("fallback_replay", None) or \
            replay(cname, threads, res["schedule"], res["trace"], store_lines, code_spec)
    return res


SWEEP_EXPRS = {"Unit": [("P = measured.Prefix(10, 111)", "P * A"), ("", "A * B"), ("", "A ** 5")]}


def preemption_sweep(cname: str, store_lines: List[int]) -> Any:
    """Thread 0 runs k lines of the constructor, thread 1 runs to completion, thread 0 finishes: for
    every k, on the real library (fresh process each), for each way of reaching the constructor."""
    import os
    from concurrent.futures import ThreadPoolExecutor

    setup, expr, clsc = SETUP[cname]
    jobs = []
    for extra, e2 in SWEEP_EXPRS.get(cname, [("", expr)]):
        for k in range(0, 40):
            sched = [0] * k + [1] * 200 + [0] * 200
            body = replay(cname, 2, sched, [], store_lines).replace(setup, setup + "\n" + extra, 1)
            body = body.replace(f"results[k] = {expr}", f"results[k] = {e2}").replace(f"later = {expr}", f"later = {e2}")
            jobs.append((sched, body))
    os.makedirs(report.REPLAY_DIR, exist_ok=True)

    def probe(job: Tuple) -> bool:
        sched, body = job
        tmp = os.path.join(report.REPLAY_DIR, f"_c20_sweep_{os.getpid()}_{abs(hash(body))}.py")
        with open(tmp, "w") as f:
            f.write("import sys\n" + body)
        ok, _ = report.run_replay(tmp)
        os.remove(tmp)
        return ok

    with ThreadPoolExecutor(8) as tp:
        oks = list(tp.map(probe, jobs))
    for ok, job in zip(oks, jobs):
        if ok:
            return job
    return None


HELPERS = {
    # helper -> (setup, expression both threads evaluate)
    "Unit._multiply": ("A, B = measured.Length.unit('c20-ha', 'c20-ha'), measured.Time.unit('c20-hb', 'c20-hb')\n"
                       "_ = (A.dimension * B.dimension, A.prefix * B.prefix)", "A * B"),
    "Unit._divide": ("A, B = measured.Length.unit('c20-hc', 'c20-hc'), measured.Time.unit('c20-hd', 'c20-hd')\n"
                     "_ = (A.dimension / B.dimension, A.prefix / B.prefix)", "A / B"),
    "Dimension._multiply": ("A, B = measured.Length**11, measured.Time**13", "A * B"),
    "Dimension._divide": ("A, B = measured.Length**17, measured.Time**19", "A / B"),
}
NOT_SCRATCH = ("_known", "_by_name", "_by_symbol", "_base", "_fundamental")

HELPER_SNAPSHOT = r"""
import json, sys, types
import measured, measured.conversions, measured.formatting
def shared_containers():
    out = {}
    owners = [measured, measured.conversions, measured.formatting] + [
        v for v in vars(measured).values() if isinstance(v, type) and v.__module__.startswith('measured')]
    for o in owners:
        for name, val in list(vars(o).items()):
            if isinstance(val, (dict, list, set)) and not name.startswith('__') and name not in NOT_SCRATCH:
                out[f"{getattr(o, '__name__', o)}.{name}"] = val
    return out
def fingerprint(c):
    return {k: (len(v), repr(sorted(map(repr, v)))[:2000]) for k, v in c.items()}
"""


def helper_replay(helper: str, k: int) -> str:
    setup, expr = HELPERS[helper]
    cls, meth = helper.split(".")
    return families.REPLAY_IMPORTS + f"""import threading
{setup}
fn = getattr(measured.{cls}, {meth!r})
code = getattr(fn, '__wrapped__', fn).__code__     # the memoised helper's own body
K = {k}                                            # thread A is held after K of its lines
hold, resume = threading.Event(), threading.Event()
count = [0]
def tracer(frame, event, arg):
    if event == 'call' and frame.f_code is code:
        def local(frame, event, arg):
            if event == 'line':
                count[0] += 1
                if count[0] == K + 1:
                    hold.set(); resume.wait(30)
            return local
        return local
    return None
res = {{}}
def run_a():
    sys.settrace(tracer)
    try:
        res['a'] = {expr}
    finally:
        sys.settrace(None); hold.set()
def run_b():
    res['b'] = {expr}
ta = threading.Thread(target=run_a); ta.start()
hold.wait(30)
tb = threading.Thread(target=run_b); tb.start(); tb.join(30)
resume.set(); ta.join(30)
later = {expr}
print('thread A:', repr(res.get('a'))[:120]); print('thread B:', repr(res.get('b'))[:120]); print('later   :', repr(later)[:120])
if not (res.get('a') is res.get('b') is later):
    print('REPRODUCED: threads evaluating the same expression obtained different objects'); sys.exit(1)
sys.exit(0)
"""


def helper_side_condition(rep: report.Report) -> None:
    """The memoised multiply / divide helpers may run concurrently for the same operands
    (lru_cache does not serialise misses): they must not use shared mutable state other than the
    intern tables.  Every dict / list / set bound at class or module level in the package is
    fingerprinted around a call of the helper's own body; one that changed is working state
    shared between threads, and a one-preemption schedule through the helper is then searched
    on real threads for the replay."""
    import json
    import subprocess

    for helper, (setup, expr) in HELPERS.items():
        cls, meth = helper.split(".")
        code = (families.REPLAY_IMPORTS + f"NOT_SCRATCH = {NOT_SCRATCH!r}\n" + HELPER_SNAPSHOT + setup + f"""
fn = getattr(measured.{cls}, {meth!r})
body = getattr(fn, '__wrapped__', fn)
c = shared_containers()
before = fingerprint(c)
r = body(A, B)
after = fingerprint(c)
import dis
lines = len(set(l for _, l in dis.findlinestarts(body.__code__)))
print(json.dumps({{"changed": sorted(k for k in before if before[k] != after[k]), "inspected": len(c), "lines": lines}}))
""")
        p = subprocess.run([report.REPO_PY, "-c", code], capture_output=True, text=True, timeout=120, cwd="/")
        if p.returncode != 0:
            raise symnum.HarnessError(f"helper snapshot for {helper} failed: {p.stderr[-400:]}")
        info = json.loads(p.stdout.strip().splitlines()[-1])
        name = (f"{helper}: leaves every shared container ({info['inspected']} dicts/lists/sets at class or module "
                f"level, intern tables and registries aside) as it found it")
        if not info["changed"]:
            rep.ob("unsat", name, ("helper", helper))
            continue
        found = None
        for k in range(1, info["lines"] + 2):
            tmp = os.path.join(report.REPLAY_DIR, "_c20_probe.py")
            os.makedirs(report.REPLAY_DIR, exist_ok=True)
            with open(tmp, "w") as f:
                f.write("import sys\n" + helper_replay(helper, k))
            okr, _ = report.run_replay(tmp)
            os.remove(tmp)
            if okr:
                found = k
                break
        if found is None:
            rep.ob("unknown", name + f" -- changed: {info['changed']}; no one-preemption schedule shows different "
                                    f"objects", ("helper", helper))
            continue
        rep.ob("sat", name, ("helper", helper))
        rep.violation(f"C20:helper-shared-state:{helper}", f"{helper} works in shared state {info['changed']}: with "
                      f"thread A held after {found} line(s) of the helper while thread B evaluates the same "
                      f"expression, the two obtain different objects", helper_replay(helper, found))
    rep.functions.update(f"measured.{h}" for h in HELPERS)


DIRECT_CALL = {
    "Dimension": ("", "measured.Dimension((0, 7, -5) + (0,) * (len(measured.Number.exponents) - 3))"),
    "Prefix": ("", "measured.Prefix(10, 37)"),
    "Unit": ("XA, XB = measured.Length.unit('c20-xa', 'c20-xa'), measured.Time.unit('c20-xb', 'c20-xb')\n"
             "XD = measured.Length * measured.Time",
             "measured.Unit(measured.IdentityPrefix, {XA: 1, XB: 1}, XD)"),
    "Logarithm": ("XP = measured.Prefix(10, -5)", "measured.Logarithm(7.0, XP)"),
    "LogarithmicUnit": ("XL, XQ = measured.Logarithm(11.0), 3 * measured.One", "measured.LogarithmicUnit(XL, XQ)"),
}


def publication_replay(cname: str, k: int, attrs: List[str]) -> str:
    setup, expr = DIRECT_CALL[cname]
    return families.REPLAY_IMPORTS + f"""import threading, os
{setup}
PKG = os.path.dirname(measured.__file__)
K = {k}            # thread A is held when it arrives at its K-th source line inside the package
ATTRS = {attrs!r}
hold, resume = threading.Event(), threading.Event()
count = [0]
def local(frame, event, arg):
    if event == 'line':
        count[0] += 1
        if count[0] == K:
            hold.set(); resume.wait(30)
    return local
def tracer(frame, event, arg):
    if event == 'call' and frame.f_code.co_filename.startswith(PKG):
        return local
    return None
res = {{}}
def use(o):
    # what any caller does next with the object it was given: look at its attributes
    return [getattr(o, a) for a in ATTRS] and repr(o)
objs = {{}}
def run_a():
    sys.settrace(tracer)
    try:
        o = {expr}
    finally:
        sys.settrace(None); hold.set()
    objs['a'] = o
    try:
        res['a'] = ('ok', use(o))
    except Exception as e:
        res['a'] = ('exc', type(e).__name__ + ': ' + str(e))
def run_b():
    try:
        o = {expr}
        objs['b'] = o
        res['b'] = ('ok', use(o))
    except Exception as e:
        res['b'] = ('exc', type(e).__name__ + ': ' + str(e))
ta = threading.Thread(target=run_a); ta.start()
hold.wait(30)
tb = threading.Thread(target=run_b); tb.start(); tb.join(30)
resume.set(); ta.join(30)
print('thread A (held at its line', K, '):', res.get('a'))
print('thread B (ran meanwhile)      :', res.get('b'))
if any(r is None or r[0] == 'exc' for r in (res.get('a'), res.get('b'))):
    print('REPRODUCED: a thread evaluating the same expression was handed an object that is not built yet'); sys.exit(1)
later = {expr}
if not (objs.get('a') is objs.get('b') is later):
    print('REPRODUCED: the threads (and a later evaluation) hold different objects:', [hex(id(x)) for x in (objs.get('a'), objs.get('b'), later)]); sys.exit(1)
sys.exit(0)
"""


def publication_worker(cname: str) -> Dict[str, Any]:
    families.boot()
    import measured
    import measured.systems  # noqa
    from engine import initbmc

    cls = getattr(measured, CLASS_OF.get(cname, cname))
    res = initbmc.analyse(cls, constructor_call(cname), (os.path.dirname(measured.__file__),))
    res["class"] = cname
    return res


def publication_side_condition(rep: report.Report) -> None:
    """What the intern table hands out is finished, or the receiving thread finishes it: no thread
    returns from the constructor (or reads an attribute) while an attribute is unassigned
    (engine/initbmc.py)."""
    pub = [c for c in SETUP if c not in CLASS_OF]
    results = par.run("props.c20", "publication_worker", pub)
    for cname, r in zip(pub, results):
        key = ("publication", cname)
        name = f"{cname}: no line-level schedule of a creating and a finding thread hands out an object with an attribute unassigned"
        if r["result"] == "not-applicable":
            rep.ob("unknown", name + f" ({r['why']})", key)
            continue
        rep.merge_stats(queries=2, solver_s=r["solver_s"])
        rep.coverage.setdefault("publication", {})[cname] = {
            "flags": r.get("flags"), "attributes": r.get("attrs"), "horizon": r.get("horizon"),
            "verdict": r["result"], "why": r.get("why"), "program": r.get("program", [])[:4]}
        if r["witness"] != "sat":
            raise symnum.HarnessError(f"{cname}: no completing schedule in the initialisation model (vacuous)")
        if r["result"] == "unsat":
            rep.ob("unsat", name, key)
            continue
        if r["result"] != "sat":
            rep.ob("unknown", name, key)
            continue
        # replay on real threads: the solver's preemption point first, then the other lines
        first = (r.get("hold_a_before_event") or 0) + 1
        n = r.get("events_undisturbed", 0) + 1
        found = None
        os.makedirs(report.REPLAY_DIR, exist_ok=True)
        for k in [first] + [k for k in range(1, n + 1) if k != first]:
            tmp = os.path.join(report.REPLAY_DIR, f"_c20_pub_probe_{cname}.py")
            with open(tmp, "w") as f:
                f.write("import sys\n" + publication_replay(cname, k, r["attrs"]))
            okr, _ = report.run_replay(tmp)
            os.remove(tmp)
            if okr:
                found = k
                break
        if found is None:
            rep.ob("unknown", name + f" -- the model has a schedule ({r['trace'][:6]}); no one-preemption "
                                    f"schedule on real threads shows it", key)
            continue
        rep.ob("sat", name, key)
        what = (f"walks away with an object of its own although the table holds the creating thread's"
                if r.get("other_object") else
                f"is handed the object before its attributes {r['attrs']} are assigned")
        rep.violation(f"C20:half-built:{cname}",
                      f"{cname}: with the creating thread held at its line {found} inside the package, a thread "
                      f"evaluating the same expression {what} (model schedule: {r['trace'][:8]})",
                      publication_replay(cname, found, r["attrs"]))
    rep.functions.update(f"measured.{c}.__init__" for c in pub)


def main(tier: str, selftest_cases: int = 0) -> int:
    rep = report.Report(PID, tier, "model_checking")
    helper_side_condition(rep)
    publication_side_condition(rep)
    threads = [2] if tier == "quick" else [2, 3]
    tasks = [(c, t) for c in SETUP for t in threads]
    results = par.run("props.c20", "worker", tasks)
    states = transitions = validated = 0
    for (cname, t), r in zip(tasks, results):
        rep.merge_stats(queries=2, solver_s=r["solver_s"])
        states += r["variables"]
        transitions += r["horizon"] * t
        if r["witness"] != "sat":
            raise symnum.HarnessError(f"{cname}: no completing schedule exists in the model (vacuous)")
        name = f"{cname}: all line-level schedules of {t} threads ({r['steps']} steps each, horizon {r['horizon']})"
        if r["result"] == "unsat":
            rep.ob("unsat", name, (cname, t))
        elif r["result"] == "unknown":
            rep.ob("unknown", name, (cname, t))
        else:
            rep.ob("sat", name, (cname, t))
            validated += 1
            rep.violation(f"C20:race:{cname}", f"{cname}: under schedule {r['schedule']} the threads obtain "
                          f"objects {r['rets']} and the table keeps {r['table']}", r["replay"])
        rep.sample({"class": cname, "threads": t, "traces": r["program"][:6], "verdict": r["result"],
                    "functions": r["functions"], "ast_cross_check": r["ast_model"],
                    "schedule": r.get("schedule")}, 5)
        rep.functions.update(f"measured.{cname}: {f}" for f in r["functions"])
        rep.coverage.setdefault("ast_cross_check", {})[f"{cname}/{t}"] = r["ast_model"]
    rep.functions.update([f"measured.{CLASS_OF.get(c, c)}.__new__" for c in SETUP])
    rep.coverage.update(states=max(states, 1), transitions=max(transitions, 1),
                        traces_validated_against_impl=validated, exhaustive=True,
                        selftest_cases=selftest_cases)
    rep.coverage["bounds"] = (f"threads: {threads}; one atomic step per source line of the constructor and of "
                              "every helper on the call stack of a table operation; "
                              "first-time construction of one key; all schedules up to the horizon "
                              "(= total number of steps), decided symbolically by z3 (schedule = integer "
                              "sequence); 'states' counts state variables of the unrolling, 'transitions' "
                              "scheduled steps")
    rep.coverage["explanation"] = (
        "Step systems are regenerated on every run by executing the real constructor with its intern "
        "table replaced by a scripted stand-in and enumerating the table's possible answers by "
        "re-execution (every trace = one path of the program; one step per traced source line, with "
        "the table operations it performs); z3 searches the interleavings of T threads each on one "
        "trace, a trace being feasible only while the shared table gives the answers it assumed. "
        "Where its statement forms apply, the AST-derived step system of engine/stepbmc.py is "
        "checked as well and must agree. A reachability witness (some schedule completes) guards "
        "against vacuity; a schedule found is replayed on real threads driven line by line through "
        "sys.settrace over the same functions.")
    rep.assumptions += ["line-level interleavings only (CPython may also switch inside a line)",
                        "dict.setdefault / `with lock` are atomic / mutually exclusive (GIL, C-level hash)",
                        "lru_cache wrappers of _multiply/_divide may call the wrapped function concurrently (documented)"]
    return rep.finish()
