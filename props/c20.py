"""C20 -- singletons stay singletons under concurrent construction (E4; level: model_checking).

The transition system is generated from the AST of the real `__new__`/`__init__` of Dimension,
Prefix, Unit, Logarithm, LogarithmicUnit (one atomic step per source line); z3 searches all
line-level schedules of 2 (quick) / 3 (thorough) threads doing a first-time construction of the
same key.  A schedule found is replayed on real threads under a `sys.settrace` line scheduler.
"""

from __future__ import annotations

import types
from typing import Any, Dict, List, Tuple

from engine import families, par, report, stepbmc, symnum

PID = "C20"

SETUP = {
    "Dimension": ("A, B = measured.Length**7, measured.Time**5", "A / B", "measured.Dimension"),
    "Prefix": ("A, B = measured.Prefix(10, 17), measured.Prefix(10, 20)", "A * B", "measured.Prefix"),
    "Unit": ("A, B = measured.Length.unit('c20-a', 'c20-a'), measured.Time.unit('c20-b', 'c20-b')\n"
             "_ = (A.dimension * B.dimension, A.prefix * B.prefix)", "A * B", "measured.Unit"),
    "Logarithm": ("A, B = measured.Logarithm(7.0), measured.Prefix(10, -5)", "A * B", "measured.Logarithm"),
    "LogarithmicUnit": ("A, B = measured.Logarithm(11.0), 3 * measured.One", "A[B]",
                        "measured.LogarithmicUnit"),
}


def env_for(cname: str) -> Dict[str, Any]:
    import measured

    slf = types.SimpleNamespace(_initialized=False)
    common = {"name": None, "symbol": None, "self": slf}
    if cname == "Dimension":
        return {**common, "exponents": (0, 7, -5) + (0,) * (len(measured.Number.exponents) - 3)}
    if cname == "Prefix":
        return {**common, "base": 10, "exponent": 37}
    if cname == "Unit":
        return {**common, "prefix": measured.IdentityPrefix, "factors": {"a": 1, "b": 1},
                "dimension": measured.Length * measured.Time}
    if cname == "Logarithm":
        return {**common, "base": 7.0, "prefix": measured.Prefix(10, -5)}
    return {**common, "logarithm": None, "reference": None}


def table_setdefault(cls: Any) -> Tuple[bool, List[int]]:
    """Is the intern table's setdefault one atomic step?  For a builtin dict: yes (a single C call
    with no Python code between look-up and insertion).  For any other table whose setdefault is a
    Python function: no -- it is modelled as look-up, then store, and the lines of that function
    which store into a subscript are the preemption point the replay stops at."""
    import ast
    import inspect
    import textwrap

    tbl = cls._known
    if type(tbl) is dict:
        return True, []
    fn = getattr(type(tbl), "setdefault", None)
    if not isinstance(fn, types.FunctionType):
        raise symnum.HarnessError(f"{cls.__name__}._known is a {type(tbl).__name__}: setdefault is neither "
                                  f"dict's nor a Python function; no model")
    tree = ast.parse(textwrap.dedent(inspect.getsource(fn)))
    first = fn.__code__.co_firstlineno
    lines = [n.lineno + first - 1 for n in ast.walk(tree) if isinstance(n, ast.Assign)
             and any(isinstance(t, ast.Subscript) for t in n.targets)]
    if not lines:
        raise symnum.HarnessError(f"no store found in {type(tbl).__name__}.setdefault")
    return False, lines


def replay(cname: str, threads: int, schedule: List[int], trace: List[Tuple],
           store_lines: List[int] = ()) -> str:
    setup, expr, clsc = SETUP[cname]
    tr = "\n".join(f"#   thread {k}  line {ln}  {act:14s} {src}" for k, ln, act, src in trace)
    return families.REPLAY_IMPORTS + f"""import threading, queue
# schedule found by the solver (one entry = one source line of {cname}.__new__/__init__):
{tr}
{setup}
cls = {clsc}
codes = {{cls.__new__.__code__, cls.__init__.__code__}}
# a table that is not a builtin dict: also stop before the store inside its Python-level setdefault
STORE_LINES = {list(store_lines)!r}
sd = getattr(type(cls._known), 'setdefault', None)
sd_code = getattr(sd, '__code__', None) if STORE_LINES else None
if sd_code is not None:
    codes.add(sd_code)
SCHEDULE = {schedule!r}
N = {threads}
go = [threading.Semaphore(0) for _ in range(N)]
events = [queue.Queue() for _ in range(N)]
results = [None] * N
free_run = threading.Event()
def tracer_for(k):
    def local(frame, event, arg):
        if event == 'line' and not free_run.is_set():
            if frame.f_code is sd_code and frame.f_lineno not in STORE_LINES:
                return local
            events[k].put('line')
            go[k].acquire()
        return local
    def glob(frame, event, arg):
        if event == 'call' and frame.f_code in codes:
            return local
        return None
    return glob
def body(k):
    sys.settrace(tracer_for(k))
    try:
        results[k] = {expr}
    finally:
        sys.settrace(None)
        events[k].put('done')
ts = [threading.Thread(target=body, args=(k,)) for k in range(N)]
for t in ts: t.start()
state = [events[k].get(timeout=30) for k in range(N)]     # every thread at its first traced line
for k in SCHEDULE:
    if state[k] == 'done':
        continue
    go[k].release()
    state[k] = events[k].get(timeout=30)
free_run.set()
for k in range(N):
    for _ in range(10000): go[k].release()
for t in ts: t.join(30)
later = {expr}
table_entries = [v for v in cls._known.values() if v is later or any(v is r for r in results)]
print('objects returned to the threads:', [hex(id(r)) for r in results], ' later evaluation:', hex(id(later)))
distinct = {{id(r) for r in results}} | {{id(later)}}
if len(distinct) != 1:
    print('REPRODUCED: threads evaluating the same expression obtained different {cname} objects'); sys.exit(1)
sys.exit(0)
"""


def worker(task: Tuple) -> Dict[str, Any]:
    cname, threads = task
    families.boot()
    import measured
    import measured.systems  # noqa

    cls = getattr(measured, cname)
    atomic, store_lines = table_setdefault(cls)
    steps = stepbmc.extract(cls, "_known", env_for(cname), atomic_setdefault=atomic)
    res = stepbmc.search(steps, threads, timeout_ms=120000)
    res["class"] = cname
    res["table_type"] = type(cls._known).__name__
    res["setdefault_atomic"] = atomic
    res["program"] = [repr(s) for s in steps]
    if res["result"] == "sat":
        res["replay"] = replay(cname, threads, res["schedule"],
                               [t for t in res["trace"] if t[2] != "LOCK_REL"], store_lines)
        res["schedule"] = [k for k, _, act, _ in res["trace"] if act != "LOCK_REL"]
    return res


def main(tier: str, selftest_cases: int = 0) -> int:
    rep = report.Report(PID, tier, "model_checking")
    threads = [2] if tier == "quick" else [2, 3]
    tasks = [(c, t) for c in SETUP for t in threads]
    results = par.run("props.c20", "worker", tasks)
    states = transitions = validated = 0
    for (cname, t), r in zip(tasks, results):
        rep.merge_stats(queries=2, solver_s=r["solver_s"])
        states += r["variables"]
        transitions += r["horizon"] * t
        if r["witness"] != "sat":
            raise symnum.HarnessError(f"{cname}: no completing schedule exists in the model (vacuous)")
        name = f"{cname}: all line-level schedules of {t} threads ({r['steps']} steps each, horizon {r['horizon']})"
        if r["result"] == "unsat":
            rep.ob("unsat", name, (cname, t))
        elif r["result"] == "unknown":
            rep.ob("unknown", name, (cname, t))
        else:
            rep.ob("sat", name, (cname, t))
            validated += 1
            rep.violation(f"C20:race:{cname}", f"{cname}: under schedule {r['schedule']} the threads obtain "
                          f"objects {r['rets']} and the table keeps {r['table']}", r["replay"])
        rep.sample({"class": cname, "threads": t, "program": r["program"][:14], "verdict": r["result"],
                    "schedule": r.get("schedule")}, 5)
    rep.functions.update([f"measured.{c}.__new__" for c in SETUP] + [f"measured.{c}.__init__" for c in SETUP])
    rep.coverage.update(states=max(states, 1), transitions=max(transitions, 1),
                        traces_validated_against_impl=validated, exhaustive=True,
                        selftest_cases=selftest_cases)
    rep.coverage["bounds"] = (f"threads: {threads}; one atomic step per source line of __new__ and __init__; "
                              "first-time construction of one key; all schedules up to the horizon "
                              "(= total number of steps), decided symbolically by z3 (schedule = integer "
                              "sequence); 'states' counts state variables of the unrolling, 'transitions' "
                              "scheduled steps")
    rep.coverage["explanation"] = (
        "Step systems are regenerated from the current source by an AST extractor that recognises "
        "table tests, loads, stores, dict.setdefault and `with lock:` blocks and refuses anything "
        "else; a reachability witness (some schedule completes) guards against vacuity; a schedule "
        "found is replayed on real threads driven line by line through sys.settrace.")
    rep.assumptions += ["line-level interleavings only (CPython may also switch inside a line)",
                        "dict.setdefault / `with lock` are atomic / mutually exclusive (GIL, C-level hash)",
                        "lru_cache wrappers of _multiply/_divide may call the wrapped function concurrently (documented)"]
    return rep.finish()
