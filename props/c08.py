"""C08 -- conversion results depend only on declared equivalences, not on query history
(E4; level: model_checking).

Read from the AST of the current conversions.py: which functions carry `lru_cache`, which of them
(transitively) read `_ratios/_offsets`, and which caches each writer of those tables clears.
The extracted cache machine is model-checked by z3 over symbolic histories of declarations and
queries on N abstract units; a history whose last query answers differently from the same
declarations on empty caches is replayed on the real library in fresh subprocesses.
"""

from __future__ import annotations

import ast
import itertools
import json
import os
import subprocess
import time
from typing import Any, Dict, List, Optional, Set, Tuple

import z3

from engine import families, report, symnum

PID = "C08"
CONV = os.environ.get("VERIF_REPO", "/repo") + "/src/measured/conversions.py"
INIT = os.environ.get("VERIF_REPO", "/repo") + "/src/measured/__init__.py"
TABLES = {"_ratios", "_offsets"}
NONE, EMPTY = -99, -98
MC: Dict[str, Any] = {}


def analyse(path: str) -> Dict[str, Any]:
    """Per function: is it lru_cache'd, what it calls, whether it reads/writes the declaration
    tables, which caches it clears.  A *cache* is either an lru_cache'd function (named after
    the function) or a module-level memo table: a name bound at module level to a dict that is
    not one of the declaration tables and that some function stores into (named after the
    table); a function that stores into a memo table is memoised through it."""
    tree = ast.parse(open(path).read())
    funcs: Dict[str, ast.FunctionDef] = {}
    for node in ast.walk(tree):
        if isinstance(node, ast.FunctionDef):
            funcs.setdefault(node.name, node)
    module_names = set()
    for node in tree.body:
        tgts = node.targets if isinstance(node, ast.Assign) else [node.target] if isinstance(node, ast.AnnAssign) else []
        val = getattr(node, "value", None)
        is_map = isinstance(val, (ast.Dict, ast.Set, ast.List)) or (
            isinstance(val, ast.Call) and ast.unparse(val.func).split(".")[-1] in
            ("dict", "defaultdict", "OrderedDict", "WeakKeyDictionary", "WeakValueDictionary", "set", "list",
             "deque", "WeakSet", "Counter"))
        for t in tgts:
            if isinstance(t, ast.Name) and is_map and t.id not in TABLES:
                module_names.add(t.id)

    def base_name(node: ast.AST) -> str:
        while isinstance(node, (ast.Subscript, ast.Attribute)) and not (
                isinstance(node, ast.Attribute) and isinstance(node.value, ast.Name) and node.value.id in ("self", "cls")):
            node = node.value
        return node.id if isinstance(node, ast.Name) else (node.attr if isinstance(node, ast.Attribute) else "")

    info: Dict[str, Any] = {}
    for name, fn in funcs.items():
        cached = any("lru_cache" in ast.unparse(d) or ast.unparse(d).endswith("cache")
                     for d in fn.decorator_list)
        calls, reads, writes, clears, stores, memo_reads = set(), set(), set(), set(), set(), set()
        for n in ast.walk(fn):
            if isinstance(n, ast.Call):
                f = n.func
                if isinstance(f, ast.Name):
                    calls.add(f.id)
                elif isinstance(f, ast.Attribute):
                    owner = ast.unparse(f.value).split(".")[-1]
                    if f.attr == "cache_clear":
                        clears.add(owner)
                    elif f.attr == "clear" and owner in module_names:
                        clears.add(owner)
                    elif f.attr in ("setdefault", "update", "__setitem__", "add", "append", "extend", "insert",
                                    "appendleft") and owner in module_names:
                        stores.add(owner)
                    calls.add(f.attr)
            if isinstance(n, ast.Name) and n.id in TABLES:
                reads.add(n.id)
            if isinstance(n, ast.Attribute) and n.attr in TABLES:
                reads.add(n.attr)
            if isinstance(n, ast.Name) and n.id in module_names and isinstance(n.ctx, ast.Load):
                memo_reads.add(n.id)
            if isinstance(n, (ast.Assign, ast.AugAssign, ast.AnnAssign)):
                tgts = n.targets if isinstance(n, ast.Assign) else [n.target]
                for t in tgts:
                    if isinstance(t, ast.Subscript):
                        bn = base_name(t)
                        if bn in TABLES:
                            writes.add("tables")
                        elif bn in module_names:
                            stores.add(bn)
                    elif isinstance(t, ast.Name) and t.id in module_names and any(
                            isinstance(g, ast.Global) and t.id in g.names for g in ast.walk(fn)):
                        clears.add(t.id)          # `global M; M = {}`
        info[name] = {"cached": cached, "calls": calls, "reads": reads, "writes": writes, "clears": clears,
                      "stores": stores, "memo_reads": memo_reads, "writes_t": set(writes)}
    # transitive reads and clears
    changed = True
    while changed:
        changed = False
        for name, d in info.items():
            for c in d["calls"]:
                if c in info and c != name:
                    for k in ("reads", "clears", "writes_t"):
                        if not info[c][k] <= d[k]:
                            d[k] |= info[c][k]
                            changed = True
    info["__memo_tables__"] = {"names": sorted(module_names)}
    return info


def reaches(info: Dict[str, Any], src: str, dst: str) -> bool:
    seen, stack = set(), [src]
    while stack:
        f = stack.pop()
        if f == dst:
            return True
        if f in seen or f not in info or f.startswith("__"):
            continue
        seen.add(f)
        stack.extend(info[f]["calls"])
    return False


def dynamic_table_writers() -> Dict[str, List[str]]:
    """Who stores into the declaration tables, by experiment: the real equate / translate / convert
    run on scratch units with _ratios/_offsets replaced by logging tables; every function of
    conversions.py on the call stack of a store is a (transitive) writer.  The AST cannot see a
    store through an alias (`table[source][target] = value` with `table` taken from a record)."""
    import sys as _sys

    import measured
    from measured import Length, conversions

    seen: Dict[str, set] = {"equate": set(), "translate": set(), "convert": set()}
    current = [""]

    class Row(dict):
        def __setitem__(self, k: Any, v: Any) -> None:
            f = _sys._getframe(1)
            while f is not None:
                if f.f_code.co_filename == conversions.__file__:
                    seen[current[0]].add(f.f_code.co_name)
                f = f.f_back
            dict.__setitem__(self, k, v)

    class Table(dict):
        def __missing__(self, k: Any) -> Any:
            r = Row()
            dict.__setitem__(self, k, r)
            return r

    a, b, c = (Length.unit(f"c08-probe-{i}", f"c08p{i}") for i in "abc")
    saved = (conversions._ratios, conversions._offsets)
    conversions._ratios, conversions._offsets = Table(), Table()
    try:
        current[0] = "equate"
        conversions.equate(1 * a, 2 * b)
        current[0] = "translate"
        conversions.translate(c, 3 * a)
        current[0] = "convert"
        for (x, y) in ((a, b), (b, a), (c, b)):
            try:
                conversions.convert(1 * x, y)
            except Exception:
                pass
    finally:
        conversions._ratios, conversions._offsets = saved
        for f in (conversions._find_path, conversions._plan_conversion):
            if hasattr(f, "cache_clear"):
                f.cache_clear()
    return {k: sorted(v) for k, v in seen.items()}


def dynamic_clears(caches: List[str]) -> Dict[str, List[str]]:
    """Which caches a declaring call leaves filled, by experiment: every cache is filled by a query,
    then equate / translate is called for a NEW pair and again for the SAME pair with another value
    (a correction of an earlier declaration), and what is still in each cache is looked at.  The AST
    sees that a function calls cache_clear(), not under which condition."""
    from measured import Length, conversions

    left: Dict[str, set] = {"equate": set(), "translate": set()}

    def filled(name: str) -> bool:
        obj = getattr(conversions, name, None)
        if obj is None:
            return False
        if hasattr(obj, "cache_info"):
            return obj.cache_info().currsize > 0
        try:
            return len(obj) > 0
        except TypeError:
            return False

    def query(x: Any, y: Any) -> None:
        try:
            conversions.convert(1 * x, y)
        except Exception:
            pass

    a, b, c, d = (Length.unit(f"c08-clr-{i}", f"c08clr{i}") for i in "abcd")
    saved = (conversions._ratios, conversions._offsets)
    from collections import defaultdict

    conversions._ratios, conversions._offsets = defaultdict(dict), defaultdict(dict)
    try:
        for writer, first, again in (
                ("equate", lambda: conversions.equate(1 * a, 2 * b), lambda: conversions.equate(1 * a, 3 * b)),
                ("translate", lambda: conversions.translate(c, 5 * d), lambda: conversions.translate(c, 7 * d))):
            for call in (first, again):
                query(a, b)
                query(c, d)
                try:
                    call()
                except Exception:
                    continue
                left[writer] |= {n for n in caches if filled(n)}
    finally:
        conversions._ratios, conversions._offsets = saved
        for n in caches:
            obj = getattr(conversions, n, None)
            if hasattr(obj, "cache_clear"):
                obj.cache_clear()
            elif hasattr(obj, "clear"):
                obj.clear()
    return {k: sorted(v) for k, v in left.items()}


def machine() -> Dict[str, Any]:
    info = analyse(CONV)
    memo_tables = info.pop("__memo_tables__")["names"]
    # stores the AST cannot attribute (aliases): add what the experiment shows
    dyn = dynamic_table_writers()
    for entry, fns in dyn.items():
        for fn in fns:
            if fn in info and not info[fn]["writes_t"]:
                info[fn]["writes_t"] = {"tables"}
                if entry == "convert" or fn not in ("equate", "translate"):
                    # a helper that stores: a direct writer (reached from the declaring entry points or not)
                    info[fn]["writes"] = {"tables"}
    # cache of a function: its lru_cache (named after it) or the memo table it stores into
    cache_of: Dict[str, str] = {}
    for n, d in info.items():
        if d["cached"] and d["reads"] & TABLES:
            cache_of[n] = n
        elif d["stores"] and d["reads"] & TABLES:
            if len(d["stores"]) > 1:
                raise symnum.HarnessError(f"{n} stores into several memo tables {sorted(d['stores'])}: no model")
            cache_of[n] = next(iter(d["stores"]))
    cached = sorted(cache_of)
    # the two declaring entry points; the tables may be written by helpers they call, but by
    # nothing that is not reached from them
    writers = sorted(n for n in ("equate", "translate") if n in info and info[n]["writes_t"])
    stray = sorted(n for n, d in info.items() if d["writes"] and n not in ("equate", "translate")
                   and not (reaches(info, "equate", n) or reaches(info, "translate", n)))
    # a function on the query path that stores into the tables: they are then no longer a function
    # of the declarations alone; modelled as "a query that finds a route adds it as a direct edge"
    query_writes = sorted(n for n in stray if reaches(info, "convert", n))
    if set(stray) - set(query_writes):
        raise symnum.HarnessError(f"the declaration tables are written outside equate/translate and outside "
                                  f"the query path: {sorted(set(stray) - set(query_writes))}")
    clears = {w: sorted(info[w]["clears"]) for w in writers}
    # a clear the AST sees may be conditional: what an experiment finds still filled is not cleared
    kept = dynamic_clears(sorted(set(cache_of.values())))
    conditional = {w: [c for c in clears[w] if c in kept.get(w, [])] for w in writers}
    # (the history model keeps the clears as read; the situations in which they do not happen are
    # turned into histories of their own in main)
    known = {"_find_path", "_plan_conversion"}
    # any other cached reader of the tables gets the generic stale-row model (search_generic)
    generic = sorted(set(cached) - known)
    for needed in ("convert", "_plan_conversion", "_find_path", "equate", "translate"):
        if needed not in info:
            raise symnum.HarnessError(f"conversions.{needed} not found: the cache model does not apply")
    if not reaches(info, "_plan_conversion", "_find_path") or not reaches(info, "convert", "_plan_conversion"):
        raise symnum.HarnessError("call structure convert -> _plan_conversion -> _find_path changed")
    # caches outside conversions.py must not read the declaration tables
    other = analyse(INIT)
    other.pop("__memo_tables__")
    generic += sorted(n for n, d in other.items() if d["cached"] and d["reads"] & TABLES)
    for n in generic:
        cache_of.setdefault(n, n)
    if set(writers) != {"equate", "translate"}:
        raise symnum.HarnessError(f"writers of the declaration tables changed: {writers}")
    cleared = lambda fn, w: cache_of.get(fn) in clears[w]
    return {"cached": cached, "writers": writers, "clears": clears, "cache_of": cache_of,
            "memo_tables": memo_tables, "query_writes_tables": query_writes,
            "clears_seen_in_the_source_but_not_in_every_situation": conditional,
            "explicit_memo": sorted(n for n in cached if cache_of[n] != n),
            "generic_caches": generic,
            "generic_cleared": {c: {w: cleared(c, w) for w in writers} for c in generic},
            "path_cached": "_find_path" in cached, "plan_cached": "_plan_conversion" in cached,
            "path_cleared": {w: cleared("_find_path", w) for w in writers},
            "plan_cleared": {w: cleared("_plan_conversion", w) for w in writers},
            "other_module_caches": sorted(n for n, d in other.items() if d["cached"])}


def search(mc: Dict[str, Any], N: int, L: int, timeout_ms: int, selective: bool = False) -> Dict[str, Any]:
    """selective: a cache the source does not clear wholesale is taken to be invalidated entry by
    entry on a declaration -- everything that mentions a declared unit and every memoised success
    goes, a memoised failure between two units the declaration does not mention stays (the
    refinement asked for when the wholesale reading gives a history the real code does not show)."""
    pairs = [(i, j) for i in range(N) for j in range(N) if i != j]
    S = z3.Solver()
    S.set("timeout", timeout_ms)
    w = [{p: z3.Int(f"w{t}_{p[0]}{p[1]}") for p in pairs} for t in range(L + 1)]
    # what was declared (the specification reads this); differs from w only when queries write
    dcl = [{p: z3.Int(f"d{t}_{p[0]}{p[1]}") for p in pairs} for t in range(L + 1)] if mc.get("query_writes_tables") else w
    pc = [{p: z3.Int(f"pathc{t}_{p[0]}{p[1]}") for p in pairs} for t in range(L + 1)]
    pl = [{p: z3.Int(f"planc{t}_{p[0]}{p[1]}") for p in pairs} for t in range(L + 1)]
    kind = [z3.Int(f"kind{t}") for t in range(L)]
    a = [z3.Int(f"a{t}") for t in range(L)]
    b = [z3.Int(f"b{t}") for t in range(L)]
    r = [z3.Int(f"r{t}") for t in range(L)]
    impl = [z3.Int(f"impl{t}") for t in range(L)]      # outcome of a query: EMPTY = fails, else value
    spec = [z3.Int(f"spec{t}") for t in range(L)]
    for p in pairs:
        S.add(w[0][p] == 0, pc[0][p] == NONE, pl[0][p] == NONE)
        if dcl is not w:
            S.add(dcl[0][p] == 0)

    def fresh(t: int, i: int, j: int, tbl: Any = None) -> Any:
        """What the code computes from the tables alone (shortest path: direct, else one hop)."""
        tbl = w if tbl is None else tbl
        direct = tbl[t][(i, j)]
        via = []
        for k in range(N):
            if k in (i, j):
                continue
            via.append((z3.And(tbl[t][(i, k)] != 0, tbl[t][(k, j)] != 0), tbl[t][(i, k)] + tbl[t][(k, j)]))
        if N >= 4:
            # two intermediate units (what a declaration that mentions neither end point can complete)
            for k in range(N):
                for l in range(N):
                    if len({i, j, k, l}) == 4:
                        via.append((z3.And(tbl[t][(i, k)] != 0, tbl[t][(k, l)] != 0, tbl[t][(l, j)] != 0),
                                    tbl[t][(i, k)] + tbl[t][(k, l)] + tbl[t][(l, j)]))
        expr: Any = z3.IntVal(EMPTY)
        for cond, val in reversed(via):
            expr = z3.If(cond, val, expr)
        return z3.If(direct != 0, direct, expr)

    for t in range(L):
        # kind 0: A.equals(r * B) via equate; kind 1: query; kind 2: conversions.translate(A, 7 * B)
        S.add(kind[t] >= 0, kind[t] <= 2, a[t] >= 0, a[t] < N, b[t] >= 0, b[t] < N, a[t] != b[t],
              r[t] >= 1, r[t] <= 2)
        for (i, j) in pairs:
            sel = z3.And(a[t] == i, b[t] == j)
            rev = z3.And(a[t] == j, b[t] == i)
            decl = kind[t] == 0
            tran = kind[t] == 2
            # declarations write both directions (a scale's edge is given the marker weight 5)
            f = fresh(t, i, j)
            keep_w = w[t][(i, j)]
            if dcl is not w:
                # a query on (i, j) that finds a route through another unit stores it as an edge
                keep_w = z3.If(z3.And(kind[t] == 1, sel, w[t][(i, j)] == 0, f != EMPTY), f, w[t][(i, j)])
                S.add(dcl[t + 1][(i, j)] == z3.If(z3.And(decl, sel), r[t],
                                                 z3.If(z3.And(decl, rev), -r[t],
                                                       z3.If(z3.And(tran, sel), 5,
                                                             z3.If(z3.And(tran, rev), -5, dcl[t][(i, j)])))))
            S.add(w[t + 1][(i, j)] == z3.If(z3.And(decl, sel), r[t],
                                           z3.If(z3.And(decl, rev), -r[t],
                                                 z3.If(z3.And(tran, sel), 5,
                                                       z3.If(z3.And(tran, rev), -5, keep_w)))))
            path = z3.If(pc[t][(i, j)] != NONE, pc[t][(i, j)], f) if mc["path_cached"] else f
            plan_hit = pl[t][(i, j)] != NONE if mc["plan_cached"] else z3.BoolVal(False)
            res = z3.If(plan_hit, pl[t][(i, j)], path)
            q = z3.And(kind[t] == 1, sel)
            S.add(z3.Implies(q, z3.And(impl[t] == res, spec[t] == fresh(t, i, j, dcl))))
            # cache updates
            pc_q = z3.If(plan_hit, pc[t][(i, j)], path) if mc["path_cached"] else z3.IntVal(NONE)
            pl_q = z3.If(plan_hit, pl[t][(i, j)], z3.If(path != EMPTY, path, z3.IntVal(NONE))) \
                if mc["plan_cached"] else z3.IntVal(NONE)
            def kept(cell: Any) -> Any:
                if not selective:
                    return cell
                touched = z3.Or(a[t] == i, a[t] == j, b[t] == i, b[t] == j)
                return z3.If(z3.Or(touched, cell != EMPTY), z3.IntVal(NONE), cell)

            pc_d = z3.IntVal(NONE) if mc["path_cleared"]["equate"] else kept(pc[t][(i, j)])
            pl_d = z3.IntVal(NONE) if mc["plan_cleared"]["equate"] else kept(pl[t][(i, j)])
            pc_t = z3.IntVal(NONE) if mc["path_cleared"]["translate"] else kept(pc[t][(i, j)])
            pl_t = z3.IntVal(NONE) if mc["plan_cleared"]["translate"] else kept(pl[t][(i, j)])
            S.add(pc[t + 1][(i, j)] == z3.If(decl, pc_d, z3.If(tran, pc_t, z3.If(q, pc_q, pc[t][(i, j)]))))
            S.add(pl[t + 1][(i, j)] == z3.If(decl, pl_d, z3.If(tran, pl_t, z3.If(q, pl_q, pl[t][(i, j)]))))
    # vacuity witness: some history ends with a successful query
    t0 = time.time()
    S.push()
    S.add(kind[L - 1] == 1, impl[L - 1] != EMPTY, z3.Or(*[kind[t] != 1 for t in range(L - 1)]))
    witness = str(S.check())
    S.pop()
    S.add(z3.Or(*[z3.And(kind[t] == 1, impl[t] != spec[t]) for t in range(L)]))
    res = str(S.check())
    out: Dict[str, Any] = {"result": res, "witness": witness, "N": N, "L": L,
                           "solver_s": time.time() - t0, "state_vars": (L + 1) * len(pairs) * 3 + 5 * L}
    if res == "sat":
        m = S.model()
        ev = lambda x: m.eval(x, model_completion=True).as_long()
        bad = next(t for t in range(L) if ev(kind[t]) == 1 and ev(impl[t]) != ev(spec[t]))
        hist = []
        for t in range(bad + 1):
            if ev(kind[t]) == 0:
                hist.append(("declare", ev(a[t]), ev(b[t]), ev(r[t]) + 1))
            elif ev(kind[t]) == 2:
                hist.append(("translate", ev(a[t]), ev(b[t]), 7))
            else:
                hist.append(("query", ev(a[t]), ev(b[t])))
        out["history"] = hist
        out["implemented"], out["specified"] = ev(impl[bad]), ev(spec[bad])
    return out


def search_generic(mc: Dict[str, Any], N: int, L: int, timeout_ms: int) -> Dict[str, Any]:
    """Cached readers of the tables other than the two the precise model knows: each is taken to
    memoise, per unit, something computed from that unit's row of the tables.  A query on (a, b)
    looks up the entries of a and b; an entry filled before the row last changed and not cleared
    by the writer is a stale read."""
    t0 = time.time()
    S = z3.Solver()
    S.set("timeout", timeout_ms)
    caches = mc["generic_caches"]
    ver = [[z3.Int(f"ver{t}_{u}") for u in range(N)] for t in range(L + 1)]
    st = [{c: [z3.Int(f"st{t}_{c}_{u}") for u in range(N)] for c in caches} for t in range(L + 1)]
    kind = [z3.Int(f"kind{t}") for t in range(L)]
    a = [z3.Int(f"a{t}") for t in range(L)]
    b = [z3.Int(f"b{t}") for t in range(L)]
    stale = []
    for u in range(N):
        S.add(ver[0][u] == 0, *[st[0][c][u] == -1 for c in caches])
    for t in range(L):
        S.add(kind[t] >= 0, kind[t] <= 2, a[t] >= 0, a[t] < N, b[t] >= 0, b[t] < N, a[t] != b[t])
        touched = lambda u: z3.Or(a[t] == u, b[t] == u)
        decl, q, tran = kind[t] == 0, kind[t] == 1, kind[t] == 2
        for u in range(N):
            S.add(ver[t + 1][u] == z3.If(z3.And(z3.Or(decl, tran), touched(u)), ver[t][u] + 1, ver[t][u]))
            for c in caches:
                keep = st[t][c][u]
                after_d = z3.IntVal(-1) if mc["generic_cleared"][c]["equate"] else keep
                after_t = z3.IntVal(-1) if mc["generic_cleared"][c]["translate"] else keep
                after_q = z3.If(z3.And(touched(u), keep == -1), ver[t][u], keep)
                S.add(st[t + 1][c][u] == z3.If(decl, after_d, z3.If(tran, after_t, after_q)))
                stale.append((t, c, u, z3.And(q, touched(u), keep != -1, keep != ver[t][u])))
    # the key such a store is looked up under is not known: an entry made by a query on (j, i) may
    # be the one a query on (i, j) finds (a key that forgets the direction)
    pairs = [(i, j) for i in range(N) for j in range(N) if i != j]
    filled = [{c: {pq: z3.Bool(f"filled{t}_{c}_{pq[0]}{pq[1]}") for pq in pairs} for c in caches} for t in range(L + 1)]
    for c in caches:
        S.add(*[z3.Not(filled[0][c][pq]) for pq in pairs])
    for t in range(L):
        decl, q, tran = kind[t] == 0, kind[t] == 1, kind[t] == 2
        for c in caches:
            cleared = z3.Or(z3.And(decl, z3.BoolVal(mc["generic_cleared"][c]["equate"])),
                            z3.And(tran, z3.BoolVal(mc["generic_cleared"][c]["translate"])))
            for (i, j) in pairs:
                here = z3.And(q, a[t] == i, b[t] == j)
                S.add(filled[t + 1][c][(i, j)] == z3.If(cleared, False, z3.Or(filled[t][c][(i, j)], here)))
                stale.append((t, c, i, z3.And(here, filled[t][c][(j, i)], z3.Not(filled[t][c][(i, j)]))))
    if not stale:
        return {"result": "unsat", "N": N, "L": L, "solver_s": 0.0, "state_vars": 0}
    S.add(z3.Or(*[s_ for *_, s_ in stale]))
    res = str(S.check())
    out: Dict[str, Any] = {"result": res, "N": N, "L": L, "solver_s": 0.0,
                           "state_vars": (L + 1) * N * (1 + len(caches)) + 3 * L, "histories": []}
    # every stale-read history within the bound, up to renaming of the units (the stale unit is
    # renamed 0, its partner in the last query 1, further units in order of appearance)
    seen: Set[Any] = set()
    S.push()
    S.add(*[k != 2 for k in kind])          # histories without translate first
    phase = 0
    while len(seen) < 64:
        if str(S.check()) != "sat":
            if phase == 1:
                break
            phase = 1
            S.pop()
            continue
        m = S.model()
        ev = lambda x: m.eval(x, model_completion=True).as_long()
        bad, cache, u = next((t, c, u) for t, c, u, s_ in stale if z3.is_true(m.eval(s_, model_completion=True)))
        S.add(z3.Or(*[z3.Or(kind[t] != ev(kind[t]), a[t] != ev(a[t]), b[t] != ev(b[t])) for t in range(bad + 1)]))
        ren = {u: 0}
        last = (ev(a[bad]), ev(b[bad]))
        ren[last[0] if last[1] == u else last[1]] = 1
        hist = []
        for t in range(bad + 1):
            k, x, y = ev(kind[t]), ev(a[t]), ev(b[t])
            for z in (x, y):
                ren.setdefault(z, len(ren))
            hist.append(("declare", ren[x], ren[y], 3) if k == 0 else
                        ("translate", ren[x], ren[y], 7) if k == 2 else ("query", ren[x], ren[y]))
        if (cache, tuple(hist)) not in seen:
            seen.add((cache, tuple(hist)))
            out["histories"].append((cache, hist))
    out["solver_s"] = time.time() - t0
    return out


REPLAY_LIB = r'''
import json, sys
import measured
from measured import Length, conversions
SHAPE = "length"
ONE_WAY = None
def units(tag):
    from measured import Area, Force, Energy
    from measured.si import Meter, Newton, Second, Kilogram, Joule
    from measured.us import Foot, Pound
    if SHAPE == "length":
        return [Length.unit(f"c08-{tag}-{i}", f"c08-{tag}-{i}") for i in range(4)]
    if SHAPE == "area":     # a named unit of a derived dimension, compound target, compound anchor
        return [Area.unit(f"c08-{tag}-0", f"c08-{tag}-0"), Foot**2, Meter**2, Area.unit(f"c08-{tag}-3", f"c08-{tag}-3")]
    if SHAPE == "force":
        return [Force.unit(f"c08-{tag}-0", f"c08-{tag}-0"), Pound * Foot / Second**2, Newton,
                Force.unit(f"c08-{tag}-3", f"c08-{tag}-3")]
    if SHAPE.startswith("oneway"):   # shipped units the planner converts in one direction only
        import measured.systems
        a_, b_ = [eval(c, {"measured": measured}) for c in ONE_WAY]
        pair = [a_, b_] if SHAPE == "oneway" else [b_, a_]
        return pair + [Length.unit(f"c08-{tag}-2", f"c08-{tag}-2"), Length.unit(f"c08-{tag}-3", f"c08-{tag}-3")]
    if SHAPE == "energy":
        return [Energy.unit(f"c08-{tag}-0", f"c08-{tag}-0"), Kilogram * Foot**2 / Second**2, Joule,
                Energy.unit(f"c08-{tag}-3", f"c08-{tag}-3")]
def run(history, tag):
    us = units(tag)
    out = None
    for op in history:
        if op[0] == "declare":
            us[op[1]].equals(op[3] * us[op[2]])
        elif op[0] == "translate":
            conversions.translate(us[op[1]], op[3] * us[op[2]])
        else:
            try:
                out = ("ok", float((1 * us[op[1]]).in_unit(us[op[2]]).magnitude))
            except conversions.ConversionNotFound:
                out = ("ConversionNotFound",)
            except Exception as e:
                out = ("exc", type(e).__name__)
    return out
'''


SHAPES = ("length", "area", "force", "energy", "oneway", "oneway-rev")
ONE_WAY_CODES: List[Any] = []


def replay(history: List[Tuple], shape: str = "length") -> str:
    return f"""import subprocess, json
HISTORY = {history!r}
LIB = {REPLAY_LIB.replace('SHAPE = "length"', 'SHAPE = ' + repr(shape)).replace('ONE_WAY = None', 'ONE_WAY = ' + repr(ONE_WAY_CODES[0] if ONE_WAY_CODES else None))!r}
def fresh_process(hist, tag):
    code = LIB + "\\nprint(json.dumps(run(" + repr(hist) + ", " + repr(tag) + ")))"
    p = subprocess.run([sys.executable, "-c", code], capture_output=True, text=True)
    return json.loads(p.stdout.strip().splitlines()[-1])
with_history = fresh_process(HISTORY, 'h')
decls_only = [op for op in HISTORY[:-1] if op[0] != 'query'] + [HISTORY[-1]]
without = fresh_process(decls_only, 'f')
print('history:', HISTORY)
print('last query with the full history:', with_history, ' same declarations, fresh process:', without)
if with_history != without:
    print('REPRODUCED: an earlier query changed the outcome of a later conversion'); sys.exit(1)
sys.exit(0)
"""


INTERFERENCE_GRAPHS = [
    # declarations over four fresh units whose routes disagree (the user may declare anything: which
    # route a conversion takes must still not depend on what was asked before)
    [("declare", 0, 1, 2), ("declare", 1, 2, 3), ("declare", 2, 3, 5), ("declare", 0, 3, 31)],
    [("declare", 0, 3, 31), ("declare", 0, 1, 2), ("declare", 1, 2, 3), ("declare", 2, 3, 5)],
    [("declare", 0, 1, 2), ("declare", 1, 3, 7), ("declare", 0, 2, 3), ("declare", 2, 3, 5)],
]


def query_interference(rep: report.Report, mc: Dict[str, Any]) -> None:
    """Only when the query path keeps state of its own besides the two known caches (found by the
    AST analysis): the abstract history model has no notion of WHICH route a remembered row
    stands for, so every ordered pair of queries over small declaration graphs with disagreeing
    routes is run on the real library -- the later query with and without the earlier one, each in
    a fresh process.  A finite audit, listed as such in the evidence."""
    from concurrent.futures import ThreadPoolExecutor

    os.makedirs(report.REPLAY_DIR, exist_ok=True)
    pairs = [(i, j) for i in range(4) for j in range(4) if i != j]
    jobs = [(g, q1, q2) for g in INTERFERENCE_GRAPHS for q1 in pairs for q2 in pairs if q1 != q2]

    def probe(job: Tuple) -> bool:
        g, q1, q2 = job
        h = list(g) + [("query",) + q1, ("query",) + q2]
        tmp = os.path.join(report.REPLAY_DIR, f"_c08_qi_{abs(hash(str(h)))}.py")
        with open(tmp, "w") as f:
            f.write("import sys\n" + replay(h, "length"))
        ok, _ = report.run_replay(tmp)
        os.remove(tmp)
        return ok

    with ThreadPoolExecutor(16) as tp:
        oks = list(tp.map(probe, jobs))
    name = (f"state kept on the query path ({mc['generic_caches']}): {len(jobs)} ordered pairs of queries over "
            f"{len(INTERFERENCE_GRAPHS)} declaration graphs with disagreeing routes answer as in a fresh process")
    hits = [job for job, ok in zip(jobs, oks) if ok]
    rep.coverage["query_interference_pairs"] = len(jobs)
    if not hits:
        rep.ob("unsat", name, ("query-interference",))
        return
    rep.ob("sat", name, ("query-interference",))
    g, q1, q2 = hits[0]
    h = list(g) + [("query",) + q1, ("query",) + q2]
    rep.violation("C08:query-interference", f"history {h}: the conversion {q2} answers differently after the "
                  f"conversion {q1} than in a fresh process with the same declarations ({len(hits)} of {len(jobs)} "
                  f"query pairs)", replay(h, "length"))


MEMO_VALUE_SRC = r'''
import json, sys
import measured, measured.systems
from measured import conversions, One
from measured.si import Celsius, Kelvin, Meter, Second, Kilogram, Watt, Hour, Liter
from measured.us import Fahrenheit, Foot, Mile, Inch, Acre, Gallon
from measured.avoirdupois import Pound
PLAIN = [("Celsius", "Kelvin"), ("Fahrenheit", "Celsius"), ("Kelvin", "Fahrenheit"), ("Foot", "Meter"), ("Mile", "Inch"),
         ("Pound", "Kilogram"), ("Hour", "Second"), ("Gallon", "Liter")]
SHAPES = ["Watt / {u}", "{u} * Watt", "{u} ** 2", "One / {u}", "Watt / {u} ** 2", "{u} / Second", "Kilogram * {u} / Second ** 2"]
def value(a, b):
    try:
        return repr((20 * eval(a)).in_unit(eval(b)).magnitude)
    except Exception as e:
        return type(e).__name__
def interfere(a, b, shape):
    try:
        (5 * eval(shape.format(u=a))).in_unit(eval(shape.format(u=b)))
    except Exception:
        pass
mode = sys.argv[1]
if mode == "audit":
    first = {p: value(*p) for p in PLAIN}
    hits = []
    for (a, b) in PLAIN:
        for shape in SHAPES:
            interfere(a, b, shape)
            for p in PLAIN:
                now = value(*p)
                if now != first[p]:
                    hits.append([list(p), first[p], now, a, b, shape])
                    first[p] = now
    print(json.dumps(hits))
else:
    a, b, shape, qa, qb = sys.argv[2:7]
    if mode == "with":
        interfere(a, b, shape)
    print(json.dumps(value(qa, qb)))
'''


def memo_value_audit(rep: report.Report) -> None:
    """What a memoised function returned must not be changed under it: plain conversions are asked,
    then conversions of compound units built from the same pairs (a scale in a denominator, powers,
    products), then the plain ones again -- all in one process; a changed answer is replayed against a
    fresh process.  A finite audit over 8 pairs x 7 compound shapes, listed as such."""
    p = subprocess.run([report.REPO_PY, "-c", MEMO_VALUE_SRC, "audit"], capture_output=True, text=True, timeout=300, cwd="/")
    if p.returncode != 0:
        rep.ob("unknown", f"memoised values audit did not run: {p.stderr[-200:]}", ("memo-values",))
        return
    hits = json.loads(p.stdout.strip().splitlines()[-1])
    name = "plain conversions answer the same before and after 56 conversions of compound units built from the same pairs"
    if not hits:
        rep.ob("unsat", name, ("memo-values",))
        return
    rep.ob("sat", name, ("memo-values",))
    (qa, qb), was, now, a, b, shape = hits[0]
    body = "import subprocess, json\nSRC = " + repr(MEMO_VALUE_SRC) + f"""
def run(mode):
    p = subprocess.run([sys.executable, '-c', SRC, mode, {a!r}, {b!r}, {shape!r}, {qa!r}, {qb!r}], capture_output=True, text=True)
    return json.loads(p.stdout.strip().splitlines()[-1])
fresh, after = run('without'), run('with')
print('(20 * {qa}).in_unit({qb}) in a fresh process:', fresh, '  after converting 5 * ({shape.format(u=a)}) into {shape.format(u=b)}:', after)
if fresh != after:
    print('REPRODUCED: an earlier conversion of other units changed the outcome of a later one'); sys.exit(1)
sys.exit(0)
"""
    rep.violation("C08:memoised-value-changed",
                  f"(20 * {qa}).in_unit({qb}) answers {was} and, after (5 * ({shape.format(u=a)})).in_unit({shape.format(u=b)}), "
                  f"{now}: a conversion of other units changed what a memo holds ({len(hits)} changes in the audit)", body)


def validate_abstraction(rep: report.Report, tier: str) -> int:
    """fresh(D)(i,j) of the model vs the real in_unit with empty caches, for every declaration
    graph on 3 nodes."""
    weights = (0, 2) if tier == "quick" else (0, 2, 3)
    graphs = list(itertools.product(weights, repeat=3))
    code = REPLAY_LIB + r'''
graphs = json.loads(sys.argv[1])
CACHES = json.loads(sys.argv[2])
def empty_caches():
    for name in CACHES:
        obj = getattr(conversions, name)
        (obj.cache_clear if hasattr(obj, "cache_clear") else obj.clear)()
res = []
for gi, g in enumerate(graphs):
    us = [Length.unit(f"c08-v{gi}-{i}", f"c08-v{gi}-{i}") for i in range(3)]
    for (i, j), wgt in zip(((0, 1), (0, 2), (1, 2)), g):
        if wgt:
            us[i].equals(wgt * us[j])
    row = []
    for i in range(3):
        for j in range(3):
            if i == j: continue
            empty_caches()
            try:
                row.append(float((1 * us[i]).in_unit(us[j]).magnitude))
            except conversions.ConversionNotFound:
                row.append(None)
    res.append(row)
print(json.dumps(res))
'''
    p = subprocess.run([report.REPO_PY, "-c", code, json.dumps(graphs), json.dumps(sorted(set(MC["cache_of"].values())))],
                       capture_output=True, text=True, timeout=300, cwd="/")
    if p.returncode != 0:
        raise symnum.HarnessError(f"abstraction validation failed to run: {p.stderr[-500:]}")
    real = json.loads(p.stdout.strip().splitlines()[-1])
    n = 0
    for g, row in zip(graphs, real):
        w = {(0, 1): g[0], (0, 2): g[1], (1, 2): g[2]}
        full = {}
        for (i, j), v in w.items():
            full[(i, j)] = float(v) if v else None
            full[(j, i)] = 1.0 / v if v else None
        k = 0
        for i in range(3):
            for j in range(3):
                if i == j:
                    continue
                other = 3 - i - j
                if full[(i, j)]:
                    want = full[(i, j)]
                elif full[(i, other)] and full[(other, j)]:
                    want = full[(i, other)] * full[(other, j)]
                else:
                    want = None
                got = row[k]
                k += 1
                ok = (want is None and got is None) or (want is not None and got is not None and
                                                        abs(want - got) < 1e-9 * want)
                if not ok:
                    raise symnum.HarnessError(f"cache model abstraction wrong: graph {g}, query {i}->{j}: "
                                              f"model {want}, library {got}")
                n += 1
    return n


def order_worker(task: Tuple) -> Tuple[str, Any]:
    """One fresh interpreter: build source and target with their factors multiplied in the given
    order, then run the real in_unit on a symbolic magnitude."""
    from engine import convterm

    families.boot()
    import measured

    s, d, mode = task

    def build(spec: Any) -> Any:
        (base, exp), factors = spec
        fs = list(factors)[::-1] if mode == "rev" else list(factors)
        u = measured.One
        for name, e in fs:
            u = u * measured.Unit.named(name) ** e
        return measured.Prefix(base, exp) * u if base else u

    with symnum.Shims():
        cv = convterm.convert(build(s), build(d))
    return cv.outcome, (str(cv.c) if cv.c is not None else None)


def order_replay(s: Any, d: Any) -> str:
    return f"""import subprocess, json
SRC, DST = {s!r}, {d!r}
CODE = '''
import json, sys
import measured, measured.systems
src, dst, mode = json.loads(sys.argv[1]), json.loads(sys.argv[2]), sys.argv[3]
def build(spec):
    (base, exp), factors = spec
    fs = factors[::-1] if mode == "rev" else factors
    u = measured.One
    for name, e in fs:
        u = u * measured.Unit.named(name) ** e
    return measured.Prefix(base, exp) * u if base else u
a, b = build(src), build(dst)
try:
    print(json.dumps(["ok", float((1 * a).in_unit(b).magnitude)]))
except measured.conversions.ConversionNotFound:
    print(json.dumps(["ConversionNotFound"]))
'''
def run(mode):
    p = subprocess.run([sys.executable, '-c', CODE, json.dumps(SRC), json.dumps(DST), mode], capture_output=True, text=True)
    return json.loads(p.stdout.strip().splitlines()[-1])
fwd, rev = run('fwd'), run('rev')
print('factors multiplied in the written order :', fwd)
print('factors multiplied in the reverse order :', rev)
if fwd[0] != rev[0] or (fwd[0] == 'ok' and abs(fwd[1] - rev[1]) > 1e-9 * abs(fwd[1])):
    print('REPRODUCED: the same unit converts differently depending on the order it was first built in'); sys.exit(1)
sys.exit(0)
"""


def construction_order(rep: report.Report, tier: str) -> None:
    """The outcome of a conversion must not depend on the order in which the (interned, hence
    shared) source / target unit was first multiplied together earlier in the process."""
    from fractions import Fraction

    from engine import par
    from props import conv_common as cc

    pairs = [p for p in cc.compound_pair_specs(3, core_only=True, limit=3000, seed=1) if len(p[0][1]) >= 3]
    pairs = pairs[:48] if tier == "quick" else pairs[:800]
    tasks = [(s, d, m) for s, d in pairs for m in ("fwd", "rev")]
    res = par.run("props.c08", "order_worker", tasks, maxtasksperchild=1)
    outcome_diff, value_diff = [], []
    for i in range(0, len(res), 2):
        (o1, c1), (o2, c2) = res[i], res[i + 1]
        s, d = tasks[i][0], tasks[i][1]
        if o1 != o2:
            outcome_diff.append((s, d, o1, o2))
        elif o1 == "ok" and abs(Fraction(c1) - Fraction(c2)) > Fraction(1, 10 ** 9) * abs(Fraction(c1)):
            value_diff.append((s, d, c1, c2))
        rep.ob("unsat" if o1 == o2 and (s, d) not in [(a, b) for a, b, *_ in value_diff] else "sat",
               "conversion independent of the order the unit was first built in", ("order", i))
    rep.coverage["construction_order"] = {"pairs": len(pairs), "outcome_differs": len(outcome_diff),
                                          "value_differs": len(value_diff)}
    if outcome_diff:
        s, d, o1, o2 = outcome_diff[0]
        rep.violation("C08:outcome-depends-on-the-order-a-unit-was-first-built-in",
                      f"{len(outcome_diff)} of {len(pairs)} three-factor pairs: e.g. {s} -> {d} gives {o1} when the "
                      f"factors are multiplied in one order and {o2} in the reverse order",
                      order_replay(json.loads(json.dumps(s)), json.loads(json.dumps(d))))
    if value_diff:
        s, d, c1, c2 = value_diff[0]
        rep.violation("C08:value-depends-on-the-order-a-unit-was-first-built-in",
                      f"{len(value_diff)} pairs convert to different values depending on construction order, "
                      f"e.g. {s} -> {d}", order_replay(json.loads(json.dumps(s)), json.loads(json.dumps(d))))


def main(tier: str, selftest_cases: int = 0) -> int:
    rep = report.Report(PID, tier, "model_checking")
    families.boot()
    mc = machine()
    MC.update(mc)
    validated = validate_abstraction(rep, tier)
    bounds = [(3, 3), (3, 4), (3, 5)] if tier == "quick" else [(3, 3), (3, 5), (3, 7), (4, 5), (4, 6)]
    states = transitions = replayed = 0
    for (N, L) in bounds:
        r = search(mc, N, L, 120000 if tier == "quick" else 600000)
        rep.merge_stats(queries=2, solver_s=r["solver_s"])
        states += r["state_vars"]
        transitions += L
        if r["witness"] != "sat":
            raise symnum.HarnessError("vacuous history model")
        name = f"histories of <= {L} declarations/queries over {N} units"
        rep.ob("unsat" if r["result"] == "unsat" else ("unknown" if r["result"] == "unknown" else "sat"),
               name, (N, L))
        rep.sample({"N": N, "L": L, "verdict": r["result"], "history": r.get("history")})
        if r["result"] == "sat":
            replayed += 1
            kinds = "-".join(op[0][0] for op in r["history"])
            stale = "stale-failure" if r["implemented"] == EMPTY else (
                "stale-success" if r["specified"] == EMPTY else "stale-value")
            verdict = rep.violation(f"C08:{stale}", f"history {r['history']}: last query answers "
                                    f"{'fails' if r['implemented'] == EMPTY else r['implemented']} but the declarations "
                                    f"alone give {'fails' if r['specified'] == EMPTY else r['specified']}",
                                    replay(r["history"]), soft=True)
            if verdict == "not-reproduced":
                # the cache is not cleared wholesale, yet the real code does not keep this entry:
                # it invalidates entry by entry.  Refined model (see search): which entries can survive?
                r2 = search(mc, 4, 5, 300000, selective=True)
                rep.merge_stats(queries=2, solver_s=r2["solver_s"])
                states += r2["state_vars"]
                transitions += 5
                name2 = "histories of <= 5 declarations/queries over 4 units, entry-by-entry invalidation"
                rep.ob("unsat" if r2["result"] == "unsat" else ("unknown" if r2["result"] == "unknown" else "sat"),
                       name2, (4, 5, "selective"))
                if r2["result"] == "sat":
                    st2 = "stale-failure" if r2["implemented"] == EMPTY else (
                        "stale-success" if r2["specified"] == EMPTY else "stale-value")
                    rep.violation(f"C08:{st2}:entry-by-entry-invalidation",
                                  f"history {r2['history']}: last query answers "
                                  f"{'fails' if r2['implemented'] == EMPTY else r2['implemented']} but the "
                                  f"declarations alone give {'fails' if r2['specified'] == EMPTY else r2['specified']}",
                                  # the refinement is one reading of "selective": a history the real code
                                  # does not show is inconclusive, not a harness error
                                  replay(r2["history"]), soft=True)
            break
    if mc["generic_caches"]:
        for (N, L) in bounds:
            r = search_generic(mc, N, L, 120000)
            rep.merge_stats(queries=1, solver_s=r["solver_s"])
            states += r["state_vars"]
            transitions += L
            name = f"other cached readers {mc['generic_caches']}: histories of <= {L} steps over {N} units"
            if r["result"] != "sat" or not r["histories"]:
                rep.ob("unsat" if r["result"] == "unsat" else "unknown", name, ("generic", N, L))
                continue
            # each abstract history is replayed in every concrete shape of units (fresh processes,
            # in parallel); the first that shows the difference on the real library is reported
            from concurrent.futures import ThreadPoolExecutor

            os.makedirs(report.REPLAY_DIR, exist_ok=True)
            if not ONE_WAY_CODES:
                from props import c12

                ONE_WAY_CODES.extend(c12.one_way_pairs(2)[:1])
            shapes = [sh for sh in SHAPES if not sh.startswith("oneway") or ONE_WAY_CODES]
            jobs = [(c, h, shape) for c, h in r["histories"] for shape in shapes]

            def probe(job: Tuple) -> bool:
                c, h, shape = job
                tmp = os.path.join(report.REPLAY_DIR, f"_c08_probe_{abs(hash((c, str(h), shape)))}.py")
                with open(tmp, "w") as f:
                    f.write("import sys\n" + replay(h, shape))
                ok, _ = report.run_replay(tmp)
                os.remove(tmp)
                return ok

            with ThreadPoolExecutor(16) as tp:
                oks = list(tp.map(probe, jobs))
            verdict = "unknown"
            for (c, h, shape), ok in zip(jobs, oks):
                if ok:
                    replayed += 1
                    rep.violation(f"C08:stale-{c}", f"history {h} on {shape} units: what {c} keeps between calls "
                                  f"(cleared by {[w for w in mc['writers'] if mc['generic_cleared'][c][w]] or 'no writer'}"
                                  f") makes the last query answer differently from a fresh process",
                                  replay(h, shape))
                    verdict = "sat"
                    break
            rep.ob(verdict, name + ("" if verdict == "sat" else f" (stale read possible in the model; none of "
                                    f"{len(jobs)} concretisations shows a different answer)"), ("generic", N, L))
            rep.sample({"generic": mc["generic_caches"], "N": N, "L": L, "histories": len(r["histories"]),
                        "verdict": verdict})
            break
    if mc["generic_caches"]:
        query_interference(rep, mc)
    memo_value_audit(rep)
    # a declaring call that leaves a cache filled in some situation (found by experiment: a new pair
    # against a pair declared before): the history that would show a stale answer is replayed
    for w, kept in mc.get("clears_seen_in_the_source_but_not_in_every_situation", {}).items():
        name = f"{w} empties {mc['clears'].get(w)} in every situation tried (new pair, pair declared before)"
        if not kept:
            rep.ob("unsat", name, ("conditional-clear", w))
            continue
        op = "declare" if w == "equate" else "translate"
        h = [(op, 0, 1, 2), ("query", 0, 1), (op, 0, 1, 3), ("query", 0, 1)]
        rep.ob("sat", name + f": {kept} stays filled", ("conditional-clear", w))
        rep.violation(f"C08:stale-after-redeclaration:{w}", f"history {h}: {w} leaves {kept} filled when the pair was "
                      f"declared before; the corrected declaration is not used by the next conversion",
                      replay(h), soft=True)
    construction_order(rep, tier)
    # memoised functions may only conflate calls they cannot tell apart (engine/memokeys.py)
    from engine import memokeys

    memokeys.check(rep, [(CONV, "measured.conversions"), (INIT, "measured")], families.REPLAY_IMPORTS)
    rep.functions.update(["measured.conversions.equate", "measured.conversions.translate",
                          "measured.conversions.convert", "measured.conversions._plan_conversion",
                          "measured.conversions._find_path", "measured.conversions._inline_paths"])
    rep.coverage.update(states=max(states, 1), transitions=max(transitions, 1),
                        traces_validated_against_impl=validated + replayed, selftest_cases=selftest_cases)
    rep.coverage["extracted_cache_machine"] = mc
    rep.coverage["bounds"] = (f"(units N, history length L) in {bounds}; operations declare(i,j,ratio in "
                              "{2,3}) and query(i,j), all symbolic; queries model in_unit on named units "
                              "of one dimension")
    rep.coverage["explanation"] = (
        "The cache machine (which lru_cache'd functions read _ratios/_offsets, which caches every "
        "writer clears, that exceptions are not cached but empty paths are) is read from the AST on "
        "every run; z3 searches all histories within the bound for a query answering differently "
        "from the same declarations on empty caches; the abstraction 'empty caches = shortest "
        "declared path' is validated against the real in_unit on every declaration graph over 3 "
        "units; a history found is replayed in two fresh subprocesses.")
    rep.assumptions += ["lru_cache caches return values, not exceptions (documented contract)",
                        "queries on named single-factor units; the planner's compound-unit logic is abstracted to path search"]
    return rep.finish()
