"""C05 -- conversion is an invertible linear scaling, independent of the route (E1).

Symbolic: magnitude m and scale factor k (int / float / Decimal kinds).  Real code:
Quantity.in_unit / conversions.convert (planner concrete), composed by really calling
in_unit twice / three times on the proxy.
"""

from __future__ import annotations

import itertools
import random
from fractions import Fraction
from typing import Any, Dict, List, Optional, Tuple

import z3

from engine import convterm, families, par, report, symnum, work
from engine.symnum import explore, mk, real, var
from props import conv_common as cc

PID = "C05"


def chain_term(units: List[Any], kind: str, scale: bool = False) -> Tuple[str, Any, Any, int]:
    """Run (m*u0).in_unit(u1).in_unit(u2)... on a proxy; returns (outcome, term, unit, paths).
    With scale=True the input magnitude is k*m for a second symbolic k."""
    mv, kv = var(kind, "m"), var(kind, "k")

    def fn() -> Any:
        from measured import Quantity

        mag = mk(kind, mv)
        if scale:
            mag = mk(kind, kv) * mag
        q = Quantity(mag, units[0])
        for u in units[1:]:
            q = q.in_unit(u)
        return q

    ex = explore(fn, max_paths=8)
    if len(ex.paths) != 1:
        raise symnum.HarnessError("conversion control flow depends on the magnitude")
    p = ex.paths[0]
    if p.exc is not None:
        return type(p.exc).__name__, None, None, 1
    mag = p.result.magnitude
    t = real(mag.t) if symnum.is_sym(mag) else symnum.q(mag)
    return "ok", t, p.result.unit, 1


MAGS = {"float": "(7.5, -3.0, 1.0, 0.0, 123456.0)", "int": "(7, -3, 1, 0, 123456)",
        "dec": "(Decimal('7.5'), Decimal('-3'), Decimal('1'), Decimal('0'), Decimal('123456'))"}


def replay(kindname: str, codes: List[str], tol: float, prelude: str = "", kind: str = "float",
           witness: str = "") -> str:
    us = ", ".join(codes)
    mags = MAGS[kind] if not witness else "(" + witness + ", " + MAGS[kind][1:]
    return (families.REPLAY_IMPORTS + "from decimal import Decimal\n" + prelude + f"""
units = [{us}]
NotFound = measured.conversions.ConversionNotFound
def conv(m, path):
    q = m * path[0]
    for u in path[1:]:
        q = q.in_unit(u)
    return float(q.magnitude)
bad = []
try:
    for m in {mags}:      # the solver's witness first, then fixed magnitudes of the numeric type the obligation failed for
        mf = float(m)
        if {kindname!r} == 'roundtrip':
            r = conv(m, [units[0], units[1], units[0]])
            if abs(r - mf) > {tol!r} * abs(mf): bad.append(('roundtrip', m, r))
        elif {kindname!r} == 'self':
            r = conv(m, [units[0], units[0]])
            if abs(r - mf) > 1e-12 * abs(mf): bad.append(('self', m, r))
        elif {kindname!r} == 'triangle':
            r1, r2 = conv(m, units), conv(m, [units[0], units[-1]])
            if abs(r1 - r2) > {tol!r} * abs(r2): bad.append(('triangle', m, r1, r2))
        else:
            r = conv(m, units[:2]); r0 = conv(m * 0, units[:2]); r2 = conv(5 * m / 2 if not isinstance(m, int) else 5 * m, units[:2]) / (1 if not isinstance(m, int) else 2)
            if r0 != 0 or (m > 0) != (r > 0) and m != 0 or abs(r2 - 2.5 * r) > 1e-9 * abs(r2) + 1e-300:
                bad.append(('linear', m, r, r0, r2))
except NotFound:
    print('conversion not found: vacuous'); sys.exit(0)
if bad:
    print('REPRODUCED:', bad); sys.exit(1)
sys.exit(0)
""")


def check_pair(acc: work.Acc, u: Any, v: Any, kind: str, tol: float, label: str,
               codes: List[str], prelude: str = "", linear_by_run: bool = False, collect: bool = False) -> None:
    m, k = real(var(kind, "m")), real(var(kind, "k"))
    key = (label, kind)
    o_uv, t_uv, un, _ = chain_term([u, v], kind)
    acc.out["paths"] += 1
    if o_uv != "ok":
        acc.count("vacuous_conversion_failed")
        return
    P = acc.P

    def ask(goal: z3.BoolRef, name: str, what: str, rk: str, cs: List[str]) -> None:
        r, mdl = P.check(z3.Not(goal))
        if r == "unsat":
            acc.ob("unsat", f"{label}/{kind}:{name}", key)
        elif r == "unknown":
            acc.ob("unknown", f"{label}/{kind}:{name}", key)
        else:
            acc.ob("sat", f"{label}/{kind}:{name}", key)
            wit = ""
            if mdl is not None:
                try:
                    wit = work.lit(kind, symnum.model_value(mdl, var(kind, "m")))
                except Exception:
                    wit = ""
            # int / Decimal witnesses meet Decimal-context and big-int effects the real-arithmetic model
            # does not have: they are candidates, confirmed by the replay or reported inconclusive
            acc.out["viol"].append((f"C05:{name}:{label}", f"{what} for {label}" + (f" at m = {wit}" if wit else ""),
                                    replay(rk, cs, max(tol, 1e-9), prelude, kind, wit)) +
                                   (("soft",) if kind != "float" else ()))

    zero = z3.substitute(t_uv, (var(kind, "m"), z3.IntVal(0) if kind == "int" else z3.RealVal(0)))
    if collect and kind == "float":
        one = z3.simplify(z3.substitute(t_uv, (var(kind, "m"), z3.RealVal(1))))
        if z3.is_rational_value(one) or z3.is_int_value(one):
            kf = Fraction(one.numerator_as_long(), one.denominator_as_long()) if z3.is_rational_value(one) \
                else Fraction(one.as_long())
            if kf != 0:
                acc.out.setdefault("coeffs", []).append((str(u.dimension), families.show(u), families.show(v),
                                                         codes[0], codes[1], kf.numerator, kf.denominator, tol))
    ask(zero == 0, "zero-to-zero", "conv(0) != 0", "linear", codes)
    ask(z3.And(z3.Implies(m > 0, t_uv > 0), z3.Implies(m < 0, t_uv < 0)), "sign-preserved",
        "sign not preserved", "linear", codes)
    if linear_by_run:
        o2, t_k, _, _ = chain_term([u, v], kind, scale=True)
        acc.out["paths"] += 1
        if o2 == "ok":
            ask(t_k == k * t_uv, "homogeneous(k*m)-by-run", "conv(k*q) != k*conv(q)", "linear", codes)
    else:
        # homogeneity from the affine term: t(k*m) == k*t(m) for all k, m
        t_km = z3.substitute(t_uv, (var(kind, "m"), var(kind, "k") * var(kind, "m")))
        ask(real(t_km) == k * t_uv, "homogeneous(k*m)", "conv(k*q) != k*conv(q)", "linear", codes)
    if un is not v:
        acc.ob("sat", f"{label}/{kind}:unit", key)
        acc.out["viol"].append((f"C05:unit:{label}", "result not in the requested unit",
                                replay("linear", codes, tol, prelude, kind)))
    # round trip through the real code
    o_rt, t_rt, _, _ = chain_term([u, v, u], kind)
    acc.out["paths"] += 1
    if o_rt == "ok":
        absm = z3.If(m >= 0, m, -m)
        ask(z3.And(t_rt - m <= symnum.q(Fraction(tol)) * absm,
                   m - t_rt <= symnum.q(Fraction(tol)) * absm),
            "round-trip", "there-and-back is not the identity", "roundtrip", codes)
    else:
        acc.count("vacuous_roundtrip_failed")


def check_self(acc: work.Acc, u: Any, kind: str, label: str, code: str, prelude: str = "") -> None:
    o, t, un, _ = chain_term([u, u], kind)
    acc.out["paths"] += 1
    if o != "ok":
        acc.ob("sat", f"{label}/{kind}:self-conversion-raises", (label, kind))
        acc.out["viol"].append((f"C05:self:{label}", f"converting {label} to itself raises {o}",
                                replay("self", [code], 0.0, prelude, kind)))
        return
    # exact for unprefixed units; a prefixed unit goes through `m * 10**k * (1 / 10**k)` whose
    # float constants are not exact reciprocals: allow that rounding (1e-12 relative)
    m = real(var(kind, "m"))
    am = z3.If(m >= 0, m, -m)
    eps = symnum.q(Fraction(1, 10 ** 12)) if u.prefix.base != 0 else 0
    r, _ = acc.P.check(z3.Not(z3.And(t - m <= eps * am, m - t <= eps * am)))
    acc.ob("unsat" if r == "unsat" else ("unknown" if r == "unknown" else "sat"),
           f"{label}/{kind}:self-identity", (label, kind))
    if r == "sat":
        acc.out["viol"].append((f"C05:self:{label}", f"{label} -> itself changes the magnitude",
                                replay("self", [code], 0.0, prelude, kind)))


def check_triple(acc: work.Acc, u: Any, v: Any, w: Any, kind: str, tol: float, label: str,
                 codes: List[str], prelude: str = "") -> None:
    o1, t1, _, _ = chain_term([u, v, w], kind)
    o2, t2, _, _ = chain_term([u, w], kind)
    acc.out["paths"] += 2
    if o1 != "ok" or o2 != "ok":
        acc.count("vacuous_triple")
        return
    a2 = z3.If(t2 >= 0, t2, -t2)
    goal = z3.And(t1 - t2 <= symnum.q(Fraction(tol)) * a2, t2 - t1 <= symnum.q(Fraction(tol)) * a2)
    r, _ = acc.P.check(z3.Not(goal))
    key = (label, kind)
    if r == "unsat":
        acc.ob("unsat", f"{label}/{kind}:route-independent", key)
    elif r == "unknown":
        acc.ob("unknown", f"{label}/{kind}:route-independent", key)
    else:
        acc.ob("sat", f"{label}/{kind}:route-independent", key)
        acc.out["viol"].append((f"C05:route:{label}", f"via-intermediate differs from direct for {label}",
                                replay("triangle", codes, max(tol, 1e-9), prelude, kind)))


def ambiguous(orc: Any, *units: Any) -> bool:
    """True when C09's inconsistent declarations make the size of a unit route dependent."""
    for a, b in itertools.combinations(units, 2):
        rs = orc.ratios(a, b)
        if len({r for r, _, _ in rs}) > 1:
            vals = [r for r, _, _ in rs]
            if max(vals) - min(vals) > 1e-9 * abs(max(vals)):
                return True
    return False


REDECLARED_SRC = '''
from measured import Length
Ra, Rb, Rc = (Length.unit(f"c05 redeclared {i}", f"c05r{i}") for i in "abc")
Ra.equals(2 * Rb)
Rb.equals(8 * Rc)
_ = (1 * Ra).in_unit(Rb), (1 * Rb).in_unit(Ra), (1 * Ra).in_unit(Rc)     # conversions made under the first declaration
Ra.equals(4 * Rb)                                                          # the declaration is corrected
'''


def worker(task: Tuple) -> Dict[str, Any]:
    mode, items = task
    acc = work.Acc()
    if mode == "redeclared":
        # a pair declared, used, and declared again with another ratio: afterwards conversion must be the
        # invertible, route-independent scaling of the declarations as they now stand
        import measured  # noqa

        env: Dict[str, Any] = {}
        exec(REDECLARED_SRC, env)
        with symnum.Shims():
            for item in items:
                us = [env[n] for n in item]
                lab = "redeclared:" + "->".join(item)
                for kind in ("float", "dec"):
                    if len(us) == 2:
                        check_pair(acc, us[0], us[1], kind, 1e-12, lab, list(item), REDECLARED_SRC)
                    else:
                        check_triple(acc, us[0], us[1], us[2], kind, 1e-12, lab, list(item), REDECLARED_SRC)
        acc.sample({"family": "redeclared", "item": items[0]})
        return acc.finish()
    if mode == "synthetic":
        import measured  # noqa
        from engine import oracle as om

        rec = om.Recorder()
        rec.install()
        ns = cc.synthetic_namespace()
        env = {k: v for k, v in ns.items() if not k.startswith("__")}
        with symnum.Shims():
            for item in items:
                us = [eval(s, {}, env) for s in item]
                lab = "synthetic:" + "->".join(item)
                for kind in ("float", "int", "dec"):
                    if len(us) == 2:
                        check_pair(acc, us[0], us[1], kind, 1e-12, lab, list(item),
                                   cc.SYNTHETIC_SRC, linear_by_run=(kind == "float"))
                        check_self(acc, us[0], kind, "synthetic:" + item[0], item[0],
                                   cc.SYNTHETIC_SRC)
                    else:
                        check_triple(acc, us[0], us[1], us[2], kind, 1e-12, lab, list(item),
                                     cc.SYNTHETIC_SRC)
        acc.sample({"family": "synthetic", "item": items[0]})
        return acc.finish()
    families.boot()
    orc = cc.oracle_with_readings()
    with symnum.Shims():
        for i, (specs, kind) in enumerate(items):
            us = [families.unit_of(s) for s in specs]
            lab = "->".join(families.show(u) for u in us)
            codes = [families.code(u) for u in us]
            tol = 1e-5 * orc.degree(*us[:2])
            named_pair = len(us) == 2 and all(len(u.factors) == 1 and u.name and u.prefix.base == 0 for u in us)
            if len(us) > 1 and ambiguous(orc, *us) and not named_pair:
                acc.count("ambiguous_by_C09")
                continue
            if len(us) == 1:
                check_self(acc, us[0], kind, families.show(us[0]), codes[0])
            elif len(us) == 2:
                check_pair(acc, us[0], us[1], kind, tol, lab, codes, linear_by_run=(i % 16 == 0),
                           collect=named_pair)
            else:
                check_triple(acc, us[0], us[1], us[2], kind, 1e-5 * orc.degree(*us), lab, codes)
            if i == 0:
                acc.sample({"family": mode, "item": lab, "kind": kind})
    return acc.finish()


def triples(limit_per_dim: int, seed: int) -> List[Tuple]:
    units = families.offset_free(families.named_units())
    out: List[Tuple] = []
    rnd = random.Random(seed)
    for dim, us in families.by_dimension(units).items():
        if len(us) < 3:
            continue
        allt = list(itertools.permutations(us, 3)) if len(us) <= 12 else None
        if allt is None:
            allt = [tuple(rnd.sample(us, 3)) for _ in range(limit_per_dim * 2)]
        rnd.shuffle(allt)
        for t in allt[:limit_per_dim]:
            out.append(tuple(families.spec_of(u) for u in t))
    return out


def tasks_for(tier: str, seed: int = 0) -> List[Tuple]:
    families.boot()
    named = cc.named_pair_specs()
    kinds = ["float"] if tier == "quick" else ["float", "int", "dec"]
    items: List[Tuple] = [((s, d), k) for (s, d) in named for k in kinds]
    comp = cc.compound_pair_specs(2 if tier == "quick" else 3, core_only=True,
                                  limit=600 if tier == "quick" else 4000, seed=1)
    comp = comp + cc.power_pair_specs((2, 3, -2) if tier == "thorough" else (2,), 0 if tier == "thorough" else 12)
    items += [((s, d), "float") for (s, d) in comp]
    if tier == "quick":
        items += [((s, d), k) for (s, d) in named[::7] for k in ("int", "dec")]
    selfs = {s for (s, d) in named} | {s for (s, d) in comp}
    items += [((s,), k) for s in sorted(selfs, key=repr) for k in kinds]
    tr = triples(40 if tier == "quick" else 400, 1)
    items += [(t, "float") for t in tr]
    return [("shipped", ch) for ch in par.chunks(families.shuffled(items, seed), 32)]


SYN_TRIPLES = [("La", "Lb", "Lc"), ("Lc", "Ld", "La"), ("La**2", "Aa", "Ab"), ("Lb**3", "Va", "Vb"),
               ("Sa", "Lb/Tb", "Sb"), ("Fo", "Fp", "Mb*Lb/Tb**2"), ("Pr", "Fo/Lb**2", "Ps"),
               ("En", "Fp*Lb", "Mb*Lb**2/Tb**2"), ("Ki*La", "Lb", "Lc"), ("Aa**-1", "La**-2", "Lb**-2")]


def route_matrix(rep: report.Report, coeffs: List[Tuple]) -> None:
    """Route independence over ALL triples of shipped named units: the factors k_ab come from the
    symbolic runs of the real in_unit (result = k_ab * m for every m); per ordered pair (a, c) one
    query asks for a magnitude m and an intermediate b with |k_ab k_bc m - k_ac m| > tol |k_ac m|."""
    import time as _time

    groups: Dict[str, Dict[Tuple[str, str], Tuple]] = {}
    for c in coeffs:
        groups.setdefault(c[0], {})[(c[1], c[2])] = c
    x = z3.Real("route_m")
    absx = lambda e: z3.If(e >= 0, e, -e)
    for dim, K in sorted(groups.items()):
        units = sorted({a for a, _ in K} | {b for _, b in K})
        if len(units) < 3:
            continue
        S = z3.Solver()
        S.set("timeout", 20000)
        bad: List[Tuple[str, str, str]] = []
        nq = 0
        t0 = _time.time()
        for a in units:
            for c in units:
                if a == c or (a, c) not in K:
                    continue
                kac = Fraction(K[(a, c)][5], K[(a, c)][6])
                tol = Fraction(K[(a, c)][7])
                dis = []
                via = []
                for b in units:
                    if b in (a, c) or (a, b) not in K or (b, c) not in K:
                        continue
                    kabc = Fraction(K[(a, b)][5], K[(a, b)][6]) * Fraction(K[(b, c)][5], K[(b, c)][6])
                    # |k_ab k_bc m - k_ac m| > tol |k_ac m|  <=>  (|k_ab k_bc - k_ac| - tol |k_ac|) |m| > 0
                    dis.append(symnum.q(abs(kabc - kac) - tol * abs(kac)) * x > 0)
                    via.append((b, kabc))
                if not dis:
                    continue
                nq += 1
                r = str(S.check(x > 0, z3.Or(*dis)))      # x stands for |m|, m != 0
                if r == "sat":
                    bad += [(a, b, c) for b, kabc in via if abs(kabc - kac) > tol * abs(kac)]
                elif r != "unsat":
                    rep.ob("unknown", f"routes {a}->*->{c}", ("routes", dim, a, c))
        rep.merge_stats(queries=nq, solver_s=_time.time() - t0)
        name = f"route independence over all triples of the {len(units)} named units of {dim} ({nq} queries)"
        if not bad:
            rep.ob("unsat", name, ("routes", dim))
            continue
        rep.ob("sat", name + f": {len(bad)} triples differ", ("routes", dim))
        common = set(units)
        for t in bad:
            common &= set(t)
        a, b, c = bad[0]
        sig = f"C05:routes:{dim}:" + ("|".join(sorted(common)) if common else ",".join(bad[0]))
        rep.violation(sig, f"{len(bad)} triples of named units of {dim} convert differently via the intermediate "
                           f"than directly, e.g. {a}->{b}->{c}: {float(Fraction(K[(a, b)][5], K[(a, b)][6]) * Fraction(K[(b, c)][5], K[(b, c)][6]))!r} "
                           f"against {float(Fraction(K[(a, c)][5], K[(a, c)][6]))!r}; units in every such triple: {sorted(common)}",
                      replay("triangle", [K[(a, b)][3], K[(a, b)][4], K[(b, c)][4]], max(float(K[(a, c)][7]), 1e-9)))


def main(tier: str, selftest_cases: int = 0) -> int:
    rep = report.Report(PID, tier, "other")
    tasks = tasks_for(tier, rep.seed)
    results = par.run("props.c05", "worker", tasks)
    syn = [tuple(p) for p in cc.SYNTHETIC_PAIRS] + SYN_TRIPLES
    results += par.run("props.c05", "worker", [("synthetic", ch) for ch in par.chunks(syn, 4)],
                       maxtasksperchild=1)
    results += par.run("props.c05", "worker",
                       [("redeclared", [("Ra", "Rb"), ("Rb", "Ra"), ("Ra", "Rb", "Rc"), ("Rc", "Rb", "Ra")])],
                       maxtasksperchild=1)
    work.merge(rep, results)
    route_matrix(rep, [c for r in results for c in r.get("coeffs", [])])
    rep.functions.update(cc.FUNCTIONS)
    rep.coverage["items_shipped"] = sum(len(t[1]) for t in tasks)
    rep.coverage["items_synthetic"] = len(syn) * 3
    rep.coverage["selftest_cases"] = selftest_cases
    rep.coverage["bounds"] = (
        "symbolic: magnitude m and scale k (all reals/ints). Enumerated: all ordered named "
        "offset-free pairs of equal dimension, a fixed compound family, a fixed family of triples "
        "per dimension (all triples for dimensions with <= 12 units, bounded otherwise), synthetic "
        "exact system pairs/triples; int/Decimal kinds on a subset in quick, all in thorough.")
    rep.coverage["explanation"] = (
        "The real in_unit is called once, twice or three times in a row on a solver-backed "
        "magnitude; z3 decides for all m (and k): conv(0)=0, sign preserved, conv(k*m)=k*conv(m), "
        "u->u identity (exact), there-and-back within tolerance, via-intermediate == direct within "
        "tolerance; each only when every conversion involved returned.")
    rep.assumptions += [
        "exact real arithmetic over the binary constants in _ratios",
        "tolerance 1e-5 per exponent degree on shipped definitions, 1e-12 on the synthetic system",
        "units whose size is route dependent because of a C09 inconsistency are skipped (counted)",
    ]
    return rep.finish()
