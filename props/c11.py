"""C11 -- a prefixed unit means exactly prefix factor times unit (E2 keys + E1 values).

Key level: real Prefix.__mul__/__truediv__/__pow__/root and Unit._multiply/_divide/__pow__/root
on shadow operands with unbounded symbolic prefix exponents, unit exponents, powers, degrees.
Value level: real Quantity.unprefixed / in_unit / ** / / / == on a symbolic magnitude for every
registered SI and IEC prefix and their products, quotients, powers and roots.
"""

from __future__ import annotations

import itertools
from fractions import Fraction
from typing import Any, Dict, List, Optional, Tuple

import z3

from engine import families, internmodel as im, par, report, symnum, work
from engine.symnum import SInt, bool_term, explore, mk, real, term, var
from props import c02

PID = "C11"
N = 0
M = z3.Real("m")

KEY_LAWS = {
    "power-distributes": ("(p * x)**n", "p**n * x**n", ""),
    "prefix-on-product": ("p * (x * y)", "(p * x) * y", ""),
    "prefixes-multiply": ("p * (q * x)", "(p * q) * x", ""),
    "identity-neutral-left": ("I * x", "x", ""),
    "divide-by-prefixed": ("x / (p * y)", "p**-1 * (x / y)", ""),
    "prefixed-over-prefixed": ("(p * x) / (q * y)", "(p / q) * (x / y)", ""),
    "root-inverts-power": ("((p * x)**n).root(n)", "p * x", "n != 0"),
    "prefix-cancels": ("(p * x) / (p * x)", "One", ""),
    "prefix-inverse": ("(p * x) * (p**-1 * y)", "x * y", ""),
    "prefixed-one-root": ("((p * One)**n).root(n)", "p * One", "n != 0"),
    "prefixed-one-power": ("(p * One)**n", "p**n * One", ""),
    "dimensionless-quotient-keeps-prefix": ("((p * x) / x).root(1)", "p * One", ""),
    # both operands carry the very same prefix object (prefixes are interned: code may test `is`)
    "same-prefix-product": ("(p * x) * (p * y)", "(p * p) * (x * y)", ""),
    "same-prefix-square": ("(p * x) * (p * x)", "(p * x)**2", ""),
    "same-prefix-quotient": ("(p * x) / (p * y)", "x / y", ""),
    # the prefix written on the right of a unit that may carry one already
    "prefix-on-the-right": ("(q * x) * p", "(q * p) * x", ""),
    "prefix-either-side": ("x * p", "p * x", ""),
    "identity-neutral-right": ("(q * x) * I", "q * x", ""),
}
CORE = ["measured.si.Meter", "measured.si.Second", "measured.si.Gram", "measured.iec.Bit",
        "measured.iec.Byte", "measured.si.Watt", "measured.us.Foot", "measured.si.Hertz",
        "(measured.si.Meter / measured.si.Second)", "(measured.si.Meter ** 2)",
        "(measured.si.Kilogram * measured.si.Meter / measured.si.Second ** 2)",
        "(measured.iec.Bit / measured.si.Second)", "(measured.si.Meter ** -1)",
        "(measured.us.Foot * measured.avoirdupois.Pound)"]


def ns() -> Dict[str, Any]:
    import measured
    import measured.systems  # noqa

    return {"measured": measured}


# ------------------------------------------------------------------------------------
# key level


def key_worker(task: Tuple) -> Dict[str, Any]:
    global N
    families.boot()
    import measured
    from measured import One

    N = im.ndim()
    c02.N = N
    _, lawname, bases, pb = task
    law = KEY_LAWS[lawname]
    acc = work.Acc(30000)

    def fn() -> Any:
        bs = [measured.Unit._by_name[nm] for nm in bases]

        def opnd(tag: str, idx: List[int], pbase: int) -> Any:
            fs = {bs[i]: SInt(z3.Int(f"{tag}_e{i}")) for i in idx}
            dim = im.shadow_dimension([SInt(z3.simplify(t)) for t in im.dim_of_factors(fs, N)])
            pre = im.shadow_prefix(pbase, SInt(z3.Int(f"{tag}_p"))) if pbase else measured.IdentityPrefix
            return im.shadow_unit(pre, fs, dim)

        env = {"x": opnd("x", [0, 1], pb[0]), "y": opnd("y", [1, 2], pb[1]), "One": One,
               "p": im.shadow_prefix(pb[2], SInt(z3.Int("p_e"))),
               "q": im.shadow_prefix(pb[2], SInt(z3.Int("q_e"))),
               "I": measured.IdentityPrefix, "n": SInt(z3.Int("n"))}
        return eval(law[0], {}, env), eval(law[1], {}, env)

    pre = [z3.Int("p_e") != 0, z3.Int("q_e") != 0]
    for tag, idx, pbase in (("x", [0, 1], pb[0]), ("y", [1, 2], pb[1])):
        pre += [z3.Int(f"{tag}_e{i}") != 0 for i in idx]
        if pbase:
            pre.append(z3.Int(f"{tag}_p") != 0)
    if law[2]:
        pre.append(z3.Int("n") != 0)
    with symnum.Shims(), im.Tables("absent"):
        ex = explore(fn, assumptions=pre, max_paths=3000, query_timeout_ms=20000)
    acc.explored(ex)
    cfg = f"key/{lawname}/{','.join(bases)}/prefix-bases={pb}"
    for i, p in enumerate(ex.paths):
        key = (cfg, i)
        if p.exc is not None:
            if type(p.exc).__name__ == "FractionalDimensionError":
                sm = c02.small_model(p.cond, z3.BoolVal(True))
                acc.ob("sat", f"{cfg}#p{i}:root-rejected", key)
                acc.out["viol"].append((f"C11:key:{lawname}:rejects", f"{cfg}: root rejected at {sm}",
                                        key_replay(lawname, law, bases, pb, sm or {}, True)))
                continue
            raise symnum.HarnessError(f"{cfg}: {p.outcome}: {p.exc}")
        lhs, rhs = p.result
        comparable, cond, why = c02.key_equal(lhs, rhs)
        goal = cond if comparable else z3.BoolVal(False)
        st, _ = acc.P.check(p.cond, z3.Not(goal))
        if st == "unsat":
            acc.ob("unsat", f"{cfg}#p{i}", key)
        elif st == "unknown":
            acc.ob("unknown", f"{cfg}#p{i}", key)
        else:
            sm = c02.small_model(p.cond, z3.Not(goal))
            if sm is None:
                acc.ob("unknown", f"{cfg}#p{i}(no small model)", key)
                continue
            acc.ob("sat", f"{cfg}#p{i}", key)
            # equal intern keys whose stored dimensions differ: on the real table both sides are the object
            # registered first (C01's subject): a candidate only
            dim_only = False
            if comparable and isinstance(lhs, measured.Unit):
                dk = c02.key_equal(lhs.dimension, rhs.dimension)[1]
                dim_only = acc.P.check(p.cond, z3.Not(goal), z3.Not(dk))[0] == "sat" and \
                    acc.P.check(p.cond, z3.Not(goal), dk)[0] == "unsat"
            acc.out["viol"].append((f"C11:key:{lawname}", f"{cfg}: keys differ ({why}) at {sm}",
                                    key_replay(lawname, law, bases, pb, sm, False)) + (("soft",) if dim_only else ()))
    # same-base products / quotients add / subtract exponents exactly
    acc.sample({"config": cfg, "paths": len(ex.paths), "law": f"{law[0]}  is  {law[1]}"})
    return acc.finish()


def key_replay(lawname: str, law: Tuple, bases: List[str], pb: Tuple, m: Dict[str, int],
               rejected: bool) -> str:
    g = lambda k, d=1: m.get(k, d)

    def opnd(tag: str, idx: List[int], pbase: int) -> str:
        e = " * ".join(f"measured.Unit.named({bases[i]!r})**{g(f'{tag}_e{i}')}" for i in idx)
        return f"(measured.Prefix({pbase}, {g(tag + '_p')}) * ({e}))" if pbase else f"({e})"

    return families.REPLAY_IMPORTS + f"""
x, y, One, I = {opnd('x', [0, 1], pb[0])}, {opnd('y', [1, 2], pb[1])}, measured.One, measured.IdentityPrefix
p, q, n = measured.Prefix({pb[2]}, {g('p_e')}), measured.Prefix({pb[2]}, {g('q_e')}), {g('n')}
try:
    lhs = {law[0]}
    rhs = {law[1]}
except measured.FractionalDimensionError as e:
    print('REPRODUCED: rejected as fractional', e); sys.exit(1)
print({lawname!r}, repr(lhs), repr(rhs), lhs is rhs)
if lhs is not rhs:
    print('REPRODUCED: different objects'); sys.exit(1)
sys.exit(0)
"""


def exponent_worker(task: Tuple) -> Dict[str, Any]:
    """(p*q).exponent == p.exponent + q.exponent etc., read directly off the result."""
    families.boot()
    import measured

    acc = work.Acc()
    base = task[1]
    P_E, Q_E, NN = z3.Int("p_e"), z3.Int("q_e"), z3.Int("n")

    def fn() -> Any:
        p, q = im.shadow_prefix(base, SInt(P_E)), im.shadow_prefix(base, SInt(Q_E))
        n = SInt(NN)
        I = measured.IdentityPrefix
        return {"mul": p * q, "div": p / q, "pow": p ** n, "imul": I * p, "muli": p * I,
                "idiv": I / p}

    with symnum.Shims(), im.Tables("absent"):
        ex = explore(fn, assumptions=[P_E != 0, Q_E != 0], max_paths=500)
    acc.explored(ex)
    want = {"mul": P_E + Q_E, "div": P_E - Q_E, "pow": P_E * NN, "imul": P_E, "muli": P_E, "idiv": -P_E}
    for i, p in enumerate(ex.paths):
        if p.exc is not None:
            raise symnum.HarnessError(f"prefix exponent arithmetic raised {p.outcome}")
        for k, r in p.result.items():
            if r.base == 0:
                goal = want[k] == 0
            else:
                goal = z3.And(z3.BoolVal(r.base == base), term(r.exponent) == want[k],
                              z3.BoolVal(symnum.kind_of(r.exponent) == "int"))
            st, mdl = acc.P.check(p.cond, z3.Not(goal))
            acc.ob("unsat" if st == "unsat" else ("unknown" if st == "unknown" else "sat"),
                   f"exponent/{k}/base={base}#p{i}", ("exp", k, base, i))
            if st == "sat":
                sm = c02.small_model(p.cond, z3.Not(goal)) or {}
                acc.out["viol"].append((f"C11:exponent:{k}", f"prefix {k}: wrong exponent at {sm}",
                                        families.REPLAY_IMPORTS + f"""
p, q, n, I = measured.Prefix({base}, {sm.get('p_e', 1)}), measured.Prefix({base}, {sm.get('q_e', 1)}), {sm.get('n', 1)}, measured.IdentityPrefix
r = dict(mul=lambda: p * q, div=lambda: p / q, pow=lambda: p ** n, imul=lambda: I * p, muli=lambda: p * I, idiv=lambda: I / p)[{k!r}]()
want = dict(mul=p.exponent + q.exponent, div=p.exponent - q.exponent, pow=p.exponent * n, imul=p.exponent, muli=p.exponent, idiv=-p.exponent)[{k!r}]
print(p, q, n, '->', repr(r), 'expected exponent', want)
if (r.exponent if r.base else 0) != want or type(r.exponent) is not int:
    print('REPRODUCED: same-base prefix arithmetic is not exact exponent arithmetic'); sys.exit(1)
sys.exit(0)
"""))
    acc.sample({"config": f"exponent arithmetic base {base}", "paths": len(ex.paths)})
    return acc.finish()


# ------------------------------------------------------------------------------------
# value level


def prefix_exprs(tier: str) -> List[str]:
    import measured

    si = [f"measured.si.{p.name.capitalize()}" for p in families.si_prefixes()]
    iec = [f"measured.iec.{p.name.capitalize()}" for p in families.iec_prefixes()]
    n_ = ns()
    si = [c for c in si if _ok(c, n_)]
    iec = [c for c in iec if _ok(c, n_)]
    out = list(si) + list(iec)
    some = si[::3] + iec[::3]
    for a, b in itertools.product(some, some[:4]):
        out.append(f"({a} * {b})")
        out.append(f"({a} / {b})")
    for a in some:
        for n in (-4, -2, 2, 3, 4):
            out.append(f"({a} ** {n})")
        out.append(f"(({a} ** 2).root(2))")
        out.append(f"(({a} ** 3).root(-3))")
    if tier == "quick":
        out = out[::2]
    return out


def _ok(code: str, n_: Dict[str, Any]) -> bool:
    try:
        eval(code, n_)
        return True
    except Exception:
        return False


def prefix_value(p: Any) -> Tuple[Fraction, bool]:
    if p.base == 0:
        return Fraction(1), True
    if isinstance(p.exponent, int):
        return Fraction(p.base) ** p.exponent, True
    return Fraction(float(p.base) ** float(p.exponent)), False


def value_worker(task: Tuple) -> Dict[str, Any]:
    families.boot()
    n_ = ns()
    import measured
    from measured import Quantity

    acc = work.Acc()
    absz = lambda e: z3.If(e >= 0, e, -e)
    _, items = task
    with symnum.Shims():
        for (pc, uc, kind) in items:
            p, u = eval(pc, n_), eval(uc, n_)
            pu = p * u
            mv = var(kind, "m")
            m = real(mv)
            v, exact = prefix_value(p)
            vu, exu = prefix_value(u.prefix)
            # the combined prefix is what the library works with: SI x IEC mixes (also through a
            # unit such as byte = 2**3 bit) get a float exponent and hold within 1e-9 only
            exact = exact and exu and isinstance(pu.prefix.exponent, int)
            tol = Fraction(1, 10 ** 12) if exact else Fraction(1, 10 ** 9)
            label = f"{families.show(p) or '1'}*{families.show(u)}/{kind}"
            bare = measured.Unit(measured.IdentityPrefix, u.factors, u.dimension)
            rp = value_replay(pc, uc, v, kind)

            def ask(goal: Any, cond: Any, name: str) -> None:
                st, _ = acc.P.check(cond, z3.Not(goal))
                acc.ob("unsat" if st == "unsat" else ("unknown" if st == "unknown" else "sat"),
                       f"{label}:{name}", (label, name))
                if st == "sat":
                    # an exception met on a symbolic run may come from the table model (a unit the real table
                    # already holds with its right dimension): confirmed by the replay or inconclusive
                    acc.out["viol"].append((f"C11:value:{name}:{pc}:{uc}", f"{name} fails for {label}", rp) +
                                           (("soft",) if "-raises-" in name else ()))

            def run(fn: Any) -> Any:
                ex = explore(fn, max_paths=16)
                acc.explored(ex)
                return ex

            def close(t: Any, want: Any) -> Any:
                return absz(real(t) - want) <= symnum.q(tol) * absz(want)

            # V1 unprefixed(): value unchanged, no prefix left
            ex = run(lambda: Quantity(mk(kind, mv), pu).unprefixed())
            for pth in ex.paths:
                if pth.exc is not None:
                    ask(z3.BoolVal(False), pth.cond, f"unprefixed-raises-{pth.outcome}")
                    continue
                r = pth.result
                ask(z3.And(close(term(r.magnitude), m * symnum.q(v * vu)),
                           z3.BoolVal(r.unit is bare)), pth.cond, "unprefixed")
            # V2 m*(p*u) == (m*value(p))*u  through the real __eq__ (exact prefixes only)
            if exact and isinstance(p.exponent, int) and p.exponent >= 0 and kind != "dec":
                def f_eq() -> Any:
                    a = Quantity(mk(kind, mv), pu)
                    b = Quantity(mk(kind, mv) * int(v), u)
                    return a == b, b == a
                ex = run(f_eq)
                for pth in ex.paths:
                    if pth.exc is not None:
                        ask(z3.BoolVal(False), pth.cond, f"eq-raises-{pth.outcome}")
                        continue
                    ask(z3.And(bool_term(pth.result[0]), bool_term(pth.result[1])), pth.cond,
                        "m*(p*u) == (m*value(p))*u")
            # V3 conversion to and from the bare unit
            ex = run(lambda: (Quantity(mk(kind, mv), pu).in_unit(u), Quantity(mk(kind, mv), u).in_unit(pu)))
            for pth in ex.paths:
                if pth.exc is not None:
                    ask(z3.BoolVal(False), pth.cond, f"in_unit-raises-{pth.outcome}")
                    continue
                a, b = pth.result
                ask(z3.And(close(term(a.magnitude), m * symnum.q(v)), z3.BoolVal(a.unit is u)),
                    pth.cond, "to-bare-unit")
                ask(z3.And(close(term(b.magnitude), m / symnum.q(v)), z3.BoolVal(b.unit is pu)),
                    pth.cond, "from-bare-unit")
            # V4 powers, V5 dividing by a prefixed unit
            if kind == "float":
                for n in (-4, -1, 2, 3):
                    import math
                    if abs(math.log2(float(v * vu)) * n) > 900:
                        acc.count("skipped_power_outside_double_range")
                        continue
                    ex = run(lambda: (Quantity(mk(kind, mv), pu) ** n).unprefixed())
                    for pth in ex.paths:
                        if pth.exc is not None:
                            st, _ = acc.P.check(pth.cond, m != 0)
                            acc.ob("unsat" if st == "unsat" else "sat", f"{label}:pow{n}-raises-only-at-zero",
                                   (label, "pow", n))
                            continue
                        r = pth.result
                        vv = (v * vu) ** n
                        want = (symnum._ipow(m, n) if n >= 0 else 1 / symnum._ipow(m, -n)) * symnum.q(vv)
                        ask(close(term(r.magnitude), want), pth.cond, f"power-{n}")
                ex = run(lambda: (Quantity(mk(kind, mv), u) / pu).unprefixed())
                for pth in ex.paths:
                    if pth.exc is not None:
                        ask(z3.BoolVal(False), pth.cond, f"div-raises-{pth.outcome}")
                        continue
                    ask(close(term(pth.result.magnitude), m / symnum.q(v)), pth.cond,
                        "dividing-by-prefixed-unit")
            acc.sample({"config": label, "value(p)": str(v)})
    return acc.finish()


def value_replay(pc: str, uc: str, v: Fraction, kind: str = "float") -> str:
    mags = {"float": "(3.0, -2.5, 1.0, 1024.0)", "int": "(3, -2, 1, 1024)",
            "dec": "(Decimal('3'), Decimal('-2.5'), Decimal('1'), Decimal('1024'))"}[kind]
    return families.REPLAY_IMPORTS + f"""import math
from decimal import Decimal
p, u = {pc}, {uc}
v = {float(v)!r}       # base ** exponent
vu = float(u.prefix.base) ** u.prefix.exponent if u.prefix.base else 1.0
pu = p * u
bad = []
def close(x, want):
    return abs(float(x) - want) <= 1e-9 * abs(want)
for M in {mags}:       # magnitudes of the numeric type the obligation failed for
    m = float(M)
    try:
        a = (M * pu).unprefixed()
        if not close(a.magnitude, m * v * vu) or a.unit.prefix.base != 0: bad.append(('unprefixed', m, a))
        b = (M * pu).in_unit(u)
        if not close(b.magnitude, m * v): bad.append(('to-bare', m, b))
        c = (M * u).in_unit(pu)
        if not close(c.magnitude, m / v): bad.append(('from-bare', m, c))
        if float(v).is_integer() and v >= 1 and isinstance(pu.prefix.exponent, int) and not (m * pu == (M * int(v)) * u):
            bad.append(('eq', m))
        for n in (-4, -1, 2, 3):
            if abs(math.log2(v * vu) * n) > 900: continue
            d = ((M * pu) ** n).unprefixed()
            if not close(d.magnitude, m ** n * (v * vu) ** n): bad.append(('pow', n, m, d))
        e = ((M * u) / pu).unprefixed()
        if not close(e.magnitude, m / v): bad.append(('div', m, e))
    except Exception as ex:
        bad.append(('raised', m, type(ex).__name__, str(ex)[:80]))
if bad:
    print('REPRODUCED:', bad[:6]); sys.exit(1)
sys.exit(0)
"""


SCALE_REPLAY = """
from decimal import Decimal
p, q = {pc}, {qc}
S, T = {sc}, {tc}
vp = float(p.base) ** p.exponent if p.base else 1.0
vq = float(q.base) ** q.exponent if q.base else 1.0
bad = []
for m in (3.0, -2.5, 1.0, 0.0, 250.0):
    got = (m * (p * S)).in_unit(q * T)
    want = ((m * vp) * S).in_unit(T).magnitude / vq
    print(m, p * S, '->', got, ' through the unprefixed units:', want)
    if got.unit is not (q * T) or abs(got.magnitude - want) > 1e-9 * (abs(want) + 1):
        bad.append((m, got.magnitude, want))
if bad:
    print('REPRODUCED: a prefixed scale does not mean prefix factor times the scale', bad); sys.exit(1)
sys.exit(0)
"""


def scale_worker(task: Tuple) -> Dict[str, Any]:
    """Prefixed units whose conversion has an offset (temperature scales): m * (p*S) into q*T must be
    (m * value(p)) * S into T, divided by value(q) -- also when p and q are the same prefix object."""
    families.boot()
    n_ = ns()
    import measured
    from measured import Quantity

    acc = work.Acc()
    absz = lambda e: z3.If(e >= 0, e, -e)
    mv = var("float", "m")
    m = real(mv)
    with symnum.Shims():
        for (pc, qc, sc, tc) in task[1]:
            p, q, S, T = (eval(c, n_) for c in (pc, qc, sc, tc))
            vp, vq = prefix_value(p)[0], prefix_value(q)[0]
            label = f"{families.show(p)}{families.show(S)}->{families.show(q)}{families.show(T)}"

            def fn() -> Any:
                return (Quantity(mk("float", mv), p * S).in_unit(q * T),
                        Quantity(mk("float", mv) * float(vp), S).in_unit(T))

            ex = explore(fn, max_paths=8)
            acc.explored(ex)
            for i, pth in enumerate(ex.paths):
                key = (label, i)
                if pth.exc is not None:
                    acc.ob("sat", f"{label}:raises-{pth.outcome}", key)
                    acc.out["viol"].append((f"C11:scale:{label}:raises", f"{label} raises {pth.outcome}",
                                            families.REPLAY_IMPORTS + SCALE_REPLAY.format(pc=pc, qc=qc, sc=sc, tc=tc)))
                    continue
                got, base = pth.result
                want = real(term(base.magnitude)) / symnum.q(vq)
                goal = z3.And(absz(real(term(got.magnitude)) - want) <= symnum.q(Fraction(1, 10 ** 9)) * (absz(want) + 1),
                              z3.BoolVal(got.unit is (q * T)))
                st, _ = acc.P.check(pth.cond, z3.Not(goal))
                acc.ob("unsat" if st == "unsat" else ("unknown" if st == "unknown" else "sat"), f"{label}:prefixed-scale", key)
                if st == "sat":
                    acc.out["viol"].append((f"C11:scale:{label}", f"{label}: m*(p*S) into q*T is not (m*value(p))*S into T "
                                            f"over value(q)", families.REPLAY_IMPORTS + SCALE_REPLAY.format(pc=pc, qc=qc, sc=sc, tc=tc)))
    return acc.finish()


def worker(task: Tuple) -> Dict[str, Any]:
    return {"key": key_worker, "exp": exponent_worker, "value": value_worker, "scale": scale_worker}[task[0]](task)


def tasks_for(tier: str) -> List[Tuple]:
    families.boot()
    tasks: List[Tuple] = []
    sets = c02.BASE_SETS if tier == "thorough" else c02.BASE_SETS[:2]
    for bases in sets:
        for pb in ((10, 10, 10), (0, 10, 10), (10, 0, 10), (2, 2, 2)):
            for lname in KEY_LAWS:
                tasks.append(("key", lname, bases, pb))
        for pb in ((0, 0, 10), (0, 0, 2)):
            for lname in KEY_LAWS:
                if lname.startswith("same-prefix"):
                    tasks.append(("key", lname, bases, pb))
    tasks += [("exp", 10), ("exp", 2)]
    pexprs = prefix_exprs(tier)
    units = CORE if tier == "thorough" else CORE[:10]
    items = [(pc, uc, "float") for pc in pexprs for uc in units]
    items += [(pc, uc, k) for pc in pexprs[::4] for uc in units[::3] for k in ("int", "dec")]
    tasks += [("value", ch) for ch in par.chunks(items, 28)]
    # prefixed temperature scales (conversions with an offset), same and different prefixes
    scales = ["measured.si.Celsius", "measured.si.Kelvin", "measured.us.Fahrenheit", "measured.us.Rankine"]
    prefs = ["measured.si.Kilo", "measured.si.Milli", "measured.iec.Kibi"]
    sitems = [(pc, qc, sc, tc) for sc in scales for tc in scales if sc != tc
              for pc in prefs for qc in prefs if (pc == qc or tier == "thorough" or (pc, qc) == (prefs[0], prefs[1]))]
    tasks += [("scale", ch) for ch in par.chunks(sitems, 8)]
    return tasks


def main(tier: str, selftest_cases: int = 0) -> int:
    rep = report.Report(PID, tier, "other")
    tasks = families.shuffled(tasks_for(tier), rep.seed)
    results = par.run("props.c11", "worker", tasks)
    work.merge(rep, results)
    rep.functions.update(["measured.Prefix.__mul__", "measured.Prefix.__truediv__", "measured.Prefix.__pow__",
                          "measured.Prefix.root", "measured.Prefix.quantify", "measured.Unit._multiply",
                          "measured.Unit._divide", "measured.Unit.__pow__", "measured.Unit.root",
                          "measured.Unit.quantify", "measured.Quantity.unprefixed", "measured.Quantity.in_unit",
                          "measured.Quantity.__pow__", "measured.Quantity.__truediv__", "measured.Quantity.__eq__",
                          "measured.conversions._plan_conversion"])
    rep.coverage["configurations"] = sum(len(t[1]) if t[0] == "value" else 1 for t in tasks)
    rep.coverage["selftest_cases"] = selftest_cases
    rep.coverage["bounds"] = (
        "key level: unbounded symbolic prefix exponents, unit exponents, n, degrees over <= 3 base "
        "units and prefix bases {0,2,10}; value level: symbolic magnitude (int/float/Decimal), all "
        "registered SI and IEC prefixes, products/quotients/powers/roots of a sub-family with "
        "exponents in [-4,4], on 10 (quick) / 14 (thorough) core and compound units.")
    rep.coverage["explanation"] = (
        "Key level: both sides of each identity are evaluated by the real operators on shadow "
        "operands and z3 proves the intern keys equal; same-base prefix products/quotients/powers "
        "are proved to be exact integer exponent arithmetic. Value level: the real unprefixed / "
        "in_unit / ** / / / == run on a symbolic magnitude and z3 decides for all m that the "
        "result equals m times the exact prefix factor (1e-12; 1e-9 for mixed SI/IEC).")
    rep.assumptions += ["value(p) = base**exponent as an exact rational; float rounding of 10**-k outside (1e-12)"]
    return rep.finish()
