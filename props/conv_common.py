"""Shared pieces of the conversion properties (C04, C05, C06, C07, C09, C10)."""

from __future__ import annotations

import itertools
import pickle
import subprocess
import sys
import os
import tempfile
from fractions import Fraction
from typing import Any, Dict, Iterable, List, Optional, Sequence, Tuple

from engine import convterm, families, symnum

FUNCTIONS = [
    "measured.Quantity.in_unit", "measured.conversions.convert",
    "measured.conversions._plan_conversion", "measured.conversions._inline_paths",
    "measured.conversions._replace_factors", "measured.conversions._match_factors",
    "measured.conversions._cancel_factors", "measured.conversions._splat",
    "measured.conversions._find_path", "measured.conversions._find_path_recursive",
    "measured.conversions._reduce_dimension", "measured.Quantity.unprefixed",
    "measured.Unit.quantify", "measured.Prefix.quantify", "measured._mul", "measured._add",
]

# ------------------------------------------------------------------------------------
# synthetic, exactly consistent unit systems (power-of-two ratios: float arithmetic exact)

SYNTHETIC_SRC = '''
import measured
from measured import (Length, Time, Mass, Area, Volume, Speed, Force, Pressure, Frequency,
                      Energy, One, Unit, Prefix)
S = {}
def U(dim, name):
    u = dim.unit(name, name)
    S[name] = u
    return u
# S1: lengths with redundant chains, areas, a volume defined by a product
La = U(Length, "vLa"); Lb = U(Length, "vLb"); Lc = U(Length, "vLc"); Ld = U(Length, "vLd")
Lb.equals(4 * La); Lc.equals(8 * Lb); Lc.equals(32 * La); Ld.equals(0.5 * Lc); Ld.equals(4 * Lb)
Aa = U(Area, "vAa"); Ab = U(Area, "vAb")
Aa.equals(16 * La**2); Ab.equals(2 * Aa); Ab.equals(2 * Lb**2)
Va = U(Volume, "vVa"); Va.equals((1 * La) * (4 * Lb) * (2 * Lc))
Vb = U(Volume, "vVb"); Vb.equals(4 * Va); Vb.equals(64 * Lb**3)
# S2: times, a named speed, a named frequency (inverse unit)
Ta = U(Time, "vTa"); Tb = U(Time, "vTb"); Tb.equals(64 * Ta)
Sa = U(Speed, "vSa"); Sa.equals(2 * La / Ta); Sb = U(Speed, "vSb"); Sb.equals(0.25 * Lb / Tb)
Fa = U(Frequency, "vFa"); Fa.equals(8 * One / Ta)
# S3: mass, force, pressure (derived dimension in a denominator), energy
Ma = U(Mass, "vMa"); Mb = U(Mass, "vMb"); Mb.equals(16 * Ma)
Fo = U(Force, "vFo"); Fo.equals(2 * Ma * La / Ta**2)
Fp = U(Force, "vFp"); Fp.equals(8 * Fo); Fp.equals(0.25 * Mb * Lb / Ta**2)
Pr = U(Pressure, "vPr"); Pr.equals(4 * Fo / La**2)
Ps = U(Pressure, "vPs"); Ps.equals(0.5 * Pr)
En = U(Energy, "vEn"); En.equals(2 * Fo * La)
Ki = Prefix(2, 10); Mi2 = Prefix(2, 20); Hf = Prefix(2, -1)
# S4: equivalences written with a left-hand magnitude other than one, or a prefixed left-hand unit
from measured import conversions
Le = U(Length, "vLe"); conversions.equate(2 * Le, 16 * La)
Lf = U(Length, "vLf"); (Ki * Lf).equals(4 * La)
Mc = U(Mass, "vMc"); conversions.equate(4 * Mc, 2 * Mb)
Tc = U(Time, "vTc"); conversions.equate(0.5 * (Hf * Tc), 8 * Ta)
'''

SYNTHETIC_PAIRS = [
    ("La", "Lc"), ("Lc", "La"), ("Lb", "Ld"), ("Ld", "La"), ("La**2", "Aa"), ("Aa", "La**2"),
    ("Ab", "Lb**2"), ("Lc**2", "Ab"), ("Aa", "Ab"), ("Lb**3", "Va"), ("Va", "La**3"),
    ("Vb", "Va"), ("Va", "Vb"), ("Vb", "Lc**3"), ("La*Lb", "Aa"), ("La*Lb*Lc", "Vb"),
    ("Tb", "Ta"), ("Sa", "Lb/Tb"), ("Lc/Ta", "Sa"), ("Sa", "Sb"), ("Sb", "La/Ta"),
    ("Fa", "One/Tb"), ("One/Ta", "Fa"), ("Ta**-1", "Tb**-1"), ("Mb", "Ma"),
    ("Fo", "Mb*Lb/Tb**2"), ("Ma*La/Ta**2", "Fp"), ("Fp", "Fo"), ("Pr", "Fo/Lb**2"),
    ("Fp/La**2", "Ps"), ("Pr", "Ps"), ("Ps", "Ma/(La*Ta**2)"), ("En", "Fp*Lb"),
    ("Fo*La", "En"), ("En", "Mb*Lb**2/Tb**2"), ("En/Ta", "Fo*Sa"), ("Ki*La", "Lb"),
    ("Lc", "Ki*La"), ("(Ki*La)**2", "Aa"), ("Mi2*Aa", "(Ki*Lc)**2"), ("Hf*Ta", "Tb"),
    ("Sa/Ta", "Lb/Tb**2"), ("Ma*Sa", "Mb*Sb"), ("La**-2", "Aa**-1"), ("Aa**-1", "Lb**-2"),
    ("Pr*Aa", "Fo"), ("En/Va", "Pr"), ("Lb**2/Tb", "Aa/Ta"), ("Va/Ta", "Lb**3/Tb"),
    ("Le", "La"), ("La", "Le"), ("Lf", "La"), ("La", "Lf"), ("Le", "Lf"), ("Lb", "Le"), ("Le**2", "Aa"),
    ("Mc", "Ma"), ("Ma", "Mc"), ("Mc*Le", "Mb*La"), ("Tc", "Ta"), ("Tb", "Tc"), ("Le/Tc", "Sa"),
]

# exact size of each synthetic unit relative to (La, Ta, Ma), written by hand from the
# definitions above -- the oracle for family (iii), independent of the recorder
SYNTHETIC_SIZES = {
    "La": (1, (1, 0, 0)), "Lb": (4, (1, 0, 0)), "Lc": (32, (1, 0, 0)), "Ld": (16, (1, 0, 0)),
    "Aa": (16, (2, 0, 0)), "Ab": (32, (2, 0, 0)), "Va": (1 * 4 * 4 * 2 * 32, (3, 0, 0)),
    "Vb": (4096, (3, 0, 0)), "Ta": (1, (0, 1, 0)), "Tb": (64, (0, 1, 0)),
    "Sa": (2, (1, -1, 0)), "Sb": (Fraction(1, 64), (1, -1, 0)), "Fa": (8, (0, -1, 0)),
    "Ma": (1, (0, 0, 1)), "Mb": (16, (0, 0, 1)), "Fo": (2, (1, -2, 1)), "Fp": (16, (1, -2, 1)),
    "Pr": (8, (-1, -2, 1)), "Ps": (4, (-1, -2, 1)), "En": (4, (2, -2, 1)), "One": (1, (0, 0, 0)),
    "Le": (8, (1, 0, 0)), "Lf": (Fraction(4, 1024), (1, 0, 0)), "Mc": (8, (0, 0, 1)),
    "Tc": (32, (0, 1, 0)),
    "Ki": (1024, (0, 0, 0)), "Mi2": (2 ** 20, (0, 0, 0)), "Hf": (Fraction(1, 2), (0, 0, 0)),
}


class _Sz:
    """Tiny evaluator of the pair expressions over exact sizes (mirrors Unit algebra)."""

    def __init__(self, v: Any, dims: Tuple[int, int, int]) -> None:
        self.v, self.dims = Fraction(v), dims

    def __mul__(self, o: "_Sz") -> "_Sz":
        return _Sz(self.v * o.v, tuple(a + b for a, b in zip(self.dims, o.dims)))

    def __truediv__(self, o: "_Sz") -> "_Sz":
        return _Sz(self.v / o.v, tuple(a - b for a, b in zip(self.dims, o.dims)))

    def __pow__(self, n: int) -> "_Sz":
        return _Sz(self.v ** n, tuple(a * n for a in self.dims))


def synthetic_ratio(src: str, dst: str) -> Fraction:
    env = {k: _Sz(*v) for k, v in SYNTHETIC_SIZES.items()}
    a, b = eval(src, {}, env), eval(dst, {}, env)
    if a.dims != b.dims:
        raise symnum.HarnessError(f"synthetic pair {src}->{dst} has different dimensions")
    return a.v / b.v


def synthetic_namespace() -> Dict[str, Any]:
    ns: Dict[str, Any] = {}
    exec(SYNTHETIC_SRC, ns)
    return ns


# ------------------------------------------------------------------------------------
# shipped-unit families


def named_pair_specs() -> List[Tuple[Any, Any]]:
    units = families.offset_free(families.named_units())
    out = []
    for dim, us in families.by_dimension(units).items():
        for a in us:
            for b in us:
                if a is not b:
                    out.append((families.spec_of(a), families.spec_of(b)))
    return out


def compound_pair_specs(max_degree: int, core_only: bool = True, limit: int = 0,
                        seed: int = 0) -> List[Tuple[Any, Any]]:
    """Source = product of integer powers of (prefixed) core units; target = the same shape
    with every factor replaced by another unit of its dimension / another registered
    prefix, or a named unit of the whole dimension."""
    import random

    import measured
    from measured import One

    rnd = random.Random(seed)
    units = families.offset_free(families.core_units() if core_only else
                                 families.named_units())
    units = [u for u in units if u.dimension is not measured.Number]
    bd = families.by_dimension(families.offset_free(families.named_units()))
    prefixes = [None] + [p for p in families.si_prefixes() if p.exponent in (3, -3, 6, -2)]
    pairs: List[Tuple[Any, Any]] = []
    seen = set()
    base_exps = [e for e in range(-3, 4) if e]
    for nf in (1, 2, 3):
        for combo in itertools.combinations(units, nf):
            for exps in itertools.product(base_exps, repeat=nf):
                if sum(abs(e) for e in exps) > max_degree:
                    continue
                src = One
                for f, e in zip(combo, exps):
                    p = rnd.choice(prefixes)
                    src = src * ((p * f) if p is not None else f) ** e
                if src is One or src.dimension is measured.Number:
                    continue
                # target 1: same shape, other units / prefixes
                dst = One
                for f, e in zip(combo, exps):
                    alts = [u for u in bd.get(f.dimension, []) if u is not f] or [f]
                    g = rnd.choice(alts[:12])
                    p = rnd.choice(prefixes)
                    dst = dst * ((p * g) if p is not None else g) ** e
                cands = [dst]
                # target 2: a named unit of the whole dimension
                for u in bd.get(src.dimension, [])[:3]:
                    cands.append(u)
                for d in cands:
                    if d is src or d.dimension is not src.dimension:
                        continue
                    k = (id(src), id(d))
                    if k in seen:
                        continue
                    seen.add(k)
                    pairs.append((families.spec_of(src), families.spec_of(d)))
    rnd.shuffle(pairs)
    if limit:
        pairs = pairs[:limit]
    return pairs


def power_pair_specs(exponents: Sequence[int] = (2, 3, -1, -2), per_dim: int = 0) -> List[Tuple[Any, Any]]:
    """u**e -> v**e for every ordered pair of named offset-free units of a fundamental
    dimension (multi-hop paths under an exponent are where path scaling can go wrong)."""
    import measured

    units = families.offset_free(families.named_units())
    out = []
    for dim, us in families.by_dimension(units).items():
        if sum(abs(e) for e in dim.exponents) != 1:
            continue
        us = us[:per_dim] if per_dim else us
        for a in us:
            for b in us:
                if a is b:
                    continue
                for e in exponents:
                    out.append((families.spec_of(a ** e), families.spec_of(b ** e)))
    return out


def cancelling_pair_specs(per_dim: int = 5) -> List[Tuple[Any, Any]]:
    """Sources in which a named unit of a power dimension (area, volume, ...) meets the base units
    that make up its inverse -- cup / in**3 -- alone (target: the bare number) or times one more
    unit (target: another unit of that unit's dimension).  What is left of the source after
    cancelling is where a planner can drop a factor."""
    import measured
    from measured import One

    units = families.offset_free(families.named_units())
    bd = families.by_dimension(units)
    fundamentals = {}
    for dim, us in bd.items():
        nz = [(i, e) for i, e in enumerate(dim.exponents) if e]
        if len(nz) == 1 and nz[0][1] == 1:
            fundamentals[nz[0][0]] = us
    out: List[Tuple[Any, Any]] = []
    for dim, us in bd.items():
        nz = [(i, e) for i, e in enumerate(dim.exponents) if e]
        if len(nz) != 1 or abs(nz[0][1]) < 2 or nz[0][0] not in fundamentals:
            continue
        i, e = nz[0]
        bases = fundamentals[i]
        pick = bases[:per_dim]
        for u in us[:3 * per_dim]:
            if len(u.factors) != 1 or u.prefix.base:
                continue
            for b in pick:
                src = u / b ** e
                if src is not One and src.dimension is measured.Number:
                    out.append((families.spec_of(src), families.spec_of(One)))
                extra = pick[0] if pick[0] is not b else pick[1 % len(pick)]
                other = pick[-1] if pick[-1] is not extra else pick[0]
                src2 = u * extra / b ** e
                if src2.dimension is extra.dimension and other is not src2:
                    out.append((families.spec_of(src2), families.spec_of(other)))
    return out


def oracle_with_readings() -> Any:
    """The oracle plus one alternative reading per declaration of every C09 core."""
    orc = families.orc()
    if len(orc.readings) == 1:
        r = orc.consistency()
        if r["status"] != "decided":
            raise symnum.HarnessError("C09 consistency query undecided")
        for core in r["cores"]:
            for d in core:
                orc.add_reading_without(d.index)
    return orc
