"""C04 -- a conversion that returns, returns the right value in the asked unit (E1).

Symbolic: the source magnitude m (int / float / Decimal kinds).  One run of the real
`Quantity.in_unit` yields the exact affine map c*m + d the library applies; z3 then decides
`forall m. |c*m + d - rho*m| <= tol*|rho*m|` against the independent size oracle.
"""

from __future__ import annotations

import time
from fractions import Fraction
from typing import Any, Dict, List, Tuple

import z3

from engine import convterm, families, par, report, symnum, work
from props import conv_common as cc

PID = "C04"


def replay(src_code: str, dst_code: str, kind: str, rho: Fraction, tol: float,
           prelude: str = "") -> str:
    mag = {"int": "7", "float": "7.5", "dec": "Decimal('7.5')"}[kind]
    # magnitudes of the numeric type the obligation was about, across many orders of magnitude (a
    # result that is not proportional to the magnitude shows at the small or the large end)
    spread = {"int": "10**12, -10**15", "float": "1e-12, -3e-17, 1e12",
              "dec": "Decimal('1e-12'), Decimal('-3e-17'), Decimal('1e-22'), Decimal('1e12')"}[kind]
    return (families.REPLAY_IMPORTS + "from decimal import Decimal\n" + prelude + f"""
src, dst = {src_code}, {dst_code}
rho = {float(rho)!r}   # size(src)/size(dst) from the declarations, independent of the planner
bad = []
for m in ({mag}, 0, -3, 1, 1000000, {spread}):
    try:
        r = (m * src).in_unit(dst)
    except measured.conversions.ConversionNotFound:
        print('conversion not found: not a C04 matter'); sys.exit(0)
    want = float(m) * rho
    print(m, '->', r, ' expected', want)
    if r.unit is not dst or abs(float(r.magnitude) - want) > {tol!r} * abs(want) + 1e-300:
        bad.append((m, r, want))
if bad:
    print('REPRODUCED: wrong conversion result', bad); sys.exit(1)
sys.exit(0)
""")


def check_pair(acc: work.Acc, src: Any, dst: Any, kind: str, ratios: List[Tuple[Fraction, Any]],
               tol: float, label: str, src_code: str, dst_code: str, prelude: str = "",
               collect: bool = False) -> str:
    cv = convterm.convert(src, dst, kind)
    acc.out["paths"] += cv.paths
    acc.out["queries"] += cv.queries
    acc.out["solver_s"] += cv.solver_s
    key = (label, kind)
    if cv.outcome == "ConversionNotFound":
        acc.count("not_convertible(C07/C09 matter)")
        return "notfound"
    if cv.outcome != "ok":
        # AssertionError & co: C07's business; forks/nonlinear: never expected
        if cv.outcome in ("forks", "nonlinear"):
            # the result is not one affine map of the magnitude: a violation if it shows on the real
            # library (against the declared size), otherwise outside what this encoding can decide
            if not ratios:
                acc.ob("unknown", f"{label}/{kind}: {cv.outcome}: {cv.msg[:80]}", key)
                return "unknown"
            acc.ob("sat", f"{label}/{kind}:proportional-to-the-magnitude", key)
            acc.out["viol"].append((f"C04:{label}:not-proportional",
                                    f"{label} ({kind} magnitudes): the result is not proportional to the magnitude "
                                    f"({cv.outcome}: {cv.msg[:100]})",
                                    replay(src_code, dst_code, kind, ratios[0][0], max(tol, 1e-9), prelude), "soft"))
            return "viol"
        acc.count(f"raised_{cv.outcome}(C07 matter)")
        return "raised"
    if kind == "float" and cv.d == 0 and cv.c and not prelude and collect:
        acc.out.setdefault("coeffs", []).append((str(src.dimension), families.show(src), families.show(dst),
                                                 src_code, dst_code, cv.c.numerator, cv.c.denominator, tol))
    if not ratios:
        acc.count("no_oracle_size")
        return "no-oracle"
    name = f"{label}/{kind}"
    if not cv.unit_ok or not cv.kind_ok:
        acc.ob("sat", name + ":unit-or-type", key)
        acc.out["viol"].append((f"C04:{label}:unit", f"result unit/type wrong for {label}",
                                replay(src_code, dst_code, kind, ratios[0][0], tol, prelude)))
        return "viol"
    first = None
    for i, (rho, dropped) in enumerate(ratios):
        r, _ = acc.P.check(z3.Not(convterm.within(cv.c, cv.d, rho, tol)))
        if r == "unknown":
            acc.ob("unknown", name, key)
            return "unknown"
        if r == "unsat":
            if i == 0:
                acc.ob("unsat", name, key)
                return "match"
            acc.ob("unsat", name + f":under-reading-without-decl-{dropped}", key)
            acc.count("ambiguous_by_C09")
            return "ambiguous"
    acc.ob("sat", name, key)
    acc.out["viol"].append((f"C04:{label}",
                            f"{label}: library applies m*{float(cv.c)!r}+{float(cv.d)!r}, "
                            f"declarations give m*{float(ratios[0][0])!r}",
                            replay(src_code, dst_code, kind, ratios[0][0], max(tol, 1e-9), prelude)))
    return "viol"


SIZES_REPLAY = """
import math
PAIRS = {pairs!r}      # (source, target, tolerance) of the conversions that admit no consistent sizes
ns = dict(measured=measured)
k = {{}}
for sc, dc, tol in PAIRS:
    a, b = eval(sc, ns), eval(dc, ns)
    k[(sc, dc)] = ((1.0 * a).in_unit(b).magnitude, tol)
    print('1', a, '=', k[(sc, dc)][0], b)
# sizes s with (1-tol) k_ab <= s_a / s_b <= (1+tol) k_ab exist iff the difference constraints on log s have
# no negative cycle (Floyd-Warshall over the units involved)
nodes = sorted({{x for p in k for x in p}})
INF = float('inf')
d = {{(x, y): (0.0 if x == y else INF) for x in nodes for y in nodes}}
for (a, b), (kab, tol) in k.items():
    d[(a, b)] = min(d[(a, b)], math.log(kab * (1 + tol)))       # log s_a - log s_b <= log(k (1+tol))
    d[(b, a)] = min(d[(b, a)], -math.log(kab * (1 - tol)))      # log s_b - log s_a <= -log(k (1-tol))
for m in nodes:
    for x in nodes:
        for y in nodes:
            if d[(x, m)] + d[(m, y)] < d[(x, y)]:
                d[(x, y)] = d[(x, m)] + d[(m, y)]
worst = min(d[(x, x)] for x in nodes)
print('most negative cycle:', worst)
if worst < -1e-9:
    print('REPRODUCED: no consistent set of unit sizes explains these conversions'); sys.exit(1)
sys.exit(0)
"""


def sizes_feasibility(rep: report.Report, coeffs: List[Tuple], emit: Any = None) -> None:
    """The statement of C04 itself, on the shipped named units: per dimension, do sizes s_u > 0 exist
    with every conversion factor the library applies within tolerance of s_a / s_b?  The factors
    k_ab come from the symbolic runs of the real convert (result = k_ab * m for every m); existence
    of the sizes is one linear-arithmetic query per dimension; an unsatisfiable core names the
    conversions that cannot be reconciled."""
    groups: Dict[str, List[Tuple]] = {}
    for c in coeffs:
        groups.setdefault(c[0], []).append(c)
    for dim, cs in sorted(groups.items()):
        units = sorted({c[1] for c in cs} | {c[2] for c in cs})
        if len(units) < 3:
            rep.ob("unsat", f"sizes exist for the {len(units)} named unit(s) of {dim} (fewer than three: nothing to reconcile)",
                   ("sizes", dim))
            continue
        sv = {u: z3.Real(f"size_{i}") for i, u in enumerate(units)}
        live = sorted(cs)

        def solve(constraints: List[Tuple]) -> Tuple[str, Any, Dict[str, Tuple]]:
            S = z3.Solver()
            S.set("timeout", 60000)
            S.set("core.minimize", True)
            S.add(*[v > 0 for v in sv.values()])
            labels: Dict[str, Tuple] = {}
            for j, c in enumerate(constraints):
                (_, a, b, sc, dc, num, den, tol) = c
                k = symnum.q(Fraction(num, den))
                t = symnum.q(Fraction(tol))
                lab = z3.Bool(f"pair_{j}")
                labels[str(lab)] = c
                S.assert_and_track(z3.And(sv[a] >= k * (1 - t) * sv[b], sv[a] <= k * (1 + t) * sv[b]), lab)
            t0 = time.time()
            r = str(S.check())
            rep.merge_stats(queries=1, solver_s=time.time() - t0)
            return r, S, labels

        for round_ in range(6):
            r, S, labels = solve(live)
            name = f"sizes exist for the {len(units)} named units of {dim} ({len(live)} conversion factors)"
            if r == "sat":
                rep.ob("unsat", name, ("sizes", dim, round_))
                break
            if r != "unsat":
                rep.ob("unknown", name, ("sizes", dim, round_))
                break
            core = [labels[str(x)] for x in S.unsat_core()]
            rep.ob("sat", name, ("sizes", dim, round_))
            involved = sorted({c[1] for c in core} | {c[2] for c in core})
            # which unit is it about?  Those whose removal alone leaves sizes for all the others (this
            # names the finding independently of which core the solver happened to return)
            culprits = [u for u in units
                        if solve([c for c in live if u not in (c[1], c[2])])[0] == "sat"]
            if culprits:
                # further rounds look for what remains once these units are set aside
                sig = f"C04:sizes:{dim}:" + "|".join(culprits)
            else:
                sig = f"C04:sizes:{dim}:" + ",".join(involved)
            if emit is not None:
                # another property's reading of the same fact (C12: order against physical values)
                emit(rep, dim, culprits or involved, core, cs)
            else:
                rep.violation(sig,
                              f"no sizes of {involved} reconcile the factors the library applies: " +
                              "; ".join(f"1 {c[1]} = {c[5] / c[6]!r} {c[2]}" for c in core[:6]),
                              families.REPLAY_IMPORTS + SIZES_REPLAY.format(pairs=[(c[3], c[4], c[7]) for c in core]))
            if culprits:
                live = [c for c in live if not (set(culprits) & {c[1], c[2]})]
            else:
                live = [c for c in live if c not in core]


def worker(task: Tuple) -> Dict[str, Any]:
    mode, items = task
    acc = work.Acc()
    if mode == "synthetic":
        import measured  # noqa
        from engine import oracle as om

        rec = om.Recorder()
        rec.install()
        ns = cc.synthetic_namespace()
        orc = om.Oracle(rec.decls)
        cons = orc.consistency(tol_per_degree=1e-12)
        if cons["status"] != "decided" or cons["cores"]:
            raise symnum.HarnessError("synthetic unit system is not exactly consistent")
        env = {k: v for k, v in ns.items() if not k.startswith("__")}
        with symnum.Shims():
            for (s, d) in items:
                src, dst = eval(s, {}, env), eval(d, {}, env)
                rho = cc.synthetic_ratio(s, d)
                rr = orc.ratio(src, dst)
                if rr is None or rr[0] != rho:
                    raise symnum.HarnessError(f"hand sizes and recorder oracle disagree on {s}->{d}")
                for kind in ("float", "int", "dec"):
                    st = check_pair(acc, src, dst, kind, [(rho, None)], 0.0, f"synthetic:{s}->{d}",
                                    s, d, prelude=cc.SYNTHETIC_SRC)
                    acc.count(f"synthetic_{st}")
        acc.sample({"family": "synthetic", "pair": items[0], "rho": str(cc.synthetic_ratio(*items[0]))})
        return acc.finish()
    families.boot()
    orc = cc.oracle_with_readings()
    with symnum.Shims():
        for i, (ss, ds, kind) in enumerate(items):
            src, dst = families.unit_of(ss), families.unit_of(ds)
            ratios = [(r, dr) for r, ex, dr in orc.ratios(src, dst)]
            tol = 1e-5 * orc.degree(src, dst)
            label = f"{families.show(src)}->{families.show(dst)}"
            st = check_pair(acc, src, dst, kind, ratios, tol, label, families.code(src),
                            families.code(dst), collect=(mode == "named"))
            acc.count(f"{mode}_{st}")
            if i == 0:
                acc.sample({"family": mode, "pair": label,
                            "rho": str(ratios[0][0]) if ratios else None})
    return acc.finish()


def named_coefficients() -> List[Tuple]:
    """(dimension, source, target, source code, target code, numerator, denominator, tolerance) of the
    factor the real convert applies, for every ordered pair of named offset-free units."""
    families.boot()
    items = [(s, d, "float") for (s, d) in cc.named_pair_specs()]
    results = par.run("props.c04", "worker", [("named", ch) for ch in par.chunks(items, 32)])
    return [c for r in results for c in r.get("coeffs", [])]


def tasks_for(tier: str, seed: int = 0) -> List[Tuple]:
    families.boot()
    named = cc.named_pair_specs()
    kinds_named = ["float"] if tier == "quick" else ["float", "int", "dec"]
    items = [(s, d, k) for (s, d) in named for k in kinds_named]
    # the family itself is fixed (generation seeds are constants); VERIF_SEED only
    # permutes the order in which it is visited
    if tier == "quick":
        comp = cc.compound_pair_specs(2, core_only=True, limit=1500, seed=1)
    else:
        comp = cc.compound_pair_specs(4, core_only=True, limit=12000, seed=1) + \
            cc.compound_pair_specs(2, core_only=False, limit=6000, seed=2)
    powers = cc.power_pair_specs((2, 3, -1, -2) if tier == "thorough" else (2, -1), 0 if tier == "thorough" else 14)
    cancelling = cc.cancelling_pair_specs(5 if tier == "quick" else 12)
    citems = [(s, d, "float") for (s, d) in comp + powers + cancelling]
    tasks: List[Tuple] = [("named", ch) for ch in par.chunks(families.shuffled(items, seed), 32)]
    tasks += [("compound", ch) for ch in par.chunks(families.shuffled(citems, seed), 32)]
    return tasks


def main(tier: str, selftest_cases: int = 0) -> int:
    rep = report.Report(PID, tier, "other")
    tasks = tasks_for(tier, rep.seed)
    results = par.run("props.c04", "worker", tasks)
    # the synthetic system is defined in fresh interpreters (one per task)
    results += par.run("props.c04", "worker",
                       [("synthetic", ch) for ch in par.chunks(cc.SYNTHETIC_PAIRS, 4)],
                       maxtasksperchild=1)
    work.merge(rep, results)
    sizes_feasibility(rep, [c for r in results for c in r.get("coeffs", [])])
    rep.functions.update(cc.FUNCTIONS)
    n_named = sum(len(t[1]) for t in tasks if t[0] == "named")
    n_comp = sum(len(t[1]) for t in tasks if t[0] == "compound")
    rep.coverage["pairs_named"] = n_named
    rep.coverage["pairs_compound"] = n_comp
    rep.coverage["pairs_synthetic"] = len(cc.SYNTHETIC_PAIRS) * 3
    rep.coverage["selftest_cases"] = selftest_cases
    rep.coverage["bounds"] = (
        "symbolic: source magnitude m (all reals / ints). Enumerated: (i) every ordered pair of "
        "registered named offset-free units of equal dimension (complete); (ii) compound shapes "
        f"(<=3 factors, |e|<=3) of total degree <= {2 if tier == 'quick' else 4} over the core "
        "set with registered prefixes, sampled by VERIF_SEED up to the stated count; (iii) a "
        "synthetic exactly-consistent system (power-of-two ratios) with redundant definition paths, "
        "tolerance 0.")
    rep.coverage["explanation"] = (
        "Each pair: the real in_unit runs once on a solver-backed magnitude (planner concrete), "
        "giving the exact affine map c*m+d; z3 confirms the extraction (forall m) and decides "
        "forall m |c*m+d - rho*m| <= tol*|rho*m| with rho from the declaration oracle "
        "(set-valued where C09 finds the declarations inconsistent: counted as ambiguous_by_C09).")
    rep.assumptions += [
        "exact real arithmetic over the binary constants in _ratios; Decimal context rounding outside",
        "planner control flow depends only on unit objects (checked: every run has exactly one path)",
        "tolerance 1e-5 per unit of exponent degree on shipped definitions, 0 on the synthetic system",
    ]
    return rep.finish()
