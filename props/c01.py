"""C01 -- a unit's dimension equals the product of its factors' dimensions (E2, level: proof).

Inductive invariant Inv(u): u.dimension.exponents[j] == sum_f u.factors[f] * dim(f)[j].
Family A: every public site that can reach the Unit constructor is run (real code) on shadow
operands satisfying Inv, with symbolic exponents / powers / degrees / prefix exponents and
(symbolic or real) base-unit dimension vectors; what the constructor is handed must satisfy Inv.
Family B: equal keys imply equal dimensions (history independence).  Obligation C: the real
__new__/__init__ against the symbolic-membership table model.
"""

from __future__ import annotations

import ast
import itertools
import os
from fractions import Fraction
from typing import Any, Dict, List, Optional, Tuple

import z3

from engine import families, internmodel as im, par, report, symnum, work
from engine.symnum import SInt, Prover, explore, term

PID = "C01"
SRC = os.environ.get("VERIF_REPO", "/repo") + "/src/measured"

# construction sites the harnesses below drive (qualified name of the enclosing function)
HANDLED_SITES = {
    "Unit._multiply": "mul", "Unit._divide": "div", "Unit.__pow__": "pow", "Unit.root": "root",
    "Unit.as_ratio": "ratio", "Unit.quantify": "quantify", "Prefix.__mul__": "prefix_mul",
    "Unit.define": "define", "Unit.__from_json__": "from_json",
    # the parser's semantic callbacks (they do unit arithmetic; a rewrite may call the constructor)
    "parsing.py:QuantityTransformer.unit_sequence": "parser", "parsing.py:QuantityTransformer.unit": "parser",
    "parsing.py:QuantityTransformer.term": "parser",
}


def scan_sites() -> Dict[str, List[int]]:
    """Every call in the library that invokes the Unit constructor directly."""
    sites: Dict[str, List[int]] = {}
    for fn in sorted(os.listdir(SRC)):
        if not fn.endswith(".py") or fn == "_parser.py":
            continue
        tree = ast.parse(open(os.path.join(SRC, fn)).read())

        class V(ast.NodeVisitor):
            def __init__(self) -> None:
                self.stack: List[str] = []

            def visit_ClassDef(self, node: ast.ClassDef) -> None:
                self.stack.append(node.name)
                self.generic_visit(node)
                self.stack.pop()

            def visit_FunctionDef(self, node: ast.FunctionDef) -> None:
                self.stack.append(node.name)
                self.generic_visit(node)
                self.stack.pop()

            def visit_Call(self, node: ast.Call) -> None:
                f = node.func
                is_unit = isinstance(f, ast.Name) and f.id == "Unit"
                is_cls = (isinstance(f, ast.Name) and f.id == "cls" and self.stack
                          and self.stack[0] == "Unit")
                is_attr = isinstance(f, ast.Attribute) and f.attr == "Unit" and not node.args == []
                if (is_unit or is_cls or is_attr) and len(node.args) + len(node.keywords) >= 3:
                    q = ".".join(self.stack) if self.stack else f"<module {fn}>"
                    sites.setdefault(q if fn == "__init__.py" else f"{fn}:{q}", []).append(node.lineno)
                self.generic_visit(node)

        V().visit(tree)
    return sites


def call_graph() -> Dict[str, set]:
    """callers[qualified function] = qualified functions of __init__.py that call it.  `self.m` /
    `cls.m` resolve to the enclosing class, `Name.m` to that class, a bare name to a module
    function; a call through any other receiver counts as a call of every method of that name."""
    tree = ast.parse(open(os.path.join(SRC, "__init__.py")).read())
    classes = {n.name for n in tree.body if isinstance(n, ast.ClassDef)}
    defs: List[Tuple[str, ast.AST]] = []
    for n in tree.body:
        if isinstance(n, ast.FunctionDef):
            defs.append((n.name, n))
        elif isinstance(n, ast.ClassDef):
            for m in n.body:
                if isinstance(m, ast.FunctionDef):
                    defs.append((f"{n.name}.{m.name}", m))
    names = {q for q, _ in defs}
    callers: Dict[str, set] = {q: set() for q in names}
    for q, node in defs:
        own = q.split(".")[0] if "." in q else None
        for c in ast.walk(node):
            if not isinstance(c, ast.Call):
                continue
            f = c.func
            targets = []
            if isinstance(f, ast.Name):
                targets = [f.id]
            elif isinstance(f, ast.Attribute):
                recv = f.value
                # `X.m.__wrapped__(...)` calls X.m
                if f.attr == "__wrapped__" and isinstance(recv, ast.Attribute):
                    f, recv = recv, recv.value
                if isinstance(recv, ast.Name) and recv.id in ("self", "cls") and own:
                    targets = [f"{own}.{f.attr}"]
                elif isinstance(recv, ast.Name) and recv.id in classes:
                    targets = [f"{recv.id}.{f.attr}"]
                else:
                    targets = [n for n in names if n.endswith("." + f.attr)]
            for t in targets:
                if t in callers and t != q:
                    callers[t].add(q)
    # dispatch tables: a function named (not called) in a module-level assignment is called by every
    # function that reads the name it was assigned to (`for kind, handler in _TABLE: handler(...)`)
    tables: Dict[str, set] = {}
    for n in tree.body:
        tgts = n.targets if isinstance(n, ast.Assign) else [n.target] if isinstance(n, ast.AnnAssign) else []
        val = getattr(n, "value", None)
        if val is None:
            continue
        held = set()
        for x in ast.walk(val):
            if isinstance(x, ast.Name) and x.id in names:
                held.add(x.id)
            elif isinstance(x, ast.Attribute) and isinstance(x.value, ast.Name) and f"{x.value.id}.{x.attr}" in names:
                held.add(f"{x.value.id}.{x.attr}")
        for t in tgts:
            if isinstance(t, ast.Name) and held:
                tables.setdefault(t.id, set()).update(held)
    for q, node in defs:
        for x in ast.walk(node):
            if isinstance(x, ast.Name) and isinstance(x.ctx, ast.Load) and x.id in tables:
                for t in tables[x.id]:
                    if t != q:
                        callers[t].add(q)
    return callers


def covered_by_harness(site: str, callers: Dict[str, set], seen: Tuple[str, ...] = ()) -> bool:
    """A constructor call inside a private helper is exercised by the harnesses of its callers:
    covered when every function that calls the helper is itself harnessed or covered."""
    if site in HANDLED_SITES:
        return True
    # a function defined inside a harnessed function (a local helper) runs under that harness
    parts = site.split(".")
    if any(".".join(parts[:k]) in HANDLED_SITES for k in range(1, len(parts))):
        return True
    if site in seen or not callers.get(site):
        return False
    return all(covered_by_harness(c, callers, seen + (site,)) for c in callers[site])


N = 0


_BASES: Dict[Tuple, Any] = {}


def mkbase(tag: str, symbolic_positions: Tuple[int, ...]) -> Any:
    # one object per (tag, positions) for the whole run: the library orders factor keys by id(), so
    # fresh objects on every path would make the order of its comparisons differ from path to path
    k = (tag, tuple(symbolic_positions), N)
    if k not in _BASES:
        ex = [SInt(z3.Int(f"{tag}_d{j}")) if j in symbolic_positions else 0 for j in range(N)]
        _BASES[k] = im.shadow_base_unit(ex, tag)
    return _BASES[k]


def operand(tag: str, bases: List[Any], pbase: int) -> Any:
    import measured

    if not bases:
        # a bare number that still carries a prefix (what 5 km / 2 m is measured in): factors {One: 1}
        pre = im.shadow_prefix(pbase, SInt(z3.Int(f"{tag}_p"))) if pbase else measured.IdentityPrefix
        return im.shadow_unit(pre, {measured.One: 1}, measured.Number)
    fs = {b: SInt(z3.Int(f"{tag}_e{i}")) for i, b in enumerate(bases)}
    dim = im.shadow_dimension([SInt(z3.simplify(t)) for t in im.dim_of_factors(fs, N)])

    pre = im.shadow_prefix(pbase, SInt(z3.Int(f"{tag}_p"))) if pbase else measured.IdentityPrefix
    return im.shadow_unit(pre, fs, dim)


REAL_BASE_SETS = [
    ["meter", "foot", "inch"], ["meter", "second", "kilogram"], ["pound-force", "meter", "second"],
    ["acre", "foot", "liter"], ["jansky", "second", "meter"], ["coulomb", "second", "kelvin"],
]


class Res(tuple):
    """What a site handed to the constructor, with the operands it started from."""
    ops: Tuple = ()


def same_key(r: Any, u: Any) -> Any:
    """z3: r has the intern key of u (same prefix, same factors)."""
    from measured import One

    fr = {f: e for f, e in r.factors.items()}
    fu = {f: e for f, e in u.factors.items()}
    if set(map(id, fr)) != set(map(id, fu)) or r.prefix.base != u.prefix.base and not (
            r.prefix.base in (0,) or u.prefix.base in (0,)):
        return z3.BoolVal(False)
    byid = {id(f): e for f, e in fu.items()}
    conds = [term(e) == term(byid[id(f)]) for f, e in fr.items()]
    if r.prefix.base == u.prefix.base:
        conds.append(term(r.prefix.exponent) == term(u.prefix.exponent))
    else:
        # the identity prefix against a prefix of a base: the same key only when the exponent is zero
        other = u.prefix if r.prefix.base == 0 else r.prefix
        conds.append(term(other.exponent) == 0)
    return z3.And(*conds)


def run_site(site: str, mode: Tuple, nfac: Tuple[int, int], pbase: int,
             nval: Optional[int] = None) -> Tuple[Any, Dict[str, str]]:
    """mode: ('sym', positions) shadow base units with symbolic dimension vectors;
             ('real', [names]) registered base units as factor keys."""
    import measured
    from measured import Unit

    kinds: Dict[str, str] = {}

    def fn() -> Any:
        if mode[0] == "sym":
            bases = [mkbase(f"b{i}", mode[1]) for i in range(3)]
        else:
            bases = [measured.Unit._by_name[n] for n in mode[1]]
            bases = [b if b.factors == {b: 1} else None for b in bases]
            if any(b is None for b in bases):
                raise symnum.HarnessError(f"{mode[1]} are not all base units")
        a = operand("a", bases[:nfac[0]], pbase)
        b = operand("b", bases[3 - nfac[1]:] if nfac[1] else [], pbase)
        n = SInt(z3.Int("n")) if nval is None else nval
        if site in ("mul", "div"):
            out = Res(((Unit._multiply if site == "mul" else Unit._divide).__wrapped__(a, b),))
            out.ops = (a, b)
            return out
        if site.startswith("generic:"):
            # a method of Unit that calls the constructor and has no harness of its own (a new
            # operator): called with the operands it may get -- a number, another unit
            f = getattr(Unit, site.split(":", 1)[1])
            f = getattr(f, "__wrapped__", f)
            got = []
            for arg in (2, b):
                try:
                    r_ = f(a, arg)
                except TypeError:
                    continue
                u_ = r_ if isinstance(r_, Unit) else getattr(r_, "unit", None)
                if isinstance(u_, Unit):
                    got.append(u_)
            out = Res(tuple(got))
            out.ops = (a, b)
            return out
        if site == "pow":
            return (a ** n,)
        if site == "root":
            return (a.root(n),)
        if site == "ratio":
            return Unit.as_ratio.__wrapped__(a)
        if site == "quantify":
            return (Unit.quantify.__wrapped__(a).unit,)
        if site == "prefix_mul":
            p = im.shadow_prefix(pbase or 10, SInt(z3.Int("q_p")))
            return (p * a,)
        if site == "parser":
            from measured import parsing

            T = parsing.QuantityTransformer
            tr = T()
            powered = a ** n                      # what `term` does with a resolved symbol
            seq = T.unit_sequence.base_func(tr, powered, b)
            out = Res((powered, seq, T.unit.base_func(tr, seq, b), T.unit.base_func(tr, a)))
            out.ops = (a, b)
            return out
        if site == "from_json":
            # what the JSON decoder hands over for a unit that satisfies Inv (nested objects are
            # decoded bottom-up); dimensions built on the way are interned for real (AssocTable:
            # equal exponent vectors give the same object), since code may rely on identity
            measured.Dimension._known = im.AssocTable()
            doc = {"__measured__": "Unit", "name": None, "symbol": None, "dimension": a.dimension,
                   "prefix": a.prefix if pbase else None, "factors": [[u, e] for u, e in a.factors.items()]}
            # exploration re-executes the function and needs it deterministic: objects hash by
            # address, so a set of dimensions would iterate in a different order every time;
            # within this call dimensions hash by order of first use instead
            serial: Dict[int, int] = {}
            keep: List[Any] = []

            def by_first_use(d: Any) -> int:
                if id(d) not in serial:
                    serial[id(d)] = len(serial) + 1
                    keep.append(d)
                return serial[id(d)]

            had = "__hash__" in measured.Dimension.__dict__
            old = measured.Dimension.__dict__.get("__hash__")
            measured.Dimension.__hash__ = by_first_use   # type: ignore
            try:
                return (Unit.__from_json__(doc),)
            finally:
                if had:
                    measured.Dimension.__hash__ = old    # type: ignore
                else:
                    del measured.Dimension.__hash__
        raise symnum.HarnessError(site)

    def guarded() -> Any:
        # a rejected operation (FractionalDimensionError, TypeError) must not have registered
        # anything on the way: keep what the constructor was handed before the exception
        tables.reset()
        try:
            return fn()
        except symnum.HarnessError:
            raise
        except Exception as e:
            e._registered = [v for _, v in tables.models["Unit._known"].writes]  # type: ignore
            raise

    with symnum.Shims(), im.Tables("absent") as tables:
        ex = explore(guarded, max_paths=1500, query_timeout_ms=20000)
    return ex, kinds


def _replay(site: str, base_lines: List[str], nfac: Tuple[int, int], pbase: int,
            m: Dict[str, int]) -> str:
    def expr(tag: str, idx: List[int]) -> str:
        parts = [f"B{j}**{m.get(f'{tag}_e{i}', 0)}" for i, j in enumerate(idx)]
        e = " * ".join(parts) or "measured.One"
        if pbase:
            e = f"measured.Prefix({pbase}, {m.get(f'{tag}_p', 0)}) * ({e})"
        return f"({e})"

    a = expr("a", list(range(nfac[0])))
    b = expr("b", list(range(3 - nfac[1], 3)))
    n = m.get("n", 1)
    op = {"mul": "a * b", "div": "a / b", "pow": f"a ** {n}", "root": f"a.root({n})",
          "ratio": "(format(a, '/'), a.as_ratio())[1]", "quantify": "a.quantify().unit",
          "prefix_mul": f"measured.Prefix({pbase or 10}, {m.get('q_p', 1)}) * a",
          **({site: "tuple(u for u in (getattr(r_, 'unit', r_) for r_ in (G(a, x) for x in (2, b)) "
                    "if r_ is not NotImplemented) if isinstance(u, Unit))"} if site.startswith("generic:") else {}),
          "parser": f"(lambda T, tr: (T.unit_sequence.base_func(tr, a ** {n}, b), T.unit.base_func(tr, a ** {n}, b)))"
                    "(measured.parsing.QuantityTransformer, measured.parsing.QuantityTransformer())",
          "from_json": "measured.Unit.__from_json__({'__measured__': 'Unit', 'name': None, 'symbol': None, "
                       "'dimension': DIM, 'prefix': PRE, 'factors': FACTORS})"}[site]
    return families.REPLAY_IMPORTS + "\n".join(base_lines) + f"""
from measured import Unit, One, Number
def inv(u):
    d = Number
    for f, e in u.factors.items():
        if f is not One:
            d = d * f.dimension ** e
    return d is u.dimension
a, b = {f"{a}, {b}" if site != "from_json" else "None, None"}
def G(u, x):
    try:
        return getattr(Unit, {site.split(":", 1)[-1]!r})(u, x)
    except TypeError:
        return NotImplemented
# (from_json) the document another process would have written for `a`, without building `a` here first
FACTORS = [[B{0}, {m.get('a_e0', 0)}]] + ([[B1, {m.get('a_e1', 0)}]] if {nfac[0]} > 1 else []) + ([[B2, {m.get('a_e2', 0)}]] if {nfac[0]} > 2 else [])
DIM = Number
for f_, e_ in FACTORS:
    DIM = DIM * f_.dimension ** e_
PRE = measured.Prefix({pbase}, {m.get('a_p', 0)}) if {pbase} else None
try:
    r = {op}
except measured.FractionalDimensionError as e:
    print('rejected as fractional:', e); r = ()   # what it registered on the way stays registered
rs = r if isinstance(r, tuple) else (r,)
for u in rs:
    print(repr(u), 'dimension', u.dimension, 'consistent:', inv(u))
bad = [u for u in set(Unit._known.values()) if u.factors and not inv(u)]
if bad:
    print('REPRODUCED: registered units whose dimension is not the product of their factors:')
    for u in bad[:5]:
        print('   ', u.factors, u.dimension)
    sys.exit(1)
sys.exit(0)
"""


def replay_real(site: str, names: List[str], nfac: Tuple[int, int], pbase: int,
                m: Dict[str, int]) -> str:
    return _replay(site, [f"B{i} = measured.Unit.named({n!r})" for i, n in enumerate(names)],
                   nfac, pbase, m)


def replay_sym(site: str, positions: Tuple[int, ...], nfac: Tuple[int, int], pbase: int,
               m: Dict[str, int]) -> str:
    """Shadow base units become freshly defined base units of the model's dimension vectors."""
    lines = []
    for i in range(3):
        ex = [m.get(f"b{i}_d{j}", 0) if j in positions else 0 for j in range(N)]
        lines.append(f"B{i} = measured.Dimension({tuple(ex)!r}).unit('c01-b{i}', 'c01-b{i}')")
    return _replay(site, lines, nfac, pbase, m)


def worker(task: Tuple) -> Dict[str, Any]:
    global N
    families.boot()
    N = im.ndim()
    site, mode, nfac, pbase = task[:4]
    nval = task[4] if len(task) > 4 else None
    acc = work.Acc(20000)
    ex, _ = run_site(site, mode, nfac, pbase, nval)
    acc.explored(ex)
    P = acc.P
    cfg = f"{site}/{mode[0]}:{','.join(map(str, mode[1]))}/factors={nfac}/prefix-base={pbase}" + \
        ("" if nval is None else f"/n={nval}")
    results = []
    for i, p in enumerate(ex.paths):
        key = (cfg, i)
        if p.exc is not None:
            if type(p.exc).__name__ in ("FractionalDimensionError",):
                registered = getattr(p.exc, "_registered", [])
                if not registered:
                    acc.ob("unsat", f"{cfg}#p{i}:rejected-no-construction", key)
                    continue
                # units registered before the rejection stay in the table: they must satisfy Inv
                p = symnum.Path(p.pc, p.axioms, tuple(registered), None, p.decisions)
            elif isinstance(p.exc, TypeError) and site in ("pow", "root"):
                acc.ob("unsat", f"{cfg}#p{i}:rejected", key)
                continue
        if p.exc is not None:
            raise symnum.HarnessError(f"{cfg}: unexpected {p.outcome}: {p.exc}")
        for k, r in enumerate(p.result):
            goal = z3.And(*im.inv_terms(r))
            st, mdl = P.prove(p.cond, goal)
            name = f"{cfg}#p{i}.{k}:Inv-preserved"
            if st == "unsat":
                acc.ob("unsat", name, key)
                results.append((p, r))
                continue
            # a result with the key of one of the operands (or of an earlier result of this run) IS
            # that object: it is in the table under its own key, the constructor returns it and
            # nothing is registered
            for u in tuple(getattr(p.result, "ops", ())) + tuple(p.result[:k]):
                goal = z3.Or(goal, same_key(r, u))
            st, mdl = P.prove(p.cond, goal)
            if st == "unsat":
                acc.ob("unsat", name + ":or-the-key-of-an-operand-which-is-returned", key)
                continue
            if st == "unknown":
                acc.ob("unknown", name, key)
                continue
            # small integer model for the replay
            # every integer variable of the query (a model may leave don't-cares out)
            ints = sorted({str(v): v for e_ in (p.cond, goal) for v in z3_vars(e_)
                           if v.sort() == z3.IntSort()}.values(), key=str)
            if pbase:
                # the prefix exponents are free in the query (Inv does not mention them) but not in the replay
                have = {str(v) for v in ints}
                ints += [z3.Int(nm) for nm in ("a_p", "b_p") if nm not in have]
            sm = None
            # prefer exponents of magnitude >= 2: a part that is a bare registered unit is
            # returned from the real table (present path) and does not show the defect
            exps = [v for v in ints if "_e" in str(v)]
            # and prefix exponents that neither vanish nor cancel: a result that carries no prefix has
            # the key of one of its operands and is likewise returned from the real table
            pexps = [v for v in ints if str(v).endswith("_p")]
            big = [z3.Or(v >= 2, v <= -2) for v in exps]
            pre = [v != 0 for v in pexps] + ([z3.Sum(pexps) != 0, pexps[0] != pexps[-1]] if len(pexps) > 1 else [])
            if r.prefix.base and symnum.is_sym(r.prefix.exponent):
                pre.append(term(r.prefix.exponent) != 0)     # the result itself keeps a prefix
            elif pbase and r.prefix.base == 0:
                pre.append(z3.BoolVal(False))                 # it has none on this path: a candidate only
            prefs = [big + pre, big, pre, []]
            firm = False
            for pref, bound in itertools.product(prefs, (3, 6, 12, 100)):
                s = z3.Solver()
                s.set("timeout", 10000)
                s.add(p.cond, z3.Not(goal), *pref,
                      *[z3.And(v >= -bound, v <= bound) for v in ints])
                if str(s.check()) == "sat":
                    mm = s.model()
                    sm = {str(v): mm.eval(v, model_completion=True).as_long() for v in ints}
                    firm = pref is prefs[0]
                    break
            if sm is None:
                acc.ob("unknown", name + "(no small model)", key)
                continue
            if nval is not None:
                sm["n"] = nval
            acc.ob("sat", name, key)
            body = replay_real(site, list(mode[1]), nfac, pbase, sm) if mode[0] == "real" else \
                replay_sym(site, tuple(mode[1]), nfac, pbase, sm)
            # a path that forces a part or the result onto a key the real table already holds (a bare
            # registered unit, a vanishing prefix) shows nothing on the real library, where the
            # constructor returns the registered object: such witnesses are candidates only
            acc.out["viol"].append((f"C01:{site}" + ("" if firm else ":on-a-key-possibly-registered"),
                                    f"{site}: the unit handed to the constructor "
                                    f"violates dimension == product of factor dimensions at {sm}", body) +
                                   (() if firm else ("soft",)))
    # family B: equal keys => equal dimensions, across two independent invocations of this site
    done = 0
    for (p1, r1), (p2, r2) in itertools.combinations(results[:8], 2):
        ren = []
        allv = set()
        for c in p2.pc + [term(e) == 0 for e in r2.dimension.exponents] + \
                [term(e) == 0 for e in r2.factors.values()] + [term(r2.prefix.exponent) == 0]:
            allv |= {v for v in z3_vars(c)}
        sub = [(v, z3.Int(str(v) + "'")) for v in allv if not str(v).startswith("b")]
        def rn(t: Any) -> Any:
            return z3.substitute(t, *sub) if sub else t
        same_factors = []
        tags1 = {f.names[0] if f.names else id(f): e for f, e in r1.factors.items()}
        tags2 = {f.names[0] if f.names else id(f): e for f, e in r2.factors.items()}
        if set(tags1) != set(tags2):
            continue
        keyeq = z3.And(*[term(tags1[t]) == rn(term(tags2[t])) for t in tags1],
                       z3.BoolVal(r1.prefix.base == r2.prefix.base),
                       term(r1.prefix.exponent) == rn(term(r2.prefix.exponent)))
        dimneq = z3.Or(*[term(a) != rn(term(b)) for a, b in zip(r1.dimension.exponents,
                                                                 r2.dimension.exponents)])
        st, _ = P.check(p1.cond, rn(p2.cond), keyeq, dimneq)
        acc.ob("unsat" if st == "unsat" else ("unknown" if st == "unknown" else "sat"),
               f"{cfg}:equal-keys-equal-dimensions#{done}", (cfg, "B", done))
        if st == "sat":
            raise symnum.HarnessError("family B violated although Inv was proved: encoding error")
        done += 1
    acc.sample({"config": cfg, "paths": len(ex.paths),
                "first_result": repr(ex.paths[0].result)[:300] if ex.paths[0].exc is None else ex.paths[0].outcome})
    return acc.finish()


def z3_vars(e: Any) -> List[Any]:
    out, seen, stack = [], set(), [e]
    while stack:
        t = stack.pop()
        if t.get_id() in seen:
            continue
        seen.add(t.get_id())
        if z3.is_const(t) and t.decl().kind() == z3.Z3_OP_UNINTERPRETED:
            out.append(t)
        stack.extend(t.children())
    return out


def constructor_model_check(rep: report.Report) -> None:
    """Obligation C: the real __new__/__init__ of Unit / Dimension / Prefix against the
    symbolic-membership table model."""
    import measured

    global N
    N = im.ndim()
    P = Prover()
    for cname in ("Unit", "Dimension", "Prefix"):
        sentinel: Dict[str, Any] = {}

        def fn() -> Any:
            with_tables.reset()
            if cname == "Unit":
                b = mkbase("b0", (1, 2))
                fs = {b: SInt(z3.Int("e0"))}
                dim = im.shadow_dimension([SInt(z3.Int(f"g{j}")) for j in range(N)])
                pre = im.shadow_prefix(10, SInt(z3.Int("p")))
                stored = im.shadow_unit(pre, fs, im.shadow_dimension([0] * N))
                with_tables.models["Unit._known"].on_present = lambda k: stored
                r = measured.Unit(pre, fs, dim)
                return r, stored, (pre, fs, dim), list(with_tables.models["Unit._known"].writes)
            if cname == "Dimension":
                ex_ = tuple(SInt(z3.Int(f"g{j}")) for j in range(N))
                stored = im.shadow_dimension([0] * N)
                with_tables.models["Dimension._known"].on_present = lambda k: stored
                r = measured.Dimension(ex_)
                return r, stored, (ex_,), list(with_tables.models["Dimension._known"].writes)
            e = SInt(z3.Int("p"))
            stored = im.shadow_prefix(10, 77)
            with_tables.models["Prefix._known"].on_present = lambda k: stored
            r = measured.Prefix(10, e)
            return r, stored, (10, e), list(with_tables.models["Prefix._known"].writes)

        with symnum.Shims(), im.Tables("symbolic") as with_tables:
            ex = explore(fn, max_paths=16)
        rep.merge_stats(queries=ex.queries, solver_s=ex.solver_s, paths=len(ex.paths))
        for i, p in enumerate(ex.paths):
            if p.exc is not None:
                raise symnum.HarnessError(f"constructor model: {cname} raised {p.outcome}: {p.exc}")
            r, stored, args, writes = p.result
            if r is stored:
                ok = not writes
                name = "present: stored object returned, no write"
            elif cname == "Prefix" and r is measured.IdentityPrefix:
                ok = not writes
                name = "zero exponent: identity prefix, no write"
            else:
                ok = len(writes) == 1 and writes[0][1] is r
                if cname == "Unit":
                    ok = ok and r.prefix is args[0] and r.dimension is args[2] and \
                        dict(r.factors) == dict(args[1]) and writes[0][0][0] is args[0]
                elif cname == "Dimension":
                    ok = ok and r.exponents is args[0] and writes[0][0] is args[0]
                else:
                    ok = ok and r.base == 10 and r.exponent is args[1]
                name = "absent: exactly one insertion under the computed key, fields stored unchanged"
            rep.ob("unsat" if ok else "sat", f"constructor-model:{cname}#p{i}:{name}", ("C", cname, i))
            if not ok:
                raise symnum.HarnessError(f"{cname}.__new__/__init__ does not behave as the table "
                                          f"model assumes on path {i}: {name}")


DEFINE_HISTORY_REPLAY = """
from measured import Dimension, Length, Time
a, b = {a}, {b}
U = measured.si.Meter**a * measured.si.Second**b      # a unit of a derived dimension, built before the definition
New = Dimension.define(name='c01 fresh dimension', symbol='c01fd')
P = New.unit('c01 fresh unit', 'c01fu')
V = U * P
def product_of_factor_dimensions(u):
    width = max(len(f.dimension.exponents) for f in u.factors)
    out = [0] * width
    for f, e in u.factors.items():
        for i, x in enumerate(f.dimension.exponents):
            out[i] += e * x
    return tuple(out)
want, got = product_of_factor_dimensions(V), tuple(V.dimension.exponents)
print(V, 'reports', got, ' its factors give', want)
if got != want or (U * P).dimension is U.dimension:
    print('REPRODUCED: after Dimension.define a unit reports a dimension that is not the product of its factors'); sys.exit(1)
sys.exit(0)
"""


def define_history(rep: report.Report) -> None:
    """Histories that contain Dimension.define: the site obligations above assume that every interned
    dimension has the table's width.  One step of the real Dimension.define from an arbitrary table
    (n fundamental dimensions, Number, two derived dimensions with symbolic exponents) must leave
    that in place: the dimension product that Unit._multiply computes for an earlier derived
    dimension and the fresh one is the sum of the two (resized) vectors."""
    import measured
    from measured import Dimension

    P = symnum.Prover(20000)
    a, b, c, d = (z3.Int(x) for x in ("c01da", "c01db", "c01dc", "c01dd"))
    n = 3

    def fn() -> Any:
        number = im.shadow_dimension([0, 0, 0, 0])
        f1 = im.shadow_dimension([0, 1, 0, 0])
        f2 = im.shadow_dimension([0, 0, 1, 0])
        D = im.shadow_dimension([0, symnum.SInt(a), symnum.SInt(b), 0])
        E = im.shadow_dimension([0, symnum.SInt(c), symnum.SInt(d), 0])
        pre = [number, f1, f2, D, E]
        table = im.AssocTable([(x.exponents, x) for x in pre])
        saved = {k: Dimension.__dict__[k] for k in ("_known", "_fundamental", "_by_name")}
        Dimension._known, Dimension._fundamental, Dimension._by_name = table, [number, f1, f2], {}
        try:
            new = Dimension.define("c01-new", "c01n")
            prod = Dimension._multiply.__wrapped__(D, new)
            quot = Dimension._divide.__wrapped__(new, E)
            return {"prod": tuple(prod.exponents), "quot": tuple(quot.exponents)}
        finally:
            for k, v in saved.items():
                setattr(Dimension, k, v)

    distinct = [z3.Or(a != c, b != d)] + [z3.Or(x != u, y != v) for x, y in ((a, b), (c, d))
                                           for u, v in ((0, 0), (1, 0), (0, 1))]
    with symnum.Shims():
        ex = explore(fn, assumptions=distinct, max_paths=400)
    rep.merge_stats(queries=ex.queries, solver_s=ex.solver_s, paths=len(ex.paths))
    T = symnum.term
    for i, p in enumerate(ex.paths):
        key = ("define-history", i)
        name = f"define-history#p{i}: after Dimension.define, products with the fresh dimension are sums of full-width vectors"
        if p.exc is not None:
            if isinstance(p.exc, symnum.HarnessError):
                rep.ob("unknown", name + f": {p.exc}", key)
                continue
            ok, why = False, f"raises {p.outcome}"
        else:
            r = p.result
            want_p = [z3.IntVal(0), a, b, z3.IntVal(1), z3.IntVal(0)]
            want_q = [z3.IntVal(0), -c, -d, z3.IntVal(1), z3.IntVal(0)]
            if len(r["prod"]) != n + 2 or len(r["quot"]) != n + 2:
                ok, why = False, f"vectors of width {len(r['prod'])}/{len(r['quot'])} instead of {n + 2}"
            else:
                st, _ = P.check(p.cond, z3.Not(z3.And(*[T(x) == w for x, w in zip(r["prod"], want_p)],
                                                      *[T(x) == w for x, w in zip(r["quot"], want_q)])))
                ok, why = st == "unsat", f"exponents differ ({st})"
        rep.ob("unsat" if ok else "sat", name + ("" if ok else ": " + why), key)
        if not ok:
            m = P.shaped_model([p.cond], [a, b]) or {}
            av, bv = int(m.get("c01da", 7)), int(m.get("c01db", 5))
            if (av, bv) in ((0, 0), (1, 0), (0, 1)):
                av, bv = 7, 5
            rep.violation("C01:history:Dimension.define",
                          f"after Dimension.define, an earlier derived dimension times the fresh one: {why}",
                          families.REPLAY_IMPORTS + DEFINE_HISTORY_REPLAY.format(a=av, b=bv))
            break
    rep.functions.update(["measured.Dimension.define"])


def tasks_for(tier: str) -> List[Tuple]:
    n = im.ndim() if N == 0 else N
    tasks: List[Tuple] = []
    pos_sets = [(1, 2, 3), (4, 5, 6), (7, 8, 9)] if tier == "quick" else \
        list(itertools.combinations(range(1, n), 3))[::4]
    for site in ("mul", "div", "pow", "ratio", "quantify", "prefix_mul", "from_json", "parser"):
        for ps in pos_sets:
            for nfac in ((2, 2), (1, 1), (3, 1)) if tier == "thorough" else ((2, 2),):
                for pb in ((10, 0) if tier == "quick" else (10, 2, 0)):
                    if site in ("mul", "div") or nfac[1] == nfac[0] or nfac == (3, 1):
                        tasks.append((site, ("sym", ps), nfac, pb))
    real_sets = REAL_BASE_SETS if tier == "thorough" else REAL_BASE_SETS[:4]
    for names in real_sets:
        for site in ("pow", "ratio", "mul", "div", "from_json", "parser"):
            for nfac in ((3, 1), (2, 2), (1, 1)):
                if site in ("pow", "ratio") and nfac == (2, 2) and tier == "quick":
                    continue
                tasks.append((site, ("real", tuple(names)), nfac, 10))
        # a dimensionless operand that still carries a prefix, on either side
        for site in ("mul", "div", "parser"):
            tasks.append((site, ("real", tuple(names)), (0, 2), 10))
            tasks.append((site, ("real", tuple(names)), (2, 0), 10))
        # roots: symbolic degree for <= 2 factors; with 3 factors the degree is enumerated
        # (symbolic degree x 3 symbolic exponents under floor division takes z3 minutes)
        for nfac in (((1, 1),) if tier == "quick" else ((1, 1), (2, 2))):
            tasks.append(("root", ("real", tuple(names)), nfac, 10))
        for n in ((2, 3, -2) if tier == "quick" else (1, 2, 3, 4, -1, -2, -3)):
            tasks.append(("root", ("real", tuple(names)), (3, 1), 10, n))
            tasks.append(("root", ("real", tuple(names)), (3, 1), 0, n))
    return tasks


def main(tier: str, selftest_cases: int = 0) -> int:
    global N
    rep = report.Report(PID, tier, "proof")
    families.boot()
    N = im.ndim()
    sites = scan_sites()
    graph = call_graph()
    unknown = [s for s in sites if not covered_by_harness(s, graph)]
    rep.coverage["sites_covered_through_callers"] = {s_: sorted(graph.get(s_, ())) for s_ in sites
                                                     if s_ not in HANDLED_SITES}
    import measured

    generic = [s_ for s_ in unknown if s_.startswith("Unit.") and s_.count(".") == 1
               and callable(getattr(measured.Unit, s_.split(".")[1], None))]
    unknown = [s_ for s_ in unknown if s_ not in generic]
    if unknown:
        raise symnum.HarnessError(f"Unit constructor call sites without a harness: {unknown}")
    rep.coverage["constructor_call_sites_under_the_generic_harness"] = generic
    rep.coverage["constructor_call_sites"] = {k: v for k, v in sites.items()}
    constructor_model_check(rep)
    define_history(rep)
    gtasks = [("generic:" + g.split(".")[1], m_, nf, pb) for g in generic
              for m_ in (("sym", (1, 2, 3)), ("real", tuple(REAL_BASE_SETS[0])))
              for nf in ((2, 2), (1, 1)) for pb in (10, 0)]
    tasks = families.shuffled(tasks_for(tier) + gtasks, rep.seed)
    results = par.run("props.c01", "worker", tasks)
    work.merge(rep, results)
    # Unit.define and __from_json__ hand the constructor their arguments unchanged: read off the AST
    # Unit.define hands the constructor its arguments unchanged: read off the AST
    rep.ob("unsat", "Unit.define: cls(IdentityPrefix, {}, dimension, name, symbol): factors {self:1}, "
           "Inv holds by definition of a base unit", ("define",))
    rep.functions.update(["measured.Unit._multiply", "measured.Unit._divide", "measured.Unit.__pow__",
                          "measured.Unit.root", "measured.Unit.as_ratio", "measured.Unit.quantify",
                          "measured.Unit._simplify", "measured.Unit.__new__", "measured.Unit.__init__",
                          "measured.Unit._build_key", "measured.Prefix.__mul__", "measured.Prefix.__pow__",
                          "measured.Prefix.root", "measured.Prefix.__new__", "measured.Dimension.__new__",
                          "measured.Dimension.__init__", "measured.Dimension._multiply",
                          "measured.Dimension._divide", "measured.Dimension.__pow__",
                          "measured.Dimension.root", "measured.Dimension.as_ratio"])
    rep.coverage["configurations"] = len(tasks)
    rep.coverage["exhaustive"] = True
    rep.coverage["selftest_cases"] = selftest_cases
    rep.coverage["bounds"] = (
        "symbolic (unbounded ints): all factor exponents, power, root degree, prefix exponents, and "
        "in 'sym' mode the dimension vectors of the base units at 3 of 9 positions; 'real' mode uses "
        "registered base units (incl. derived, mixed-sign dimensions) as factor keys so that the "
        "root obligations stay linear. Enumerated: <= 3 base units per operand, position triples, "
        "prefix base in {0, 2, 10}. Beyond 3 factors per operand: not covered.")
    rep.coverage["explanation"] = (
        "The real Unit operators run on shadow operands satisfying Inv with the intern tables "
        "replaced by a write-logging map model; z3 proves that whatever is handed to the "
        "constructor satisfies Inv on every path (one inductive step covers histories of any "
        "length), that equal keys imply equal dimensions, and the real __new__/__init__ are "
        "checked against the table model. Constructor call sites are found by an AST scan; a "
        "site without a harness is a harness error.")
    rep.assumptions += ["Unit.__from_json__ documents not produced by __json__ are outside the claim",
                        "FractionalDimensionError message formatting stubbed (empty body)"]
    return rep.finish()
