"""C06 -- arithmetic and comparison do not depend on the units operands are written in (E1).

Equivalent formulation decided here: the SI value of each result equals the same operation
applied to the SI values of the operands, SI(q) = magnitude * size(unit) with sizes from the
independent declaration oracle.  If that holds for (U, V) and for every re-expression (U', V'),
the physical value of a (op) b cannot depend on how the operands are written.
"""

from __future__ import annotations

import itertools
from fractions import Fraction
from typing import Any, Dict, List, Tuple

import z3

from engine import families, par, report, symnum, work
from engine.symnum import bool_term, explore, mk, real, var
from props import conv_common as cc

PID = "C06"
X, Y = z3.Real("x"), z3.Real("y")

# groups of mutually convertible spellings; every ordered pair inside a group is a re-expression
GROUPS = [
    ["measured.si.Meter", "measured.us.Foot", "(measured.si.Kilo * measured.si.Meter)",
     "measured.us.Mile", "(measured.si.Milli * measured.us.Inch)"],
    ["measured.si.Second", "measured.si.Hour", "(measured.si.Milli * measured.si.Second)"],
    ["measured.si.Kilogram", "measured.avoirdupois.Pound", "(measured.si.Milli * measured.si.Gram)"],
    ["measured.iec.Bit", "measured.iec.Byte", "(measured.si.Kilo * measured.iec.Bit)",
     "(measured.iec.Kibi * measured.iec.Byte)", "(measured.si.Mega * measured.iec.Byte)",
     "(measured.iec.Mebi * measured.iec.Bit)"],
    ["(measured.si.Meter / measured.si.Second)", "(measured.us.Mile / measured.si.Hour)",
     "measured.us.Knot"],
    ["measured.si.Joule", "(measured.si.Kilo * measured.si.Watt * measured.si.Hour)",
     "measured.Unit.named('calorie')"],
    ["(measured.si.Meter ** 2)", "measured.us.Acre", "measured.si.Hectare"],
    ["(measured.us.Yard ** 2)", "(measured.us.Pica ** 2)", "(measured.us.Mile ** 2)", "(measured.us.Inch ** 2)"],
    ["(measured.us.Mile ** 3)", "(measured.us.Inch ** 3)", "(measured.si.Meter ** 3)", "measured.us.Gallon"],
    ["(measured.si.Hour ** -1)", "(measured.si.Day ** -1)", "measured.si.Hertz"],
    ["measured.si.Newton", "measured.us.PoundForce",
     "(measured.si.Kilogram * measured.si.Meter / measured.si.Second ** 2)"],
]
RECIPROCAL = [
    ("(measured.si.Mega * measured.si.Hertz)", "(measured.si.Milli * measured.si.Second)"),
    ("(measured.si.Kilo * measured.si.Hertz)", "(measured.si.Milli * measured.si.Second)"),
    ("(measured.si.Kilo * measured.si.Meter)", "(measured.si.Meter ** -1)"),
    ("(measured.si.Meter ** -1)", "(measured.si.Milli * measured.si.Meter)"),
    ("measured.iec.Byte", "(measured.iec.Bit ** -1)"),
    ("(measured.iec.Kibi * measured.iec.Byte)", "(measured.si.Kilo * measured.iec.Bit ** -1)"),
    ("(measured.si.Kilo * measured.si.Meter)", "(measured.si.Kilo * measured.si.Meter)"),
    ("(measured.si.Kilo * measured.si.Meter)", "(measured.si.Kilo * measured.si.Second)"),
    ("(measured.iec.Kibi * measured.iec.Byte)", "(measured.iec.Kibi * measured.iec.Byte)"),
    ("(measured.si.Milli * measured.si.Second)", "(measured.si.Milli * measured.si.Second ** -1)"),
]
POWERS = [-3, -2, -1, 0, 1, 2, 3]


def ns() -> Dict[str, Any]:
    import measured
    import measured.systems  # noqa

    return {"measured": measured}


def size(orc: Any, u: Any) -> Fraction:
    s = orc.size(u)
    if s is None:
        raise symnum.HarnessError(f"oracle has no size for {u}")
    return s[0]


def replay(op: str, uc: str, vc: str, n: int, xv: Fraction, yv: Fraction, sU: Fraction,
           sV: Fraction, sR_code: str, kind: str = "float") -> str:
    expr = {"add": "a + b", "sub": "a - b", "mul": "a * b", "div": "a / b", "pow": f"a ** {n}",
            "eq": "a == b", "lt": "a < b"}[op]
    return families.REPLAY_IMPORTS + f"""
from decimal import Decimal
U, V = {uc}, {vc}
x, y = {float(xv)!r}, {float(yv)!r}
sU, sV = {float(sU)!r}, {float(sV)!r}   # unit sizes from the declarations (independent of the library)
A, B = x * sU, y * sV
if {kind!r} == 'dec':      # the obligation was about Decimal magnitudes
    x, y = Decimal(repr(x)), Decimal(repr(y))
elif {kind!r} == 'int':
    x, y = int(x), int(y); A, B = x * sU, y * sV
a, b = x * U, y * V
r = {expr}
print(a, b, '->', r)
op = {op!r}
if op in ('eq', 'lt'):
    if abs(A - B) <= 1e-7 * (abs(A) + abs(B)): print('tie zone'); sys.exit(0)
    want = (A == B) if op == 'eq' else (A < B)
    if bool(r) != want:
        print('REPRODUCED: comparison disagrees with SI values', A, B); sys.exit(1)
    sys.exit(0)
want = dict(add=A + B, sub=A - B, mul=A * B, div=(A / B if B else None), pow=A ** {n} if (A or {n} >= 0) else None)[op]
import measured.si as si
sR = {sR_code}
got = float(r.magnitude) * sR
scale = abs(A) + abs(B) if op in ('add', 'sub') else abs(want)
print('SI value of result', got, ' operation on SI values', want)
if abs(got - want) > 1e-6 * scale + 1e-300:
    print('REPRODUCED: physical value of the result depends on the units'); sys.exit(1)
sys.exit(0)
"""


def worker(task: Tuple) -> Dict[str, Any]:
    items = task
    families.boot()
    orc = cc.oracle_with_readings()
    n_ = ns()
    acc = work.Acc()
    absz = lambda e: z3.If(e >= 0, e, -e)
    with symnum.Shims():
        for (uc, vc, same_dim, *rest) in items:
            kind = rest[0] if rest else "float"
            U, V = eval(uc, n_), eval(vc, n_)
            sU, sV = size(orc, U), size(orc, V)
            label = f"{families.show(U)},{families.show(V)}" + ("" if kind == "float" else f"/{kind}")
            ops = ["mul", "div"] + [f"pow{n}" for n in POWERS]
            if same_dim:
                ops += ["add", "sub", "eq", "lt"]
            if kind != "float":
                # the other numeric types: the operations that bring both operands to one unit
                ops = ["add", "sub", "eq", "lt"]
            for op in ops:
                n = int(op[3:]) if op.startswith("pow") else 0
                opn = "pow" if op.startswith("pow") else op

                def fn() -> Any:
                    from measured import Quantity

                    a, b = Quantity(mk(kind, XK), U), Quantity(mk(kind, YK), V)
                    return {"add": lambda: a + b, "sub": lambda: a - b, "mul": lambda: a * b,
                            "div": lambda: a / b, "pow": lambda: a ** n, "eq": lambda: a == b,
                            "lt": lambda: a < b}[opn]()

                XK, YK = (X, Y) if kind != "int" else (z3.Int("xi"), z3.Int("yi"))
                ex = explore(fn, max_paths=16)
                acc.explored(ex)
                A, B = real(XK) * symnum.q(sU), real(YK) * symnum.q(sV)
                for i, p in enumerate(ex.paths):
                    key = (label, op, i)
                    name = f"{label}:{op}#p{i}"
                    if p.exc is not None:
                        defined = {"div": Y != 0, "pow": z3.BoolVal(n >= 0) if n >= 0 else X != 0
                                   }.get(opn, z3.BoolVal(True))
                        r, _ = acc.P.check(p.cond, defined)
                        acc.ob("unsat" if r == "unsat" else ("unknown" if r == "unknown" else "sat"),
                               name + ":raises-only-where-undefined", key)
                        if r == "sat":
                            acc.out["viol"].append((f"C06:raises:{op}:{label}",
                                                    f"{p.outcome} from {op} on {label}",
                                                    replay(opn, uc, vc, n, Fraction(1), Fraction(2),
                                                           sU, sV, "1.0")))
                        continue
                    if opn in ("eq", "lt"):
                        t = bool_term(p.result)
                        margin = symnum.q(Fraction(1, 10 ** 9)) * (absz(A) + absz(B))
                        if opn == "eq":
                            goal = z3.Implies(absz(A - B) > margin, z3.Not(t))
                        else:
                            goal = z3.And(z3.Implies(A < B - margin, t),
                                          z3.Implies(A > B + margin, z3.Not(t)))
                        sR_code = "1.0"
                        scale_ok = z3.BoolVal(True)
                    else:
                        res = p.result
                        mag = res.magnitude
                        t = real(mag.t) if symnum.is_sym(mag) else symnum.q(mag)
                        sR = size(orc, res.unit)
                        sR_code = repr(float(sR))
                        got = t * symnum.q(sR)
                        if opn == "add":
                            want, scale = A + B, absz(A) + absz(B)
                        elif opn == "sub":
                            want, scale = A - B, absz(A) + absz(B)
                        elif opn == "mul":
                            want = A * B
                            scale = absz(want)
                        elif opn == "div":
                            want = A / B
                            scale = absz(want)
                        else:
                            want = symnum._ipow(A, n) if n >= 0 else 1 / symnum._ipow(A, -n)
                            scale = absz(want)
                        deg = orc.degree(U, V) + abs(n)
                        tol = symnum.q(Fraction(1, 10 ** 5) * deg)
                        goal = absz(got - want) <= tol * scale

                    def rp(m: Dict[str, Fraction]) -> str:
                        return replay(opn, uc, vc, n, m.get(str(XK), Fraction(1)), m.get(str(YK), Fraction(1)),
                                      sU, sV, sR_code, kind)

                    r, _ = acc.P.check(p.cond, z3.Not(goal))
                    if r == "unsat":
                        acc.ob("unsat", name, key)
                    elif r == "unknown":
                        acc.ob("unknown", name, key)
                    else:
                        # prefer a counterexample far from the tie zone, so that the float
                        # replay sits on the same side as the exact model
                        far = absz(A - B) > symnum.q(Fraction(1, 100)) * (absz(A) + absz(B))
                        m = acc.P.shaped_model([p.cond, z3.Not(goal), far], [XK, YK]) or \
                            acc.P.shaped_model([p.cond, z3.Not(goal)], [XK, YK])
                        if m is None:
                            acc.ob("unknown", name + "(real-model-only)", key)
                            continue
                        acc.ob("sat", name, key)
                        acc.out["viol"].append((f"C06:{op}:{label}", f"{op} on {label}: SI value of the "
                                                f"result differs from the operation on SI values", rp(m)) +
                                               (("soft",) if kind != "float" else ()))
        acc.sample({"pair": items[0][:2], "ops": "mul div pow[-3..3] (+ add sub eq lt when commensurable)"})
    return acc.finish()


# temperatures: the left operand in an absolute unit (its kelvin map has no offset), the right
# one in any scale; a + b and a - b come back in the left unit and denote K(a) +/- K(b)
ABSOLUTE = ["measured.si.Kelvin", "measured.us.Rankine", "(measured.si.Milli * measured.si.Kelvin)",
            "(measured.si.Kilo * measured.us.Rankine)"]
SCALES = ["measured.si.Kelvin", "measured.si.Celsius", "measured.us.Fahrenheit", "measured.us.Rankine",
          "(measured.si.Milli * measured.si.Celsius)", "(measured.si.Kilo * measured.us.Fahrenheit)"]


def affine_replay(op: str, uc: str, vc: str, m: Dict[str, Fraction], kU: Tuple, kV: Tuple) -> str:
    return families.REPLAY_IMPORTS + f"""
U, V = {uc}, {vc}
x, y = {float(m.get('x', Fraction(300)))!r}, {float(m.get('y', Fraction(20)))!r}
(a1, b1), (a2, b2) = {tuple(map(float, kU))!r}, {tuple(map(float, kV))!r}    # kelvin = a*magnitude + b, from the declarations
a, b = x * U, y * V
r = a {'+' if op == 'add' else '-'} b
KA, KB = a1 * x + b1, a2 * y + b2
got = a1 * float(r.magnitude) + b1
want = KA {'+' if op == 'add' else '-'} KB
print(a, {'"+"' if op == 'add' else '"-"'}, b, '=', r, ' in kelvin:', got, ' K(a) op K(b):', want)
if r.unit is not U or abs(got - want) > 4e-9 * (abs(KA) + abs(KB) + 1):
    print('REPRODUCED: the result depends on the scale the right operand is written in'); sys.exit(1)
sys.exit(0)
"""


def affine_worker(task: Tuple) -> Dict[str, Any]:
    from props import c10

    orc = families.boot()
    n_ = ns()
    acc = work.Acc()
    maps = c10.to_kelvin_maps(orc)
    absz = lambda e: z3.If(e >= 0, e, -e)

    def kmap(unit: Any) -> Tuple[Fraction, Fraction]:
        base = next(iter(unit.factors))
        a, b = maps[base.name]
        pv = Fraction(unit.prefix.base) ** unit.prefix.exponent if unit.prefix.base else Fraction(1)
        return a * pv, b

    with symnum.Shims():
        for uc, vc in task:
            U, V = eval(uc, n_), eval(vc, n_)
            kU, kV = kmap(U), kmap(V)
            if kU[1] != 0:
                raise symnum.HarnessError(f"{uc} is not an absolute scale")
            label = f"{families.show(U)},{families.show(V)}"
            for op in ("add", "sub"):
                def fn() -> Any:
                    from measured import Quantity

                    a, b = Quantity(mk("float", X), U), Quantity(mk("float", Y), V)
                    return a + b if op == "add" else a - b

                ex = explore(fn, max_paths=16)
                acc.explored(ex)
                KA, KB = symnum.q(kU[0]) * X, symnum.q(kV[0]) * Y + symnum.q(kV[1])
                for i, p in enumerate(ex.paths):
                    key, name = (label, op, i), f"{label}:{op}#p{i}(scales)"
                    rp = lambda m: affine_replay(op, uc, vc, m, kU, kV)
                    if p.exc is not None:
                        acc.ob("sat", name + ":raises", key)
                        acc.out["viol"].append((f"C06:raises:{op}:{label}", f"{p.outcome} from {op} on {label}", rp({})))
                        continue
                    res = p.result
                    got = symnum.q(kU[0]) * real(symnum.term(res.magnitude))
                    want = KA + KB if op == "add" else KA - KB
                    goal = z3.And(z3.BoolVal(res.unit is U),
                                  absz(got - want) <= symnum.q(Fraction(1, 10 ** 9)) * (absz(KA) + absz(KB) + 1))
                    r, _ = acc.P.check(p.cond, z3.Not(goal))
                    if r != "sat":
                        acc.ob("unsat" if r == "unsat" else "unknown", name, key)
                        continue
                    small = [X >= -1000, X <= 1000, Y >= -1000, Y <= 1000]
                    m = acc.P.shaped_model([p.cond, z3.Not(goal), *small], [X, Y]) or \
                        acc.P.shaped_model([p.cond, z3.Not(goal)], [X, Y])
                    if m is None:
                        acc.ob("unknown", name + "(real-model-only)", key)
                        continue
                    acc.ob("sat", name, key)
                    acc.out["viol"].append((f"C06:{op}:{label}", f"{op} on {label}: the result is not K(a) "
                                            f"{'+' if op == 'add' else '-'} K(b)", rp(m)))
            # order between the two scales, both operand orders: decided by the kelvin values alone
            def cmpfn() -> Any:
                from measured import Quantity

                a, b = Quantity(mk("float", X), U), Quantity(mk("float", Y), V)
                return {"lt_ab": a < b, "le_ab": a <= b, "gt_ab": a > b, "ge_ab": a >= b,
                        "lt_ba": b < a, "le_ba": b <= a, "gt_ba": b > a, "ge_ba": b >= a}

            ex = explore(cmpfn, max_paths=64)
            acc.explored(ex)
            KA, KB = symnum.q(kU[0]) * X, symnum.q(kV[0]) * Y + symnum.q(kV[1])
            margin = symnum.q(Fraction(1, 10 ** 7)) * (absz(KA) + absz(KB) + 1)
            for i, p in enumerate(ex.paths):
                key, name = (label, "order", i), f"{label}:order#p{i}(scales)"
                rp = lambda m: order_replay(uc, vc, m, kU, kV)
                if p.exc is not None:
                    acc.ob("sat", name + ":raises", key)
                    mm = acc.P.shaped_model([p.cond], [X, Y])
                    acc.out["viol"].append((f"C06:raises:order:{label}", f"{p.outcome} from ordering {label}",
                                            rp(mm or {})))
                    continue
                o = {k: bool_term(v) for k, v in p.result.items()}
                below = z3.And(o["lt_ab"], o["le_ab"], z3.Not(o["gt_ab"]), z3.Not(o["ge_ab"]),
                               o["gt_ba"], o["ge_ba"], z3.Not(o["lt_ba"]), z3.Not(o["le_ba"]))
                above = z3.And(o["gt_ab"], o["ge_ab"], z3.Not(o["lt_ab"]), z3.Not(o["le_ab"]),
                               o["lt_ba"], o["le_ba"], z3.Not(o["gt_ba"]), z3.Not(o["ge_ba"]))
                goal = z3.And(z3.Implies(KA < KB - margin, below), z3.Implies(KA > KB + margin, above))
                r, _ = acc.P.check(p.cond, z3.Not(goal))
                if r != "sat":
                    acc.ob("unsat" if r == "unsat" else "unknown", name, key)
                    continue
                far = absz(KA - KB) > 4 * margin
                small = [X >= -1000, X <= 1000, Y >= -1000, Y <= 1000]
                m = acc.P.shaped_model([p.cond, z3.Not(goal), far, *small], [X, Y]) or \
                    acc.P.shaped_model([p.cond, z3.Not(goal), far], [X, Y])
                if m is None:
                    acc.ob("unknown", name + "(witness only inside the rounding-tie zone)", key)
                    continue
                acc.ob("sat", name, key)
                acc.out["viol"].append((f"C06:order:{label}", f"order between {label} disagrees with the kelvin "
                                        f"values at {({k: str(v) for k, v in m.items()})}", rp(m)))
        acc.sample({"scales": task[0], "ops": "add sub with the left operand in an absolute unit; < <= > >= in both orders"})
    return acc.finish()


def order_replay(uc: str, vc: str, m: Dict[str, Fraction], kU: Tuple, kV: Tuple) -> str:
    return families.REPLAY_IMPORTS + f"""
U, V = {uc}, {vc}
x, y = {float(m.get('x', Fraction(300)))!r}, {float(m.get('y', Fraction(20)))!r}
(a1, b1), (a2, b2) = {tuple(map(float, kU))!r}, {tuple(map(float, kV))!r}    # kelvin = a*magnitude + b, from the declarations
a, b = x * U, y * V
KA, KB = a1 * x + b1, a2 * y + b2
obs = dict(lt_ab=a < b, le_ab=a <= b, gt_ab=a > b, ge_ab=a >= b, lt_ba=b < a, le_ba=b <= a, gt_ba=b > a, ge_ba=b >= a)
print(a, b, 'kelvin:', KA, KB, obs)
if abs(KA - KB) <= 2e-7 * (abs(KA) + abs(KB) + 1):
    print('tie zone: nothing required'); sys.exit(0)
lt = KA < KB
want = dict(lt_ab=lt, le_ab=lt, gt_ab=not lt, ge_ab=not lt, lt_ba=not lt, le_ba=not lt, gt_ba=lt, ge_ba=lt)
bad = {{k: (bool(obs[k]), want[k]) for k in obs if bool(obs[k]) != want[k]}}
if bad:
    print('REPRODUCED: the order between two temperatures depends on the scales they are written in:', bad); sys.exit(1)
sys.exit(0)
"""


def tasks_for(tier: str) -> List[Tuple]:
    items: List[Tuple] = []
    for g in GROUPS:
        for u, v in itertools.permutations(g, 2):
            items.append((u, v, True))
        items.append((g[0], g[0], True))
    # operands of different dimensions (for * / **): one spelling of each group against another
    for g1, g2 in itertools.permutations(GROUPS, 2):
        items.append((g1[-1], g2[1], False))
        if tier == "thorough":
            items.append((g1[1], g2[-1], False))
            items.append((g1[0], g2[2 % len(g2)], False))
    if tier == "quick":
        items = items[::2]
    # products / quotients in which every factor cancels while the prefixes do not
    items += [(u, v, False) for u, v in RECIPROCAL]
    # Decimal and int magnitudes on the spellings that differ by a prefix (SI, IEC, mixed) or a unit
    for g in (GROUPS[3], GROUPS[0][:3], GROUPS[1]):
        for u, v in itertools.permutations(g, 2):
            items.append((u, v, True, "dec"))
        for u, v in list(itertools.permutations(g, 2))[::3]:
            items.append((u, v, True, "int"))
    return [ch for ch in par.chunks(items, 32)]


def main(tier: str, selftest_cases: int = 0) -> int:
    rep = report.Report(PID, tier, "other")
    tasks = families.shuffled(tasks_for(tier), rep.seed)
    affine = [(u, v) for u in (ABSOLUTE if tier == "thorough" else ABSOLUTE[:3]) for v in SCALES if u != v]
    work.merge(rep, par.run("props.c06", "affine_worker", [ch for ch in par.chunks(affine, 6)]))
    results = par.run("props.c06", "worker", tasks)
    work.merge(rep, results)
    # over ALL named units of a dimension: if the factors the library applies admit no consistent
    # sizes (c04's query), the verdict of < depends on the units the operands are written in --
    # three quantities with a < b < c < a (c12's construction)
    from props import c04, c12

    c04.sizes_feasibility(rep, c04.named_coefficients(),
                          emit=lambda r, d, n, core, cs: c12.order_cycle(r, d, n, core, cs, pid="C06"))
    rep.functions.update(["measured.Quantity.__add__", "measured.Quantity.__sub__",
                          "measured.Quantity.__mul__", "measured.Quantity.__truediv__",
                          "measured.Quantity.__pow__", "measured.Quantity.__eq__",
                          "measured.Quantity.__lt__", "measured.Unit._multiply", "measured.Unit._divide",
                          "measured.Unit.__pow__", "measured.Prefix.__mul__", "measured.Prefix.__truediv__",
                          "measured.Prefix.__pow__"] + cc.FUNCTIONS)
    rep.coverage["unit_pairs"] = sum(len(t) for t in tasks)
    rep.coverage["selftest_cases"] = selftest_cases
    rep.coverage["bounds"] = (
        "symbolic: magnitudes x, y (all reals). Enumerated: ordered pairs inside 8 groups of "
        "convertible spellings (other unit and/or other registered prefix, incl. SI/IEC mixes on "
        "information units), cross-dimension pairs for * / **, n in [-3,3]; quick takes every "
        "second pair.")
    rep.coverage["explanation"] = (
        "The real operators run on symbolic magnitudes; z3 decides for all x,y that "
        "SI(a op b) = SI(a) op SI(b) within 1e-5 per degree (SI from the declaration oracle, "
        "applied to the unit object the library returns), and that == / < agree with SI values "
        "away from ties.")
    rep.assumptions += ["exact real arithmetic over the binary constants in the code",
                        "unit sizes from recorded declarations (engine/oracle.py)"]
    return rep.finish()
