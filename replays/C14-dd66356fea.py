"""Replay of a counterexample for property C14 (C14:mul:MM:DivisionByZero).

Only public API calls on the unmodified library, plain numbers, no proxies, no stubs.
Exit status 1 and a line starting with REPRODUCED when the violation shows; 0 otherwise.
Run:  /venv/bin/python C14-dd66356fea.py
"""
import sys
import measured, measured.systems
import measured.si
import measured.us
import measured.avoirdupois
import measured.troy
import measured.energy
import measured.astronomical
import measured.natural
import measured.metric
import measured.iec
import measured.iso
import measured.eu
import measured.fff
import measured.apocrypha
import measured.computing
import measured.acoustics
import measured.electronics
import measured.music
import measured.physics
import measured.geometry

from decimal import Decimal
import math
from measured import Measurement
U1, U2 = measured.si.Meter, measured.us.Foot
a, s, b, t = Decimal(0) / Decimal(1), Decimal(1) / Decimal(2), Decimal(0) / Decimal(1), Decimal(0) / Decimal(1)
expr = lambda: Measurement(a * U1, s) * Measurement(b * U2, t)
plain_expr = lambda: (a * U1) * (b * U2)
s_ = float(s) if True else 0.0
t_ = float(t) if True else 0.0
rho = float((1 * U2).in_unit(U1).magnitude) if U1.dimension is U2.dimension else 1.0
sigma = math.sqrt((float(b) * s_) ** 2 + (float(a) * t_) ** 2)
defined = True
try:
    r = expr()
except Exception as e:
    if defined:
        print('REPRODUCED: raised', type(e).__name__, e); sys.exit(1)
    print('operation undefined, exception acceptable'); sys.exit(0)
plain = plain_expr()
ru = r.measurand.unit
k = 1.0 if ru is plain.unit else float((1 * ru).in_unit(plain.unit).magnitude)
u = float(r.uncertainty.magnitude) * k
print('result', r, ' uncertainty in', plain.unit, ':', u, ' first-order propagation', sigma)
if u < 0 or abs(u - sigma) > 1e-6 * max(abs(sigma), 1e-300) + 1e-12:
    print('REPRODUCED: uncertainty', u, 'expected', sigma); sys.exit(1)
sys.exit(0)
