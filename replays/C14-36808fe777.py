"""Replay of a counterexample for property C14 (C14:pow:n=-2:uncertainty-first-order).

Only public API calls on the unmodified library, plain numbers, no proxies, no stubs.
Exit status 1 and a line starting with REPRODUCED when the violation shows; 0 otherwise.
Run:  /venv/bin/python C14-36808fe777.py
"""
import sys
import measured, measured.systems
import measured.si
import measured.us
import measured.avoirdupois
import measured.troy
import measured.energy
import measured.astronomical
import measured.natural
import measured.metric
import measured.iec
import measured.iso
import measured.eu
import measured.fff
import measured.apocrypha
import measured.computing
import measured.acoustics
import measured.electronics
import measured.music
import measured.physics
import measured.geometry

from decimal import Decimal
import math
from measured import Measurement
U1, U2 = measured.si.Meter, measured.si.Meter
a, s, n = Decimal(2) / Decimal(1), Decimal(1) / Decimal(1), -2
expr = lambda: Measurement(a * U1, s) ** n
plain_expr = lambda: (a * U1) ** n
sigma = abs(n * float(a) ** (n - 1) * float(s)) if n != 0 else 0.0
defined = not (n < 0 and a == 0)
try:
    r = expr()
except Exception as e:
    if defined:
        print('REPRODUCED: raised', type(e).__name__, e); sys.exit(1)
    print('operation undefined, exception acceptable'); sys.exit(0)
plain = plain_expr()
ru = r.measurand.unit
k = 1.0 if ru is plain.unit else float((1 * ru).in_unit(plain.unit).magnitude)
u = float(r.uncertainty.magnitude) * k
print('result', r, ' uncertainty in', plain.unit, ':', u, ' first-order propagation', sigma)
if u < 0 or abs(u - sigma) > 1e-6 * max(abs(sigma), 1e-300) + 1e-12:
    print('REPRODUCED: uncertainty', u, 'expected', sigma); sys.exit(1)
sys.exit(0)
